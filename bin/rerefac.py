#!/usr/bin/env python3
"""Re-run every stored behaviour-preserving refactoring against the current machinery.

  rerefac.py [id ...]          (env VERIF_NPROC: processes per check, default 6; REFAC_PAR: refactorings in parallel, default 3)
Each /verif/refactors/<id>/patch.diff is applied in its own scratch git worktree of /repo (created under /tmp and removed
afterwards; /repo itself is never modified) and all checks are run against it through bin/refactest.py.
Exit 1 if any check raises an alarm (exit 1) or crashes (exit 3) on a refactoring; undecided results are listed but tolerated.
"""
import json, os, subprocess, sys, tempfile, shutil, glob
from concurrent.futures import ThreadPoolExecutor
VERIF = os.path.dirname(os.path.dirname(os.path.abspath(__file__)))
REPO = "/repo"


def sh(cmd):
    return subprocess.run(cmd, shell=True, capture_output=True, text=True)


def one(rid):
    d = os.path.join(VERIF, "refactors", rid)
    wt = tempfile.mkdtemp(prefix="rerefac-")
    os.rmdir(wt)
    try:
        a = sh("git -C %s worktree add -q --detach %s HEAD" % (REPO, wt))
        if a.returncode != 0:
            return rid, None, a.stderr[:200]
        for so in glob.glob(os.path.join(REPO, "src", "spectrum", "mydpss*.so")):
            shutil.copy(so, os.path.join(wt, "src", "spectrum"))
        note = os.path.join(d, "note.txt")
        meta0 = json.load(open(os.path.join(d, "meta.json")))
        with open(note, "w") as fh:
            fh.write(meta0.get("what", ""))
        mp = os.path.join(d, "meta.json")
        before = os.path.getmtime(mp)
        r = sh("cd %s && python3 bin/refactest.py %s %s %s %s %s" % (VERIF, rid, wt, os.path.join(d, "patch.diff"), os.path.join(d, "demo.py"), note))
        os.remove(note)
        text = "\n".join(l for l in r.stdout.split("\n") if l and not l.startswith("WARNING"))
        if r.returncode != 0 or os.path.getmtime(mp) == before:
            # the evaluation itself failed: never report a stale record as a pass
            return rid, None, "%s: evaluation failed (exit %d)\n%s\n%s" % (rid, r.returncode, text, r.stderr[-600:])
        return rid, json.load(open(mp)), text
    finally:
        sh("git -C %s worktree remove --force %s" % (REPO, wt))
        sh("git -C %s worktree prune" % REPO)


def main():
    ids = sys.argv[1:] or sorted(os.listdir(os.path.join(VERIF, "refactors")))
    bad = []
    with ThreadPoolExecutor(max_workers=int(os.environ.get("REFAC_PAR", "3"))) as ex:
        for rid, meta, out in ex.map(one, ids):
            print(out, flush=True)
            if meta is None or meta["false_alarms"] or meta["crashed"] or not meta["confirmed_harmless"]["ok"]:
                bad.append(rid)
    print("alarms / crashes on harmless changes:", bad or "none")
    sys.exit(1 if bad else 0)


main()
