#!/usr/bin/env python3
"""regenerate MANIFEST.json from the per-property META of the contract modules"""
import json, os, sys, importlib
HERE = os.path.dirname(os.path.abspath(__file__))
ROOT = os.path.dirname(HERE)
sys.path.insert(0, ROOT)
props = [json.loads(l) for l in open(os.path.join(ROOT, "properties.jsonl"))]
claims = json.load(open(os.path.join(ROOT, "claims.json")))
checks = []
na = []
for p in props:
    pid = p["id"]
    c = claims.get(pid)
    if c is None or c.get("not_applicable"):
        na.append({"property_id": pid, "reason": (c or {}).get("reason", "check not built yet (work in progress)")})
        continue
    checks.append({
        "property_id": pid,
        "quick_cmd": "python3-vt bin/check.py %s --tier quick" % pid,
        "thorough_cmd": "python3-vt bin/check.py %s --tier thorough" % pid,
        "evidence_file": "evidence/%s.json" % pid,
        "replay_cmd_template": "PYTHONPATH=/repo/src:/verif /venv/bin/python bin/replay.py {path}",
        "engine": c.get("engine", "pyvc-smt"),
        "level_claimed": {"category": c["level"], "text": c["text"], "design_ref": c.get("design_ref", "DESIGN.md section 4 " + pid)},
        "level_note": c["note"],
        "technique": c["technique"],
    })
m = {
    "version": 1,
    "setup_cmd": "python3-vt -m compileall -q pyvc contracts bin",
    "hooks": {"guard": "SPECTRUM_VERIF", "enable": "no hooks: contracts are side-car files under /verif/contracts and /repo/src is read as text on every run; the guard guards nothing",
              "baseline_off_cmd": "cd /repo && /venv/bin/python -m pytest -ra -q -p no:cacheprovider --timeout=900 --continue-on-collection-errors",
              "source_commits": [], "add_only": True},
    "engines": [
        {"name": "pyvc-smt", "path": "pyvc/", "serves_properties": [c["property_id"] for c in checks if c["engine"] == "pyvc-smt"],
         "kind_free_text": "E1: verification conditions generated from the Python AST of the real source by a symbolic interpreter (symbolic lengths, skolem indices, path-wise), discharged by z3 (cvc5 on unknown)"},
        {"name": "pyvc-alg", "path": "pyvc/", "serves_properties": [c["property_id"] for c in checks if c["engine"] == "pyvc-alg"],
         "kind_free_text": "E3: same interpreter over exact polynomial/rational-function algebra at bounded sizes (all values), identities decided by normal form"},
        {"name": "pyvc-deg", "path": "pyvc/", "serves_properties": [c["property_id"] for c in checks if c["engine"] == "pyvc-deg"],
         "kind_free_text": "E2: same interpreter over homogeneity (degree) types"},
    ],
    "checks": checks,
    "notes": "Contract-based deductive verification of the real code; see DESIGN.md. Exit codes: 0 all obligations discharged, 1 violation, 2 undecided, 3 internal error.",
    "not_applicable": na,
}
json.dump(m, open(os.path.join(ROOT, "MANIFEST.json"), "w"), indent=1)
print("checks:", [c["property_id"] for c in checks], "n/a:", len(na))
