#!/venv/bin/python
"""Replay a counter-model on the REAL code (runs under /venv/bin/python with
PYTHONPATH=/repo/src:/verif).

  replay.py <file.json>                         exit 0 = the real code violates the clause on this input
                                                exit 4 = the real code agrees with the specification
  replay.py --search <prop> <key> <hints> <seed> <tries>   guided random search; exit 0 + JSON line when found
"""
import importlib
import json
import os
import sys
import warnings

warnings.filterwarnings("ignore")
HERE = os.path.dirname(os.path.abspath(__file__))
sys.path.insert(0, os.path.dirname(HERE))
sys.path.insert(0, os.path.join(os.environ.get("SPECTRUM_REPO", "/repo"), "src"))


def native_module(prop):
    return importlib.import_module("contracts.%s_native" % prop)


def main():
    if sys.argv[1] == "--search":
        prop, key, hints, seed, tries = sys.argv[2], sys.argv[3], json.loads(sys.argv[4]), int(sys.argv[5]), int(sys.argv[6])
        mod = native_module(prop)
        import random
        rng = random.Random(seed)
        gen = mod.SEARCH.get(key)
        if gen is None:
            print("no search generator for", key)
            return 4
        for _ in range(tries):
            inputs = gen(rng, hints)
            try:
                ok, detail = mod.NATIVE[key](inputs)
            except Exception as e:  # the real code raising where the spec defines a value is a failure too
                ok, detail = False, "exception %s: %s" % (type(e).__name__, e)
            if not ok:
                print("found failing input:", detail)
                print(json.dumps(inputs))
                return 0
        print("no failing input in %d tries" % tries)
        return 4
    with open(sys.argv[1]) as fh:
        body = json.load(fh)
    mod = native_module(body["property"])
    f = mod.NATIVE.get(body["native"])
    if f is None:
        print("no native oracle", body["native"])
        return 5
    try:
        ok, detail = f(body["inputs"])
    except mod.Skip as e:
        print("input not replayable:", e)
        return 5
    print("obligation:", body["obligation"])
    print("native:", "AGREES with spec" if ok else "VIOLATES spec", "--", detail)
    return 4 if ok else 0


if __name__ == "__main__":
    sys.exit(main())
