#!/usr/bin/env python3
"""Re-evaluate every stored seeded change against the current machinery.

  reseed.py [seed-id ...]
For each /verif/seeded/<id>/: apply patch.diff to /repo, run the quick check of every property named in meta.json
(its own property and every check that caught it before), restore /repo, rewrite the `checks` / `caught_by` fields.
Exit 1 if a seed is no longer caught by its own property's check.
"""
import json, os, subprocess, sys, time
REPO = "/repo"
VERIF = os.path.dirname(os.path.dirname(os.path.abspath(__file__)))


def sh(cmd, **kw):
    return subprocess.run(cmd, shell=True, capture_output=True, text=True, **kw)


def main():
    ids = sys.argv[1:] or sorted(os.listdir(os.path.join(VERIF, "seeded")))
    missed = []
    for sid in ids:
        d = os.path.join(VERIF, "seeded", sid)
        mp = os.path.join(d, "meta.json")
        if not os.path.exists(mp):
            continue
        meta = json.load(open(mp))
        assert sh("git -C %s status --porcelain" % REPO).stdout.strip() == "", "/repo not clean"
        checks = [meta["property"]] + [c for c in meta.get("caught_by", []) if c != meta["property"]]
        ap = sh("git -C %s apply %s" % (REPO, os.path.join(d, "patch.diff")))
        if ap.returncode != 0:
            print(sid, "patch does not apply:", ap.stderr[:200])
            missed.append(sid)
            continue
        res = {}
        try:
            for c in checks:
                t0 = time.time()
                r = sh("cd %s && python3-vt bin/check.py %s --tier quick" % (VERIF, c))
                lines = r.stdout.split("\n")
                viol = [l for l in lines if l.startswith("VIOLATION")]
                res[c] = {"exit": r.returncode, "violations": len(viol), "first": viol[:2], "seconds": round(time.time() - t0, 1),
                          "undecided": len([l for l in lines if l.startswith("UNDECIDED")]),
                          "tail": r.stdout.strip().split("\n")[-1][:200]}
        finally:
            sh("git -C %s checkout -- ." % REPO)
        meta["checks"] = res
        meta["caught_by"] = [c for c, v in res.items() if v["exit"] == 1 and v["violations"] > 0]
        json.dump(meta, open(mp, "w"), indent=1)
        own = res[meta["property"]]
        ok = meta["property"] in meta["caught_by"]
        if not ok and meta.get("uncaught_reason"):
            print("%-7s UNCAUGHT (recorded): %s" % (sid, meta["uncaught_reason"][:150]), flush=True)
            continue
        if not ok:
            missed.append(sid)
        print("%-7s %s own-check exit %d, %d violations, %d undecided, %.0fs | caught by %s" % (
            sid, "CAUGHT" if ok else "MISSED", own["exit"], own["violations"], own["undecided"], own["seconds"], ",".join(meta["caught_by"])), flush=True)
    print("missed:", missed or "none")
    sys.exit(1 if missed else 0)


main()
