#!/usr/bin/env python3
"""Confirm a proposed property-breaking change and run the checks against it.

  seedtest.py <property> <dir with patchN.diff demoN.py noteN.txt> [N ...]
Applies each patch to /repo (git apply), confirms the demonstration fails with it and passes without,
runs the repository's test suite with it, runs the property's quick check, then restores /repo.
Confirmed changes are stored under /verif/seeded/<property>-<n>/.
"""
import json, os, shutil, subprocess, sys, time
REPO = "/repo"
VERIF = os.path.dirname(os.path.dirname(os.path.abspath(__file__)))


def sh(cmd, **kw):
    return subprocess.run(cmd, shell=True, capture_output=True, text=True, **kw)


def main():
    prop, d = sys.argv[1], sys.argv[2]
    nums = sys.argv[3:] or ["1", "2"]
    checks = os.environ.get("SEED_CHECKS", prop).split(",")
    for n in nums:
        patch, demo, note = [os.path.join(d, f % n) for f in ("patch%s.diff", "demo%s.py", "note%s.txt")]
        if not os.path.exists(patch):
            print(prop, n, "no patch")
            continue
        assert sh("git -C %s status --porcelain" % REPO).stdout.strip() == "", "/repo not clean"
        env = "PYTHONPATH=%s/src PYTHONWARNINGS=ignore" % REPO
        base = sh("%s /venv/bin/python %s" % (env, demo), cwd="/tmp")
        ap = sh("git -C %s apply %s" % (REPO, patch))
        if ap.returncode != 0:
            print(prop, n, "patch does not apply:", ap.stderr[:200])
            continue
        try:
            mut = sh("%s /venv/bin/python %s" % (env, demo), cwd="/tmp")
            tests = sh("cd %s && /venv/bin/python -m pytest -q -p no:cacheprovider --timeout=900 -x 2>&1 | tail -1" % REPO)
            res = {}
            for c in checks:
                t0 = time.time()
                r = sh("cd %s && python3-vt bin/check.py %s --tier quick" % (VERIF, c))
                viol = [l for l in r.stdout.split("\n") if l.startswith("VIOLATION")]
                res[c] = {"exit": r.returncode, "violations": len(viol), "first": viol[:2], "seconds": round(time.time() - t0, 1),
                          "undecided": len([l for l in r.stdout.split("\n") if l.startswith("UNDECIDED")]),
                          "tail": r.stdout.strip().split("\n")[-1][:200]}
        finally:
            sh("git -C %s checkout -- ." % REPO)
        confirmed = base.returncode == 0 and mut.returncode != 0 and "passed" in tests.stdout and "failed" not in tests.stdout
        print("%s-%s: demo clean=%d mutated=%d | tests: %s | confirmed=%s" % (prop, n, base.returncode, mut.returncode, tests.stdout.strip()[-60:], confirmed))
        for c, v in res.items():
            print("    check %s: exit %d, %d violations, %d undecided (%.0fs) %s" % (c, v["exit"], v["violations"], v["undecided"], v["seconds"], v["first"][:1]))
        if confirmed:
            out = os.path.join(VERIF, "seeded", "%s-%s" % (prop, n))
            os.makedirs(out, exist_ok=True)
            shutil.copy(patch, os.path.join(out, "patch.diff"))
            shutil.copy(demo, os.path.join(out, "demo.py"))
            meta = {"property": prop, "needs": open(note).read().strip() if os.path.exists(note) else "",
                    "confirmed": {"demo_exit_unmodified": base.returncode, "demo_exit_with_patch": mut.returncode,
                                  "test_suite_with_patch": tests.stdout.strip()[-80:]},
                    "ran": "git -C /repo apply patch.diff; demo.py; pytest; python3-vt bin/check.py <id> --tier quick; git -C /repo checkout -- .",
                    "checks": res, "caught_by": [c for c, v in res.items() if v["exit"] == 1]}
            json.dump(meta, open(os.path.join(out, "meta.json"), "w"), indent=1)


main()
