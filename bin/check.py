#!/usr/bin/env python3-vt
"""check driver: python3-vt bin/check.py Cxx [--tier quick|thorough]"""
import argparse
import importlib
import os
import sys

HERE = os.path.dirname(os.path.abspath(__file__))
sys.path.insert(0, os.path.dirname(HERE))
os.chdir(os.path.dirname(HERE))


def main():
    ap = argparse.ArgumentParser()
    ap.add_argument("prop")
    ap.add_argument("--tier", default=os.environ.get("VERIF_TIER", "quick"))
    ap.add_argument("--only", default=None, help="run only tasks whose name contains this string (debugging)")
    a = ap.parse_args()
    seed = int(os.environ.get("VERIF_SEED", "0") or 0)
    tier = a.tier if a.tier in ("quick", "thorough") else "quick"
    try:
        mod = importlib.import_module("contracts.%s" % a.prop)
    except Exception as e:
        import traceback
        traceback.print_exc()
        print("internal error: cannot load contracts for %s: %s" % (a.prop, e))
        return 3
    from pyvc import harness
    if a.only:
        orig = mod.tasks
        mod.tasks = lambda tier: [t for t in orig(tier) if a.only in t.name]
    try:
        return harness.run_check(a.prop, mod, tier, seed)
    except Exception:
        import traceback
        traceback.print_exc()
        return 3


if __name__ == "__main__":
    sys.exit(main())
