#!/bin/sh
# regenerate every evidence file from a clean run on /repo as it is now
cd "$(dirname "$0")/.."
tier=${1:-quick}
rc=0
for p in $(python3 -c "import json;print(' '.join(c['property_id'] for c in json.load(open('MANIFEST.json'))['checks']))"); do
  python3-vt bin/check.py $p --tier $tier 2>&1 | grep -v "^WARNING conda" | tail -3
  r=$?
done
