#!/usr/bin/env python3
"""Run every check against a BEHAVIOUR-PRESERVING change and record whether any of them raises an alarm.

  refactest.py <id> <scratch worktree of /repo> <patch.diff> <demo.py> [note.txt]
The patch is applied in the scratch worktree (never in /repo); the checks read it through SPECTRUM_REPO and write their evidence
and replays to a scratch directory.  A change counts as confirmed harmless when its demo (library against an independent
reference) exits 0 with and without it and the repository's test suite passes with it.  Stored under /verif/refactors/<id>/.
Verdict per check: 0 quiet (what is wanted), 2 undecided (brittle: the proof no longer goes through), 1 FALSE ALARM, 3 crash.
"""
import json, os, shutil, subprocess, sys, tempfile, time
VERIF = os.path.dirname(os.path.dirname(os.path.abspath(__file__)))


def sh(cmd, **kw):
    return subprocess.run(cmd, shell=True, capture_output=True, text=True, **kw)


def main():
    rid, wt, patch, demo = sys.argv[1:5]
    note = sys.argv[5] if len(sys.argv) > 5 else None
    assert wt.startswith("/tmp/") and os.path.isdir(wt)
    sh("git -C %s checkout -- ." % wt)
    envp = "PYTHONWARNINGS=ignore PYTHONPATH=%s/src" % wt
    base = sh("%s /venv/bin/python %s" % (envp, demo), cwd="/tmp")
    ap = sh("git -C %s apply %s" % (wt, patch))
    if ap.returncode != 0:
        print(rid, "patch does not apply:", ap.stderr[:200])
        return 2
    scratch = tempfile.mkdtemp(prefix="refac-")
    res = {}
    try:
        mut = sh("%s /venv/bin/python %s" % (envp, demo), cwd="/tmp")
        tests = sh("cd %s && PYTHONPATH=%s/src /venv/bin/python -m pytest -q -p no:cacheprovider --timeout=900 test 2>&1 | tail -1" % (wt, wt))
        harmless = base.returncode == 0 and mut.returncode == 0 and "passed" in tests.stdout and "failed" not in tests.stdout
        checks = [c["property_id"] for c in json.load(open(os.path.join(VERIF, "MANIFEST.json")))["checks"]]
        env = dict(os.environ, SPECTRUM_REPO=wt, VERIF_EVIDENCE_DIR=os.path.join(scratch, "ev"), VERIF_REPLAY_DIR=os.path.join(scratch, "rp"),
                   VERIF_NPROC=os.environ.get("VERIF_NPROC", "6"))
        for c in checks:
            t0 = time.time()
            r = subprocess.run("cd %s && python3-vt bin/check.py %s --tier quick" % (VERIF, c), shell=True, capture_output=True, text=True, env=env)
            lines = [l for l in r.stdout.split("\n") if not l.startswith("WARNING")]
            res[c] = {"exit": r.returncode, "seconds": round(time.time() - t0, 1),
                      "lines": [l[:300] for l in lines if l.startswith(("VIOLATION", "UNDECIDED", "ERROR"))][:6],
                      "tail": (lines[-2] if len(lines) > 1 else "")[:200]}
    finally:
        sh("git -C %s checkout -- ." % wt)
        shutil.rmtree(scratch, ignore_errors=True)
    loud = {c: v for c, v in res.items() if v["exit"] not in (0,)}
    # C15's known finding prints KNOWN-FINDING and exits 0: nothing special needed
    out = os.path.join(VERIF, "refactors", rid)
    os.makedirs(out, exist_ok=True)
    for src, name in ((patch, "patch.diff"), (demo, "demo.py")):
        dst = os.path.join(out, name)
        if os.path.abspath(src) != os.path.abspath(dst):
            shutil.copy(src, dst)
    meta = {"id": rid, "what": open(note).read().strip() if note and os.path.exists(note) else "",
            "confirmed_harmless": {"demo_exit_unmodified": base.returncode, "demo_exit_with_patch": mut.returncode,
                                   "test_suite_with_patch": tests.stdout.strip()[-80:], "ok": harmless},
            "checks": res, "false_alarms": sorted(c for c, v in res.items() if v["exit"] == 1),
            "undecided": sorted(c for c, v in res.items() if v["exit"] == 2), "crashed": sorted(c for c, v in res.items() if v["exit"] == 3)}
    json.dump(meta, open(os.path.join(out, "meta.json"), "w"), indent=1)
    print("%s: harmless=%s (demo %d/%d, %s) | quiet %d/%d | false alarms %s | undecided %s | crashed %s" % (
        rid, harmless, base.returncode, mut.returncode, tests.stdout.strip()[-28:], sum(1 for v in res.values() if v["exit"] == 0), len(res),
        meta["false_alarms"] or "-", meta["undecided"] or "-", meta["crashed"] or "-"), flush=True)
    for c, v in loud.items():
        for l in v["lines"][:3]:
            print("      %s: %s" % (c, l[:230]))
    return 0


sys.exit(main())
