"""native scaling replay for C03: f(c*x) against the declared power of c times f(x)"""
import numpy as np
from .native_common import Skip, close
from .C07_native import build

C = 0.37 * np.exp(0.9j)


def _x(N, cx, seed):
    rng = np.random.RandomState(seed)
    t = np.arange(N)
    x = np.cos(0.7 * t + 0.3) + 0.5 * rng.randn(N)
    if cx:
        x = x + 1j * (np.sin(0.4 * t) + 0.5 * rng.randn(N))
    return x


def _call(fn, x, p, inp):
    import spectrum
    from spectrum.covar import arcovar_marple
    from spectrum.modcovar import modcovar_marple
    N = len(x)
    if fn == "arburg":
        a, rho, r = spectrum.arburg(x, p); return [("a", a, 0), ("rho", rho, 2), ("reflection", r, 0)]
    if fn.startswith("arburg+"):
        a, rho, r = spectrum.arburg(x, p, inp["criteria"]); return [("a", a, 0), ("rho", rho, 2), ("reflection", r, 0)]
    if fn == "aryule":
        a, P, k = spectrum.aryule(x, p); return [("a", a, 0), ("P", P, 2), ("reflection", k, 0)]
    if fn == "CORRELATION":
        return [("r", spectrum.CORRELATION(x, maxlags=p, norm="biased"), 2)]
    if fn == "xcorr":
        return [("r", spectrum.xcorr(x, maxlags=p, norm="unbiased")[0], 2)]
    if fn == "arcovar":
        a, e = spectrum.arcovar(x, p); return [("a", a, 0), ("e", e, 2)]
    if fn == "modcovar":
        a, e = spectrum.modcovar(x, p); return [("a", a, 0), ("e", e, 2)]
    if fn == "arcovar_marple":
        r = arcovar_marple(x, p); return [("af", r[0], 0), ("pf", r[1], 2), ("ab", r[2], 0), ("pb", r[3], 2)]
    if fn == "modcovar_marple":
        r = modcovar_marple(x, p); return [("a", r[0], 0), ("p", r[1], 2)]
    if fn == "ma":
        b, rho = spectrum.ma(x, p, 2 * p); return [("ma", b, 0), ("rho", rho, 2)]
    if fn == "arma_estimate":
        a, b, rho = spectrum.arma_estimate(x, p, max(p - 1, 1), 2 * p); return [("ar", a, 0), ("ma", b, 0), ("rho", rho, 2)]
    if fn == "minvar":
        r = spectrum.minvar(x, p + 1, 1.0, 4 * p + 4); return [("PSD", r[0], 2), ("A", r[1], 0), ("reflection", r[2], 0)]
    if fn.startswith("eigen"):
        m = inp["method"]
        if inp.get("criteria"):
            # order selection inside eigen: the selected subspace dimension must not depend on the amplitude
            r = spectrum.eigen(x, p + 2, NSIG=None, method=m, NFFT=4 * p + 4, criteria=inp["criteria"])
        else:
            r = spectrum.eigen(x, p + 1, NSIG=1, method=m, NFFT=4 * p + 4)
        return [("pseudo-spectrum", r[0], 0 if m == "music" else 1), ("singular values", r[1], 1)]
    if fn == "speriodogram":
        return [("psd", spectrum.speriodogram(x, 2 * N, detrend=False, sampling=1.0, scale_by_freq=True, window="hann"), 2)]
    if fn == "CORRELOGRAMPSD":
        return [("psd", spectrum.CORRELOGRAMPSD(x, None, lag=p, window="hamming", norm="unbiased", NFFT=2 * N), 2)]
    if fn.startswith("pmtm"):
        r = spectrum.pmtm(x, 2.5, None, NFFT=2 * N, method=inp["method"])
        return [("|eigenspectra|", np.abs(r[0]), 1), ("weights", r[1], 0), ("eigenvalues", r[2], 0)]
    if fn == "class":
        cls = inp["cls"]
        args = {"Periodogram": lambda: spectrum.Periodogram(x, NFFT=2 * N), "pcorrelogram": lambda: spectrum.pcorrelogram(x, lag=p, NFFT=2 * N),
                "pburg": lambda: spectrum.pburg(x, p, NFFT=2 * N), "pyule": lambda: spectrum.pyule(x, p, NFFT=2 * N),
                "pcovar": lambda: spectrum.pcovar(x, p, NFFT=2 * N), "pmodcovar": lambda: spectrum.pmodcovar(x, p, NFFT=2 * N),
                "parma": lambda: spectrum.parma(x, p, max(p - 1, 1), 2 * p, NFFT=2 * N), "pma": lambda: spectrum.pma(x, p, 2 * p, NFFT=2 * N),
                "pminvar": lambda: spectrum.pminvar(x, p + 1, NFFT=2 * N), "pmusic": lambda: spectrum.pmusic(x, p + 1, NSIG=1, NFFT=2 * N),
                "pev": lambda: spectrum.pev(x, p + 1, NSIG=1, NFFT=2 * N),
                "MultiTapering": lambda: spectrum.MultiTapering(x, NW=2.5, NFFT=2 * N, method="adapt")}
        o = args[cls]()
        o()
        k = {"pmusic": 0, "pev": 1}.get(cls, 2)
        out = [("psd", np.array(o.psd), k)]
        for nm, kk in {"pburg": [("ar", 0), ("rho", 2), ("reflection", 0)], "pyule": [("ar", 0), ("reflection", 0)], "pcovar": [("ar", 0), ("rho", 2)],
                       "pmodcovar": [("ar", 0), ("rho", 2)], "parma": [("ar", 0), ("ma", 0), ("rho", 2)], "pma": [("ma", 0), ("rho", 2)],
                       "pminvar": [("ar", 0), ("reflection", 0)], "pmusic": [("eigenvalues", 1)], "pev": [("eigenvalues", 1)],
                       "MultiTapering": [("weights", 0), ("eigenvalues", 0)]}.get(cls, []):
            out.append((nm, np.array(getattr(o, nm)), kk))
        return out
    raise Skip(fn)


def scaling(inp):
    cx = bool(inp.get("complex"))
    sh = inp.get("shape", {})
    N, p = int(sh.get("N", 16)), int(sh.get("order", 3))
    c = C if cx else float(inp.get("c", 0.37))
    grid = [(N, p, c, seed) for seed in (1, 2, 3)]
    if str(inp.get("fn", "")).startswith("eigen") and inp.get("criteria"):
        # a data-scale dependent order selection shows only where two candidate orders are close: more sizes and scales
        grid += [(n_, p_, c_ * (np.exp(0.9j) if cx else 1.0), seed) for (n_, p_) in ((64, 10), (40, 6), (24, 4))
                 for c_ in (40.0, 1000.0, 1e-3, 0.05) for seed in (1, 2)]
    for (N, p, c, seed) in grid:
        x = _x(N, cx, seed)
        r1 = _call(inp["fn"], x, p, inp)
        try:
            r2 = _call(inp["fn"], c * x, p, inp)
        except Exception as e:
            return False, "estimator raises %s on the scaled data (c=%s) but not on the original" % (type(e).__name__, c)
        for (nm, v1, k), (_, v2, _) in zip(r1, r2):
            v1, v2 = np.asarray(v1), np.asarray(v2)
            if v1.shape != v2.shape:
                return False, "%s: shape %s for x but %s for c*x (c=%s): a data-scale dependent decision" % (nm, v1.shape, v2.shape, c)
            if not close(v2, (abs(c) ** k) * v1, 1e-7):
                ratio = np.abs(v2).sum() / max(np.abs(v1).sum(), 1e-300)
                return False, "%s(c*x) / %s(x) = %.6g, required |c|^%d = %.6g (c=%s, N=%d, order=%d)" % (nm, nm, ratio, k, abs(c) ** k, c, N, p)
    return True, "homogeneous on 3 random vectors"


NATIVE = {"scaling": scaling}


def _s(rng, hints):
    d = dict(hints)
    d["c"] = rng.choice([0.37, 12.5, 1e-2, 3e2])
    return d


SEARCH = {"scaling": _s}
