"""C05  NFFT only chooses the sampling grid of one underlying spectrum.

 grid.F.*   for F in arma2psd, speriodogram, CORRELOGRAMPSD, minvar, eigen: F(NFFT2 = c*NFFT1)[index of the same frequency]
            = F(NFFT1)[i], for every integer c >= 2 and every i, under the admissibility condition of the statement
            (NFFT > order, NFFT >= N, NFFT >= 2*lag+1, NFFT >= 2*order); wrapped (Hermitian) sequences go through the
            grid-independent two-sided spectrum (periodisation identity, premises proved)
 place.K.*  class level, for every NFFT: psd[i] = (constant) x F[i] and the exposed model parameters are the outputs of
            estimator calls that do not receive NFFT
 Together: values at common frequencies of two admissible grids agree; model parameters do not depend on NFFT.
"""
from . import funcs, classes, model

META = {
    "level": "proof",
    "functions": ["spectrum.arma.arma2psd", "spectrum.periodogram.speriodogram", "spectrum.correlog.CORRELOGRAMPSD",
                  "spectrum.minvar.minvar", "spectrum.eigenfre.eigen"] + [c["q"] + ".__call__" for c in model.CLASSES.values()],
    "assumptions": ["A-REAL; A-PY; A-DFT; A-SVD",
                    "class-level grid independence is the composition of place.* (all NFFT) with grid.* (function level)",
                    "pmtm: grid independence is proved for the eigenspectra and for the adaptive weights after one iteration "
                    "(they depend on the frequency's own eigenspectra and on sig2 only); the stopping rule of the adaptive iteration "
                    "is a global mean over NFFT, so the NUMBER of iterations may depend on NFFT -- not claimed",
                    "eigen(): bounded in the order P"],
    "trusted_base": [],
}


def tasks(tier):
    ts = []
    for dt in ("real", "complex"):
        for f in ("arma2psd", "speriodogram", "CORRELOGRAMPSD", "minvar"):
            ts.append(funcs.grid_task(f, dt))
        ts.append(funcs.grid_task("pmtm", dt, dict(method="unity")))
        ts.append(funcs.grid_task("pmtm", dt, dict(method="adapt")))
        ts.append(funcs.grid_task("eigen", dt, dict(P=2, NSIG=1, method="music")))
        ts.append(funcs.grid_task("eigen", dt, dict(P=3, NSIG=1, method="ev")))
        for c in model.CLASSES:
            ts.append(classes.place_task(c, dt))
    return ts
