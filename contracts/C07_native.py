"""native history replay for C07: bring a real object into the pre-state case, apply the
operation, read psd and compare with a freshly constructed object holding the same final
attribute values; also df = sampling/NFFT and len(frequencies()) = len(psd)."""
import numpy as np
from .native_common import Skip, num, arr, close, rand_arr

WINDOWS = ["hann", "hamming", "bartlett", "blackman", "rectangular", "cosine"]


def _data(inp, datatype, key="data", n=24):
    d = inp.get(key)
    if isinstance(d, dict) and "values" in d and len(d["values"]) >= 16:
        return arr(d)
    rng = np.random.RandomState(int(inp.get("seed", 1)) + (7 if key != "data" else 0))
    x = np.cos(0.3 * np.arange(n)) + 0.5 * rng.randn(n)
    if datatype == "complex":
        x = x + 1j * (np.sin(0.3 * np.arange(n)) + 0.5 * rng.randn(n))
    return x


def build(cls, datatype, at):
    """fresh object from attribute values `at`"""
    import spectrum
    d = at["data"]
    fs, nfft, sc = at["sampling"], at["NFFT"], at["scale_by_freq"]
    if cls == "Periodogram":
        o = spectrum.Periodogram(d, sampling=fs, window=at["window"], NFFT=nfft, scale_by_freq=sc, detrend=at["detrend"])
    elif cls == "pcorrelogram":
        o = spectrum.pcorrelogram(d, sampling=fs, lag=at["lag"], window=at["window"], NFFT=nfft, scale_by_freq=sc,
                                  detrend=at["detrend"])
    elif cls == "pburg":
        o = spectrum.pburg(d, at["ar_order"], NFFT=nfft, sampling=fs, scale_by_freq=sc)
    elif cls == "pyule":
        o = spectrum.pyule(d, at["ar_order"], NFFT=nfft, sampling=fs, scale_by_freq=sc)
    elif cls == "pcovar":
        o = spectrum.pcovar(d, at["ar_order"], NFFT=nfft, sampling=fs, scale_by_freq=sc)
    elif cls == "pmodcovar":
        o = spectrum.pmodcovar(d, at["ar_order"], NFFT=nfft, sampling=fs, scale_by_freq=sc)
    elif cls == "parma":
        o = spectrum.parma(d, at["ar_order"], at["ma_order"], at["plag"], NFFT=nfft, sampling=fs, scale_by_freq=sc)
    elif cls == "pma":
        o = spectrum.pma(d, at["ma_order"], at["ar_order"], NFFT=nfft, sampling=fs, scale_by_freq=sc)
    elif cls == "pminvar":
        o = spectrum.pminvar(d, at["ar_order"], NFFT=nfft, sampling=fs, scale_by_freq=sc)
    elif cls == "pmusic":
        o = spectrum.pmusic(d, at["ar_order"], NSIG=2, NFFT=nfft, sampling=fs, scale_by_freq=sc)
    elif cls == "pev":
        o = spectrum.pev(d, at["ar_order"], NSIG=2, NFFT=nfft, sampling=fs, scale_by_freq=sc)
    elif cls == "MultiTapering":
        o = spectrum.MultiTapering(d, NW=2.5, NFFT=nfft, scale_by_freq=sc, sampling=fs, method=at.get("method", "unity"))
    else:
        raise Skip(cls)
    if at.get("data_y") is not None:
        o.data_y = at["data_y"]
    if cls not in ("Periodogram", "pcorrelogram") and at["detrend"] is not None:
        o.detrend = at["detrend"]
    return o


def attrs_of(o, cls, at0):
    at = dict(at0)
    at.update(data=o.data, data_y=o.data_y, sampling=o.sampling, NFFT=o.NFFT, scale_by_freq=o.scale_by_freq, detrend=o.detrend)
    if cls in ("Periodogram", "pcorrelogram"):
        at.update(window=o.window, lag=o.lag)
    else:
        if hasattr(o, "ar_order"):
            at.update(ar_order=o.ar_order, ma_order=o.ma_order, plag=o.lag)
    return at


def history(inp):
    cls, datatype, op, case = inp["cls"], inp["datatype"], inp["op"], inp.get("case", "none")
    arg = inp.get("arg")
    rng = np.random.RandomState(int(inp.get("seed", 3)))
    data = _data(inp, datatype)
    N = len(data)
    at = dict(data=data, data_y=None, sampling=float(inp.get("fs0", 1.0)), NFFT=int(inp.get("nfft0", 32)), scale_by_freq=False,
              detrend=None, window="hann", lag=6, ar_order=4, ma_order=3, plag=8, method="unity")
    if cls in ("pma",):
        at["ar_order"] = 8
    if op == "init":
        at["NFFT"] = None if case == "None" else at["NFFT"]
        o = build(cls, datatype, at)
        want_nfft = N if case == "None" else at["NFFT"]
        ok = (o.NFFT == want_nfft) and abs(o.df - o.sampling / o.NFFT) < 1e-12 and o.range.N == o.NFFT
        return ok, "constructor: NFFT=%s df=%s sampling=%s range.N=%s" % (o.NFFT, o.df, o.sampling, o.range.N)
    o = build(cls, datatype, at)
    if case.startswith("valid"):
        o()
        s = case.split("@")[1]
        o.sides = s
    elif case == "stale":
        o()
        o.sides = "centerdc"
        o.data = data * 1.5 + 0.25     # marks the cache stale
    if op == "call":
        o()
    elif op == "data":
        o.data = _data(dict(inp, seed=int(inp.get("seed", 3)) + 11), datatype, key="data_new", n=N + 3)
    elif op == "data:dtype":
        # the same samples with the other dtype (a real array declared complex / a complex array with zero imaginary part made real)
        if datatype == "real":
            newd = np.asarray(o.data).astype(complex)
        else:
            o.data = np.real(np.asarray(data)) + 0j            # start from complex samples whose imaginary part is zero
            if case.startswith("valid"):
                o()
            newd = np.real(np.asarray(o.data)).copy()
        o.data = newd
        assigned = (newd, "complex" if datatype == "real" else "real")
    elif op == "data_y":
        o.data_y = np.real(_data(dict(inp, seed=5), "real", key="datay_new", n=N))
    elif op == "sampling":
        o.sampling = float(inp.get("new_sampling", 2.5))
    elif op == "detrend":
        o.detrend = inp.get("new_detrend", "mean")
    elif op == "scale_by_freq":
        o.scale_by_freq = bool(inp.get("new_scale", True))
    elif op == "NFFT":
        o.NFFT = int(inp.get("new_nfft", 45))
    elif op == "NFFT=None":
        o.NFFT = None
    elif op == "sides":
        o.sides = arg
    elif op == "run":
        o.run()
    elif op == "frequencies":
        o.frequencies()
    elif op == "get_converted_psd":
        o.get_converted_psd(arg)
    elif op == "window":
        o.window = inp.get("new_window", "hamming")
    elif op == "lag":
        o.lag = int(inp.get("new_lag", 9))
    elif op == "ar_order":
        o.ar_order = int(inp.get("new_order", 6))
    elif op == "ma_order":
        o.ma_order = int(inp.get("new_order", 2))
    elif op == "plain:lag":
        o.lag = int(inp.get("new_lag", 12))
    elif op == "read":
        pass
    else:
        raise Skip(op)
    x = np.array(o.psd, dtype=float)
    final = attrs_of(o, cls, at)
    sides = o.sides
    fdt = datatype
    if op == "data:dtype":
        # the reference object is built from the value that was ASSIGNED, not from what the object chose to keep
        final = dict(final, data=assigned[0])
        fdt = assigned[1]
    f = build(cls, fdt, final)
    f()
    if op != "data:dtype":
        f.sides = sides
    y = np.array(f.psd, dtype=float)
    nf = len(o.frequencies())
    okdf = abs(o.df - o.sampling / o.NFFT) <= 1e-12 * max(1.0, abs(o.df))
    ok = close(x, y, 1e-9) and nf == len(x) and okdf
    return ok, ("%s(%s) case=%s op=%s%s: psd read %s fresh object with the same final attributes "
                "(max |diff| %s, len %d vs %d); len(frequencies)=%d; df=%r sampling/NFFT=%r" % (
                    cls, datatype, case, op, ("=" + str(arg)) if arg else "", "EQUALS" if close(x, y, 1e-9) else "DIFFERS FROM",
                    float(np.max(np.abs(x - y))) if x.shape == y.shape else "n/a", len(x), len(y), nf, o.df, o.sampling / o.NFFT))


NATIVE = {"history": history}


def _s_history(rng, hints):
    d = dict(hints)
    d["seed"] = rng.randint(1, 1000)
    d["nfft0"] = rng.choice([32, 33, 40, 64])
    d["fs0"] = rng.choice([1.0, 2.0, 0.5])
    d["new_sampling"] = rng.choice([2.5, 4.0, 0.25])
    d["new_nfft"] = rng.choice([45, 48, 64, 37])
    d["new_order"] = rng.choice([2, 5, 6])
    d["new_lag"] = rng.choice([9, 10, 12])
    d["new_window"] = rng.choice(["hamming", "bartlett", "blackman"])
    return d


SEARCH = {"history": _s_history}
