"""native (numpy) oracles shared by the replays of C01/C02/C05/C16/C17 -- the statements'
definitions written directly; the estimators they call are the real ones from /repo"""
import numpy as np
from .native_common import Skip, num, arr, close, rand_arr
from .C07_native import build, _data


def _x(inp, datatype, key="x", n=None):
    d = inp.get(key)
    if isinstance(d, dict) and "values" in d and len(d["values"]) >= 4 and not all(
            (v == "0" or v == 0 or v == ["0", "0"]) for v in d["values"]):
        return arr(d)
    return _data(inp, datatype, n=n or int(inp.get("N", 24)) if str(inp.get("N", 24)).isdigit() and int(inp.get("N", 24)) >= 8 else 24)


def speriodogram(inp):
    import spectrum
    dt = inp["datatype"]
    x = _x(inp, dt)
    N = len(x)
    n = N if inp.get("nfft_mode") == "None" else max(int(inp.get("NFFT", N)), N)
    fs = num(inp.get("sampling", 1.0))
    got = spectrum.speriodogram(x, None if inp.get("nfft_mode") == "None" else n, detrend=False, sampling=fs,
                                scale_by_freq=bool(inp.get("scale")), window="hann")
    w = spectrum.create_window(N, "hann")
    want = np.abs(np.fft.fft(x * w, n)) ** 2 / N
    if dt == "real":
        want = want[: n // 2 + 1]
    if inp.get("scale"):
        want = want * 2 * np.pi / (fs / n)
    return close(got, want, 1e-9), "speriodogram N=%d NFFT=%d: max|diff| %g" % (N, n, _md(got, want))


def _md(a, b):
    a, b = np.asarray(a), np.asarray(b)
    return float(np.max(np.abs(a - b))) if a.shape == b.shape and a.size else -1.0


def speriodogram2d(inp):
    import spectrum
    dt = inp["datatype"]
    c = int(inp["ncols"])
    rng = np.random.RandomState(int(inp.get("seed", 2)))
    N = int(inp.get("N", 12)) if int(inp.get("N", 12)) >= 6 else 12
    x = rng.randn(N, c) + (1j * rng.randn(N, c) if dt == "complex" else 0)
    n = max(int(inp.get("NFFT", N)), N)
    got = spectrum.speriodogram(x, n, detrend=False, sampling=1.0, scale_by_freq=False, window="hann")
    cols = [spectrum.speriodogram(x[:, j], n, detrend=False, sampling=1.0, scale_by_freq=False, window="hann") for j in range(c)]
    want = np.array(cols).T
    return close(got, want, 1e-9), "2-D speriodogram vs per-column: max|diff| %g" % _md(got, want)


def correlogram(inp):
    import spectrum
    from spectrum.correlation import CORRELATION
    dt = inp["datatype"]
    x = _x(inp, dt)
    N = len(x)
    lag = int(inp.get("lag", 5))
    lag = min(max(lag, 1), N - 1)
    n = max(int(inp.get("NFFT", 2 * lag + 1)), 2 * lag + 1)
    y = _x(dict(inp, seed=9), dt, key="y", n=N) if inp.get("cross") else None
    norm = inp.get("norm", "biased")
    got = spectrum.CORRELOGRAMPSD(x, y, lag=lag, window="hamming", norm=norm, NFFT=n, correlation_method=inp.get("method", "xcorr"))
    rxy = CORRELATION(x, y if y is not None else x, maxlags=lag, norm=norm)
    ryx = CORRELATION(y, x, maxlags=lag, norm=norm) if y is not None else rxy
    w = spectrum.create_window(2 * lag + 1, "hamming")
    k = np.arange(n)
    tot = np.full(n, rxy[0], dtype=complex)
    for m in range(1, lag + 1):
        tot = tot + rxy[m] * w[lag + m] * np.exp(-2j * np.pi * k * m / n) + np.conj(ryx[m]) * w[lag - m] * np.exp(2j * np.pi * k * m / n)
    want = tot.real
    return close(got, want, 1e-8), "CORRELOGRAMPSD lag=%d NFFT=%d: max|diff| %g" % (lag, n, _md(got, want))


def minvar(inp):
    import spectrum
    dt = inp["datatype"]
    x = _x(inp, dt, n=32)
    m = int(inp.get("order", 4))
    m = min(max(m, 2), len(x) // 2 - 1)
    n = max(int(inp.get("NFFT", 2 * m)), 2 * m)
    fs = num(inp.get("sampling", 1.0))
    got, A_ret, k_ret = spectrum.minvar(x, m, sampling=fs, NFFT=n)
    a, rho, ref = spectrum.arburg(x, m - 1)
    A = np.concatenate(([1.0 + 0j], a))
    psi = np.zeros(m, dtype=complex)
    for K in range(m):
        psi[K] = sum((m - K - 2 * i) * np.conj(A[i]) * A[i + K] for i in range(m - K)) / rho
    k = np.arange(n)
    tot = np.zeros(n, dtype=complex)
    for K in range(m):
        tot = tot + psi[K] * np.exp(-2j * np.pi * k * K / n)
        if K:
            tot = tot + np.conj(psi[K]) * np.exp(2j * np.pi * k * K / n)
    want = fs / tot.real
    ok = close(got, want, 1e-7) and close(A_ret, A, 1e-10) and close(k_ret, ref, 1e-10)
    return ok, "minvar order=%d NFFT=%d: max rel diff %g" % (m, n, float(np.max(np.abs(np.asarray(got) / want - 1))) if np.asarray(got).shape == want.shape else -1)


def _pseudo(x, P, NSIG, method, n):
    N = len(x)
    NP = N - P
    FB = np.zeros((2 * NP, P), dtype=complex)
    for i in range(NP):
        for kk in range(P):
            FB[i, kk] = x[i - kk + P - 1]
            FB[i + NP, kk] = np.conj(x[i + kk + 1])
    U, S, Vh = np.linalg.svd(FB)
    h = n // 2
    out = np.zeros(n)
    for a in range(n):
        f = (a - h) / n
        tot = 0.0
        for I in range(NSIG, P):
            v = np.conj(Vh[I, :])
            t = abs(np.sum(v * np.exp(-2j * np.pi * f * np.arange(P)))) ** 2
            tot += t / S[I] if method == "ev" else t
        out[a] = 1.0 / tot
    return out, S


def eigen(inp):
    import spectrum
    dt = inp["datatype"]
    P, NSIG, method = int(inp["P"]), int(inp["NSIG"]), inp["method"]
    x = _x(inp, dt, n=max(24, 3 * P))
    n = max(int(inp.get("NFFT", 16)), P + 1)
    got, S = spectrum.eigen(x, P, NSIG=NSIG, method=method, NFFT=n)
    want, S2 = _pseudo(x, P, NSIG, method, n)
    ok = len(got) == n and close(np.asarray(got), want, 1e-6) and close(S, S2, 1e-9)
    return ok, "eigen(%s) P=%d NSIG=%d NFFT=%d: len %d, max rel diff %s" % (
        method, P, NSIG, n, len(got), float(np.max(np.abs(np.asarray(got) / want - 1))) if len(got) == n else "n/a")


def _arma2psd_direct(a, b, rho, T, n):
    """rho/T * |B(f)|^2 / |A(f)|^2 on the grid k/n, by direct polynomial evaluation (NOT the library routine: the class-level
    specification is this formula, and a defect inside arma2psd must not hide behind its own output)"""
    k = np.arange(n)

    def poly(c):
        c = np.concatenate(([1.0], np.asarray(c)))
        return np.array([np.sum(c * np.exp(-2j * np.pi * kk / n * np.arange(len(c)))) for kk in k])
    want = np.full(n, float(np.real(rho)) / T)
    if b is not None:
        want = want * np.abs(poly(b)) ** 2
    if a is not None:
        want = want / np.abs(poly(a)) ** 2
    return want


def place(inp):
    """class __call__: psd[i] = (fold) x (function result at the reported frequency)"""
    import spectrum
    cls, dt = inp["cls"], inp["datatype"]
    fs = float(inp.get("fs0", 2.0))
    nfft = int(inp.get("nfft0", 32))
    data = _data(inp, dt)
    at = dict(data=data, data_y=None, sampling=fs, NFFT=nfft, scale_by_freq=False, detrend=None, window="hann", lag=6,
              ar_order=4, ma_order=3, plag=8, method="unity")
    if cls == "pma":
        at["ar_order"] = 8
    o = build(cls, dt, at)
    o()
    got = np.asarray(o.psd, dtype=float)
    n = o.NFFT
    h = n // 2
    L = h + 1
    real = dt == "real"
    fold = (lambda two: 2 * np.asarray(two)[:L]) if real else (lambda two: np.asarray(two))
    if cls == "Periodogram":
        want = spectrum.speriodogram(data, n, detrend=None, sampling=fs, scale_by_freq=False, window="hann")
    elif cls == "pcorrelogram":
        two = spectrum.CORRELOGRAMPSD(data, None, lag=6, window="hann", NFFT=n)
        if real:
            want = 2 * two[:L]
            want[0] /= 2
            if n % 2 == 0:
                want[-1] /= 2
        else:
            want = two
    elif cls == "pburg":
        a, rho, ref = spectrum.arburg(data, 4)
        want = fold(_arma2psd_direct(a, None, rho, fs, n))
    elif cls == "pyule":
        a, rho, ref = spectrum.aryule(data, 4)
        want = fold(_arma2psd_direct(a, None, rho, fs, n))
    elif cls == "pcovar":
        a, e = spectrum.arcovar(data, 4)
        want = fold(_arma2psd_direct(a, None, e / (len(data) - 4), fs, n))
    elif cls == "pmodcovar":
        a, e = spectrum.modcovar(data, 4)
        want = fold(_arma2psd_direct(a, None, e / (2 * (len(data) - 4)), fs, n))
    elif cls == "parma":
        a, b, rho = spectrum.arma_estimate(data, 4, 3, 8)
        want = fold(_arma2psd_direct(a, b, rho, fs, n))
    elif cls == "pma":
        b, rho = spectrum.ma(data, 3, 8)
        want = fold(_arma2psd_direct(None, b, rho, fs, n))
    elif cls == "pminvar":
        want = fold(spectrum.minvar(data, 4, sampling=fs, NFFT=n)[0])
    elif cls in ("pmusic", "pev"):
        E, S = spectrum.eigen(data, 4, NSIG=2, method="music" if cls == "pmusic" else "ev", NFFT=n)
        E = np.asarray(E)
        if real:
            want = np.array([2 * E[h - i] for i in range(L)])
        else:
            want = np.array([E[(k + h) % n] for k in range(n)])
    elif cls == "MultiTapering":
        Sk, w, eig = spectrum.pmtm(data, 2.5, None, NFFT=n, method="unity")
        two = np.mean(np.abs(Sk) ** 2 * w, axis=0)
        want = fold(two)
    else:
        raise Skip(cls)
    nf = len(o.frequencies())
    return close(got, want, 1e-9) and nf == len(got), "%s(%s) NFFT=%d: len(psd)=%d len(freq)=%d max|diff| %g" % (
        cls, dt, n, len(got), nf, _md(got, want))


def grid(inp):
    import spectrum
    fn, dt = inp["fn"], inp["datatype"]
    x = _x(inp, dt, n=24)
    N = len(x)
    c = max(int(inp.get("c", 2)), 2)
    n1 = int(inp.get("NFFT", 32))
    if fn == "arma2psd":
        A = arr(inp["A"]) if isinstance(inp.get("A"), dict) and len(inp["A"].get("values", [])) else np.array([0.5, -0.2])
        B = arr(inp["B"]) if isinstance(inp.get("B"), dict) and len(inp["B"].get("values", [])) else np.array([0.3])
        n1 = max(n1, len(A) + 1, len(B) + 1)
        f = lambda n: spectrum.arma2psd(A, B, 1.3, 0.7, n)
    elif fn == "speriodogram":
        n1 = max(n1, N)
        f = lambda n: spectrum.speriodogram(x, n, detrend=False, sampling=1.0, scale_by_freq=False, window="hann")
    elif fn == "CORRELOGRAMPSD":
        lag = 5
        n1 = max(n1, 2 * lag + 1)
        f = lambda n: spectrum.CORRELOGRAMPSD(x, None, lag=lag, window="hamming", norm="unbiased", NFFT=n)
    elif fn == "minvar":
        m = 4
        n1 = max(n1, 2 * m)
        f = lambda n: spectrum.minvar(x, m, 1.0, n)[0]
    elif fn == "pmtm":
        n1 = max(n1, N)
        m_ = inp.get("method", "unity")
        xx = np.cos(0.9 * np.arange(N)) * 5 + 0.05 * x            # large dynamic range
        a1 = spectrum.pmtm(xx, 2.5, 2, NFFT=n1, method=m_)
        a2 = spectrum.pmtm(xx, 2.5, 2, NFFT=c * n1, method=m_)
        ok = close(a2[0][:, ::c], a1[0], 1e-8) and close(a1[2], a2[2], 1e-12)
        if m_ == "adapt":
            # weights agree to the convergence tolerance of the iteration: compare robustly
            r = np.median(np.abs(a2[1][::c, :] - a1[1]) / (np.abs(a1[1]) + 1e-12))
            ok = ok and r < 1e-3
        else:
            ok = ok and close(a1[1], a2[1], 1e-12)
        return ok, "pmtm(%s) on grids %d and %d" % (m_, n1, c * n1)
    elif fn == "eigen":
        P, NSIG, method = int(inp["P"]), int(inp["NSIG"]), inp["method"]
        n1 = max(n1, P + 1)
        r1 = np.asarray(spectrum.eigen(x, P, NSIG=NSIG, method=method, NFFT=n1)[0])
        r2 = np.asarray(spectrum.eigen(x, P, NSIG=NSIG, method=method, NFFT=c * n1)[0])
        h1, h2 = n1 // 2, (c * n1) // 2
        idx = [h2 + c * (i - h1) for i in range(len(r1))]
        ok = all(0 <= j < len(r2) for j in idx) and close(r2[idx], r1, 1e-6)
        return ok, "eigen on grids %d and %d" % (n1, c * n1)
    else:
        raise Skip(fn)
    r1, r2 = np.asarray(f(n1)), np.asarray(f(c * n1))
    idx = [c * i for i in range(len(r1))]
    ok = all(j < len(r2) for j in idx) and close(r2[idx], r1, 1e-7)
    return ok, "%s on grids %d and %d: max|diff| %g" % (fn, n1, c * n1, _md(r2[idx], r1) if all(j < len(r2) for j in idx) else -1)


def datamatrix(inp):
    """singular values returned by eigen() = those of the full forward-backward matrix"""
    import spectrum
    dt = inp["datatype"]
    for (N, P) in ((128, 8), (150, 20), (40, 6)):
        x = _data(dict(inp, seed=5), dt, n=N)
        got, S = spectrum.eigen(x, P, NSIG=2, method="music", NFFT=64)
        _, S2 = _pseudo(x, P, 2, "music", 8)
        if not close(S, S2, 1e-8):
            return False, "N=%d P=%d: singular values %s differ from those of the (2(N-P) x P) data matrix %s" % (
                N, P, np.round(S[:3], 4).tolist(), np.round(S2[:3], 4).tolist())
    return True, "singular values match for N-P up to 130"


def validate(inp):
    import spectrum
    x = _data(inp, inp.get("datatype", "real"), n=32)
    def outcome(**kw):
        try:
            spectrum.eigen(x, 4, NFFT=32, **kw)
            return "ok"
        except ValueError:
            return "ValueError"
        except AssertionError:
            return "AssertionError"
    exp = [(dict(NSIG=2, threshold=0.5), "ValueError"), (dict(NSIG=-1), "ValueError"), (dict(NSIG=4), "ValueError"),
           (dict(NSIG=5), "ValueError"), (dict(NSIG=0), "ok"), (dict(NSIG=3), "ok"), (dict(NSIG=1, method="capon"), "ValueError")]
    for kw, want in exp:
        got = outcome(**kw)
        if got != want:
            return False, "eigen(x, 4, %s): %s, expected %s" % (kw, got, want)
    return True, "argument validation as stated"


NATIVE = {"datamatrix": datamatrix, "validate": validate, "speriodogram": speriodogram, "speriodogram2d": speriodogram2d, "correlogram": correlogram, "minvar": minvar,
          "eigen": eigen, "place": place, "grid": grid}


def _s_generic(rng, hints):
    d = dict(hints)
    d["seed"] = rng.randint(1, 999)
    d["N"] = rng.choice([16, 20, 24, 31])
    d["NFFT"] = rng.choice([32, 33, 40, 41, 64])
    d["nfft0"] = d["NFFT"]
    d["fs0"] = rng.choice([1.0, 2.0, 0.5])
    d["sampling"] = d["fs0"]
    d["lag"] = rng.choice([3, 5, 7])
    d["order"] = rng.choice([2, 3, 5])
    d["c"] = rng.choice([2, 3])
    return d


SEARCH = {k: _s_generic for k in NATIVE}
