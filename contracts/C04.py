"""C04  Frequency-shift covariance and conjugate symmetry of two-sided spectra.

The statement relates the outputs of an estimator on transformed copies of the data.  Each transformed copy is fed to the REAL code by the
same interpreter; both runs are exact (engine E3: values are elements of Q(data symbols, ...)), so every obligation below is an identity in
the data, decided by normal form: it holds for ALL data values at the stated (small) sizes.  Everything here is therefore `bounded` in
N / order / NFFT and never counted as an unbounded proof.

 core.<estimator>.<transform>   coefficient level, modulation by an ARBITRARY angle theta (exp(i theta) is the rational point of the unit
                                circle with half-angle tangent t, so the identity holds for every theta in (-pi, pi)):
                                  x'[n] = x[n] e^{i theta n}:  r'[k] = r[k] e^{i theta k};  a'_j = a_j e^{i theta j};  k'_j = k_j e^{i theta j};  rho' = rho
                                  x' = conj(x):                r', a', k' conjugated, rho' = rho
                                  x'[n] = conj(x[N-1-n]):      r, a, k, rho unchanged (estimators invariant under time reversal)
 psd.<class>.<transform>.NFFT<n> the whole class (constructor, __call__, arma2psd / FFT, side selection) on symbolic data with an exact
                                n-point DFT (twiddle factors in Q(i, sqrt3): n in {3, 4, 6}), every shift m:
                                  psd(x e^{2 pi i m n/NFFT})[k] = psd(x)[(k-m) mod NFFT];  psd(conj x)[k] = psd(x)[-k mod NFFT];
                                  psd(conj(x[::-1])) = psd(x);  real data: one-sided = 2 * first half of the two-sided estimate of the
                                  same samples declared complex
 Multitaper (tapers from the C routine), MUSIC / EV (SVD) and ARMA / MA (long Marple recursion) classes: not reached, see META.
"""
from fractions import Fraction
from pyvc import values as V
from pyvc.values import Arr, Arr2, Cx
from pyvc.harness import Task
from .e3 import E3, e3_interp

F = Fraction
ZERO = Cx(F(0), F(0))
META = {
    "level": "other",
    "functions": ["spectrum.correlation.CORRELATION", "spectrum.yulewalker.aryule", "spectrum.burg.arburg", "spectrum.covar.arcovar",
                  "spectrum.modcovar.modcovar", "spectrum.levinson.LEVINSON", "spectrum.arma.arma2psd", "spectrum.minvar.minvar",
                  "spectrum.periodogram.speriodogram", "spectrum.correlog.CORRELOGRAMPSD",
                  "spectrum.yulewalker.pyule.__call__", "spectrum.burg.pburg.__call__", "spectrum.covar.pcovar.__call__",
                  "spectrum.modcovar.pmodcovar.__call__", "spectrum.minvar.pminvar.__call__", "spectrum.correlog.pcorrelogram.__call__",
                  "spectrum.periodogram.Periodogram.__call__", "spectrum.psd.Spectrum", "spectrum.psd.ParametricSpectrum"],
    "assumptions": ["A-REAL", "every obligation is bounded in N, order and NFFT (stated in the task name); all data values at those sizes",
                    "generic path: comparisons of data-dependent quantities inside the code (e.g. P <= 0 -> raise) take the branch that does "
                    "not raise; the identities hold wherever no divisor vanishes",
                    "A-LSQ made executable: scipy.linalg.lstsq returns the solution of the normal equations (exact elimination)",
                    "A-DFT: numpy.fft.fft(a, n)[k] = sum_j a[j] exp(-2 pi i j k/n), evaluated exactly for n in {3, 4, 6} (twiddles in Q(i, sqrt3))",
                    "modulation angle: exp(i theta) = ((1-t^2) + 2 t i)/(1+t^2) covers every theta except pi",
                    "Periodogram is run with window='rectangular' (the default Hann window needs cos(), which the exact domain does not carry; "
                    "window symmetry, which time-reversal invariance needs, is C20's subject)",
                    "not reached, not claimed: MultiTapering (tapers come from the C routine; their symmetry is C18), pev / pmusic (SVD), "
                    "pma / parma (arcovar_marple inside arma_estimate swells beyond reach at any useful size), odd NFFT other than 3, "
                    "NFFT larger than 6"],
    "trusted_base": ["sympy.polys"],
    "explanation": "Relational contracts over pairs of runs of the real code on symbolic data; each pair is compared by exact normal form. "
                   "Bounded in size, complete in the data.",
    "bounded_note": "quick: core N <= 5, p <= 2; psd N = 4, p <= 2, NFFT in {3, 4}.  thorough adds NFFT = 6, N = 5 and order 2 for every class",
}


# ------------------------------------------------------------------------------------------ transforms
def upow(u, n):
    r = Cx(F(1), F(0))
    for _ in range(n):
        r = r * u
    return r


def t_mod(u):
    return lambda x: [V.Cx.of(v) * upow(u, n) for n, v in enumerate(x)]


def t_conj(x):
    return [V.s_conj(V.Cx.of(v)) for v in x]


def t_rev(x):
    return [V.s_conj(V.Cx.of(v)) for v in reversed(x)]


def cx_arr(x):
    return Arr.from_items([V.Cx.of(v) for v in x], dtype="complex")


def syms(dom, N, cx=True):
    return [dom.csym("x%d" % j) if cx else dom.sym("x%d" % j) for j in range(N)]


def data_names(N, cx=True):
    return sum((["x%d_r" % j, "x%d_i" % j] if cx else ["x%d" % j] for j in range(N)), [])


# ------------------------------------------------------------------------------------------ coefficient level
def _lst(v):
    return v.to_list() if isinstance(v, Arr) else list(v)


EST = {
    # name: (call, names of the outputs, kinds: "seq1" coefficients a_1.. / k_1.. (index j -> factor u^(j+1)), "seq0" lags r_0.. (u^j), "inv" invariant scalar)
    "CORRELATION.biased": (lambda I, x, p: (I.call_qual("spectrum.correlation.CORRELATION", x, None, p, "biased"),), ("r",), ("seq0",)),
    "CORRELATION.unbiased": (lambda I, x, p: (I.call_qual("spectrum.correlation.CORRELATION", x, None, p, "unbiased"),), ("r",), ("seq0",)),
    "aryule": (lambda I, x, p: I.call_qual("spectrum.yulewalker.aryule", x, p), ("ar", "P", "reflection"), ("seq1", "inv", "seq1")),
    "arburg": (lambda I, x, p: I.call_qual("spectrum.burg.arburg", x, p), ("ar", "rho", "reflection"), ("seq1", "inv", "seq1")),
    "arcovar": (lambda I, x, p: I.call_qual("spectrum.covar.arcovar", x, p), ("ar", "e"), ("seq1", "inv")),
    "modcovar": (lambda I, x, p: I.call_qual("spectrum.modcovar.modcovar", x, p), ("ar", "e"), ("seq1", "inv")),
}
REV_INVARIANT = {"CORRELATION.biased", "CORRELATION.unbiased", "aryule", "arburg", "modcovar"}


def core_task(est, transform, N, p):
    call, outs, kinds = EST[est]

    def run(tc):
        names = data_names(N) + (["th", "t"] if transform == "mod" else [])
        dom, I = e3_interp(tc, names, lazy=True)
        E = E3(tc, dom, "c04core", {"est": est, "transform": transform, "N": N, "p": p}, tc.seed)
        x = syms(dom, N)
        if transform == "mod":
            dom.angle("th", "t")
            u = dom.elem("exp", Cx(F(0), dom.sym("th")))
            x2 = t_mod(u)(x)
        elif transform == "conj":
            u, x2 = None, t_conj(x)
        else:
            u, x2 = None, t_rev(x)
        base = E.run(I, lambda I_: call(I_, cx_arr(x), p))
        if base is None:
            return
        new = E.run(I, lambda I_: call(I_, cx_arr(x2), p))
        if new is None:
            return
        for nm, kind, b, n_ in zip(outs, kinds, base, new):
            if kind == "inv":
                E.eq("%s:invariant" % nm, n_, b)
                continue
            bl, nl = _lst(b), _lst(n_)
            if len(bl) != len(nl):
                E.ok("%s:same-length" % nm, False, "%d vs %d" % (len(nl), len(bl)))
                continue
            off = 1 if kind == "seq1" else 0
            if transform == "mod":
                want = [V.Cx.of(v) * upow(u, j + off) for j, v in enumerate(bl)]
                E.eq("%s[j]:multiplied-by-exp(i*theta*j)" % nm, [V.Cx.of(v) for v in nl], want)
            elif transform == "conj":
                E.eq("%s:conjugated" % nm, [V.Cx.of(v) for v in nl], [V.s_conj(V.Cx.of(v)) for v in bl])
            else:
                E.eq("%s:unchanged" % nm, [V.Cx.of(v) for v in nl], [V.Cx.of(v) for v in bl])
    return Task("core.%s.%s.N%d.p%d" % (est, transform, N, p), run, kind="bounded", prerun=True, timeout=120,
                functions=["spectrum." + {"CORRELATION.biased": "correlation.CORRELATION", "CORRELATION.unbiased": "correlation.CORRELATION",
                                          "aryule": "yulewalker.aryule", "arburg": "burg.arburg", "arcovar": "covar.arcovar",
                                          "modcovar": "modcovar.modcovar"}[est]])


# ------------------------------------------------------------------------------------------ PSD level (classes)
CLS = {
    "pyule": ("spectrum.yulewalker.pyule", lambda p: [p], {}),
    "pburg": ("spectrum.burg.pburg", lambda p: [p], {}),
    "pcovar": ("spectrum.covar.pcovar", lambda p: [p], {}),
    "pmodcovar": ("spectrum.modcovar.pmodcovar", lambda p: [p], {}),
    "pminvar": ("spectrum.minvar.pminvar", lambda p: [p], {}),
    "pcorrelogram": ("spectrum.correlog.pcorrelogram", lambda p: [p], {"window": "rectangular"}),
    "Periodogram": ("spectrum.periodogram.Periodogram", lambda p: [], {"window": "rectangular"}),
}
CLS_REV_INVARIANT = {"pyule", "pburg", "pmodcovar", "pminvar", "pcorrelogram", "Periodogram"}
CLS_ONESIDED_TWICE = {"pyule", "pburg", "pcovar", "pmodcovar", "pminvar"}      # the classes the statement names for the real-data clause


def run_class(E, I, cname, data, p, NFFT):
    q, pos, kw = CLS[cname]

    def thunk(I_):
        o = I_.call(I_.class_ref(q), [data] + pos(p), dict(kw, NFFT=NFFT))
        I_.call(o, [], {})
        return I_.getattr(o, "psd")
    v = E.run(I, thunk)
    return None if v is None else _lst(v)


def psd_task(cname, transform, N, p, NFFT):
    def run(tc):
        cx = transform != "real"
        names = data_names(N, cx) + (["sqrt3"] if NFFT in (3, 6, 12) else [])
        dom, I = e3_interp(tc, names, lazy=True)
        E = E3(tc, dom, "c04psd", {"cls": cname, "transform": transform, "N": N, "p": p, "NFFT": NFFT}, tc.seed)
        x = syms(dom, N, cx)
        if transform == "real":
            one = run_class(E, I, cname, Arr.from_items(list(x), dtype="float"), p, NFFT)
            two = run_class(E, I, cname, cx_arr(x), p, NFFT)
            if one is None or two is None:
                return
            E.ok("real:one-sided-length", len(one) == NFFT // 2 + 1 if NFFT % 2 == 0 else len(one) == (NFFT + 1) // 2, "length %d" % len(one))
            E.ok("complex-declared:two-sided-length", len(two) == NFFT, "length %d" % len(two))
            if len(one) <= len(two):
                E.eq("one-sided=2*first-half-of-two-sided", one, [2 * v for v in two[:len(one)]])
            return
        base = run_class(E, I, cname, cx_arr(x), p, NFFT)
        if base is None:
            return
        E.ok("two-sided-length=NFFT", len(base) == NFFT, "length %d" % len(base))
        if len(base) != NFFT:
            return
        if transform == "mod":
            for m in range(1, NFFT):
                new = run_class(E, I, cname, cx_arr(t_mod(dom.cis(m, NFFT))(x)), p, NFFT)
                if new is None:
                    return
                E.eq("shift-by-%d-bins:psd'[k]=psd[(k-%d) mod NFFT]" % (m, m), new, [base[(k - m) % NFFT] for k in range(NFFT)])
        elif transform == "conj":
            new = run_class(E, I, cname, cx_arr(t_conj(x)), p, NFFT)
            if new is not None:
                E.eq("conjugate-data:psd'[k]=psd[-k mod NFFT]", new, [base[(-k) % NFFT] for k in range(NFFT)])
        else:
            new = run_class(E, I, cname, cx_arr(t_rev(x)), p, NFFT)
            if new is not None:
                E.eq("conjugated-time-reversed-data:same-spectrum", new, base)
    return Task("psd.%s.%s.N%d.p%d.NFFT%d" % (cname, transform, N, p, NFFT), run, kind="bounded", prerun=True, timeout=150,
                functions=[CLS[cname][0] + ".__call__"])


def tasks(tier):
    ts = []
    th = tier == "thorough"
    for est in EST:
        for tr in ("mod", "conj", "rev"):
            if tr == "rev" and est not in REV_INVARIANT:
                continue
            for (N, p) in ([(4, 1), (5, 2)] if not th else [(4, 1), (5, 2), (6, 2)]):
                ts.append(core_task(est, tr, N, p))
    for cname in CLS:
        for NFFT in ((3, 4) if not th else (3, 4, 6)):
            for p in ((1,) if not th else (1, 2)):
                if cname == "Periodogram" and p != 1:
                    continue
                for tr in ("mod", "conj", "rev", "real"):
                    if tr == "rev" and cname not in CLS_REV_INVARIANT:
                        continue
                    if tr == "real" and cname not in CLS_ONESIDED_TWICE:
                        continue
                    ts.append(psd_task(cname, tr, 4, p, NFFT))
    return ts
