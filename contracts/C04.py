"""C04  Frequency-shift covariance and conjugate symmetry of two-sided spectra.

The statement relates the outputs of an estimator on transformed copies of the data.  Each transformed copy is fed to the REAL code by the
same interpreter; both runs are exact (engine E3: values are elements of Q(data symbols, ...)), so every obligation below is an identity in
the data, decided by normal form: it holds for ALL data values at the stated (small) sizes.  Everything here is therefore `bounded` in
N / order / NFFT and never counted as an unbounded proof.

 core.<estimator>.<transform>   coefficient level, modulation by an ARBITRARY angle theta (exp(i theta) is the rational point of the unit
                                circle with half-angle tangent t, so the identity holds for every theta in (-pi, pi)):
                                  x'[n] = x[n] e^{i theta n}:  r'[k] = r[k] e^{i theta k};  a'_j = a_j e^{i theta j};  k'_j = k_j e^{i theta j};  rho' = rho
                                  x' = conj(x):                r', a', k' conjugated, rho' = rho
                                  x'[n] = conj(x[N-1-n]):      r, a, k, rho unchanged (estimators invariant under time reversal)
 psd.<class>.<transform>.NFFT<n> the whole class (constructor, __call__, arma2psd / FFT, side selection) on symbolic data with an exact
                                n-point DFT (twiddle factors in Q(i, sqrt3): n in {3, 4, 6}), every shift m:
                                  psd(x e^{2 pi i m n/NFFT})[k] = psd(x)[(k-m) mod NFFT];  psd(conj x)[k] = psd(x)[-k mod NFFT];
                                  psd(conj(x[::-1])) = psd(x);  real data: one-sided = 2 * first half of the two-sided estimate of the
                                  same samples declared complex
 mtm.<method>.<transform>.NFFT<n>  MultiTapering / pmtm ('eigen', 'unity') end to end with user-supplied SYMBOLIC real tapers and eigenvalues (the e=, v=
                                arguments of the real API): shift, mirror and the real-data clause for ANY real tapers; time reversal for tapers with the
                                Slepian symmetry (assumed: C18's statement)
 MUSIC / EV (SVD), ARMA / MA (long Marple recursion) classes and the adaptive multitaper method (iterative): not reached, see META.
"""
from fractions import Fraction
from pyvc import values as V
from pyvc.values import Arr, Arr2, Cx
from pyvc.harness import Task
from .e3 import E3, e3_interp

F = Fraction
ZERO = Cx(F(0), F(0))
META = {
    "level": "other",
    "functions": ["spectrum.correlation.CORRELATION", "spectrum.yulewalker.aryule", "spectrum.burg.arburg", "spectrum.covar.arcovar",
                  "spectrum.modcovar.modcovar", "spectrum.levinson.LEVINSON", "spectrum.arma.arma2psd", "spectrum.minvar.minvar",
                  "spectrum.periodogram.speriodogram", "spectrum.correlog.CORRELOGRAMPSD",
                  "spectrum.yulewalker.pyule.__call__", "spectrum.burg.pburg.__call__", "spectrum.covar.pcovar.__call__",
                  "spectrum.modcovar.pmodcovar.__call__", "spectrum.minvar.pminvar.__call__", "spectrum.correlog.pcorrelogram.__call__",
                  "spectrum.periodogram.Periodogram.__call__", "spectrum.mtm.MultiTapering.__call__", "spectrum.mtm.pmtm",
                  "spectrum.psd.Spectrum", "spectrum.psd.ParametricSpectrum"],
    "assumptions": ["A-REAL", "every obligation is bounded in N, order and NFFT (stated in the task name); all data values at those sizes",
                    "generic path: comparisons of data-dependent quantities inside the code (e.g. P <= 0 -> raise) take the branch that does "
                    "not raise; the identities hold wherever no divisor vanishes",
                    "A-LSQ made executable: scipy.linalg.lstsq returns the solution of the normal equations (exact elimination)",
                    "A-DFT: numpy.fft.fft(a, n)[k] = sum_j a[j] exp(-2 pi i j k/n), evaluated exactly for n in {3, 4, 6} (twiddles in Q(i, sqrt3))",
                    "modulation angle: exp(i theta) = ((1-t^2) + 2 t i)/(1+t^2) covers every theta except pi",
                    "Periodogram is run with window='rectangular' (the default Hann window needs cos(), which the exact domain does not carry; "
                    "window symmetry, which time-reversal invariance needs, is C20's subject)",
                    "MultiTapering is run with symbolic tapers passed through its e= / v= arguments (methods 'eigen' and 'unity'); for time reversal the tapers "
                    "carry the symmetry C18 states (even symmetric, odd antisymmetric) as an assumption; the tapers actually produced by the C routine are C18's subject",
                    "not reached, not claimed: MultiTapering method 'adapt' (iterative weights), pev / pmusic (SVD), "
                    "pma / parma (arcovar_marple inside arma_estimate swells beyond reach at any useful size), odd NFFT other than 3, "
                    "NFFT larger than 6"],
    "trusted_base": ["sympy.polys"],
    "explanation": "Relational contracts over pairs of runs of the real code on symbolic data; each pair is compared by exact normal form. "
                   "Bounded in size, complete in the data.",
    "bounded_note": "quick: core N = 4, order 1; class glue order 2, NFFT in {3, 4, 6}.  thorough: core N = 5 for CORRELATION / arcovar / modcovar; glue orders 2, 3, NFFT in {3, 4, 6, 8, 12}",
}


# ------------------------------------------------------------------------------------------ transforms
def upow(u, n):
    r = Cx(F(1), F(0))
    for _ in range(n):
        r = r * u
    return r


def t_mod(u):
    return lambda x: [V.Cx.of(v) * upow(u, n) for n, v in enumerate(x)]


def t_conj(x):
    return [V.s_conj(V.Cx.of(v)) for v in x]


def t_rev(x):
    return [V.s_conj(V.Cx.of(v)) for v in reversed(x)]


def cx_arr(x):
    return Arr.from_items([V.Cx.of(v) for v in x], dtype="complex")


def syms(dom, N, cx=True):
    return [dom.csym("x%d" % j) if cx else dom.sym("x%d" % j) for j in range(N)]


def data_names(N, cx=True):
    return sum((["x%d_r" % j, "x%d_i" % j] if cx else ["x%d" % j] for j in range(N)), [])


# ------------------------------------------------------------------------------------------ coefficient level
def _lst(v):
    return v.to_list() if isinstance(v, Arr) else list(v)


EST = {
    # name: (call, names of the outputs, kinds: "seq1" coefficients a_1.. / k_1.. (index j -> factor u^(j+1)), "seq0" lags r_0.. (u^j), "inv" invariant scalar)
    "CORRELATION.biased": (lambda I, x, p: (I.call_qual("spectrum.correlation.CORRELATION", x, None, p, "biased"),), ("r",), ("seq0",)),
    "CORRELATION.unbiased": (lambda I, x, p: (I.call_qual("spectrum.correlation.CORRELATION", x, None, p, "unbiased"),), ("r",), ("seq0",)),
    "CORRELATION.coeff": (lambda I, x, p: (I.call_qual("spectrum.correlation.CORRELATION", x, None, p, "coeff"),), ("r",), ("seq0",)),
    "aryule": (lambda I, x, p: I.call_qual("spectrum.yulewalker.aryule", x, p), ("ar", "P", "reflection"), ("seq1", "inv", "seq1")),
    "arburg": (lambda I, x, p: I.call_qual("spectrum.burg.arburg", x, p), ("ar", "rho", "reflection"), ("seq1", "inv", "seq1")),
    "arcovar": (lambda I, x, p: I.call_qual("spectrum.covar.arcovar", x, p), ("ar", "e"), ("seq1", "inv")),
    "modcovar": (lambda I, x, p: I.call_qual("spectrum.modcovar.modcovar", x, p), ("ar", "e"), ("seq1", "inv")),
}
REV_INVARIANT = {"CORRELATION.biased", "CORRELATION.unbiased", "CORRELATION.coeff", "aryule", "arburg", "modcovar"}


def core_task(est, transform, N, p):
    call, outs, kinds = EST[est]

    def run(tc):
        names = data_names(N) + (["th", "t"] if transform == "mod" else [])
        dom, I = e3_interp(tc, names)
        E = E3(tc, dom, "c04core", {"est": est, "transform": transform, "N": N, "p": p}, tc.seed)
        x = syms(dom, N)
        if transform == "mod":
            dom.angle("th", "t")
            u = dom.elem("exp", Cx(F(0), dom.sym("th")))
            x2 = t_mod(u)(x)
        elif transform == "conj":
            u, x2 = None, t_conj(x)
        elif transform == "declared":
            u, x2 = None, None
        else:
            u, x2 = None, t_rev(x)
        if transform == "declared":
            # the same real samples, once as a float array and once declared complex (zero imaginary parts)
            xr = [dom.sym("x%d_r" % j) for j in range(N)]
            base = E.run(I, lambda I_: call(I_, Arr.from_items(list(xr), dtype="float"), p))
            new = None if base is None else E.run(I, lambda I_: call(I_, cx_arr(xr), p))
            if base is None or new is None:
                return
            for nm, b, n_ in zip(outs, base, new):
                bl = _lst(b) if isinstance(b, (Arr, list, tuple)) else [b]
                nl = _lst(n_) if isinstance(n_, (Arr, list, tuple)) else [n_]
                E.eq("%s:same-for-real-samples-declared-complex" % nm, [V.Cx.of(v) for v in nl], [V.Cx.of(v) for v in bl])
            return
        base = E.run(I, lambda I_: call(I_, cx_arr(x), p))
        if base is None:
            return
        new = E.run(I, lambda I_: call(I_, cx_arr(x2), p))
        if new is None:
            return
        for nm, kind, b, n_ in zip(outs, kinds, base, new):
            if kind == "inv":
                E.eq("%s:invariant" % nm, n_, b)
                continue
            bl, nl = _lst(b), _lst(n_)
            if len(bl) != len(nl):
                E.ok("%s:same-length" % nm, False, "%d vs %d" % (len(nl), len(bl)))
                continue
            off = 1 if kind == "seq1" else 0
            if transform == "mod":
                want = [V.Cx.of(v) * upow(u, j + off) for j, v in enumerate(bl)]
                E.eq("%s[j]:multiplied-by-exp(i*theta*j)" % nm, [V.Cx.of(v) for v in nl], want)
            elif transform == "conj":
                E.eq("%s:conjugated" % nm, [V.Cx.of(v) for v in nl], [V.s_conj(V.Cx.of(v)) for v in bl])
            else:
                E.eq("%s:unchanged" % nm, [V.Cx.of(v) for v in nl], [V.Cx.of(v) for v in bl])
    return Task("core.%s.%s.N%d.p%d" % (est, transform, N, p), run, kind="bounded", prerun=True, timeout=120,
                functions=["spectrum." + {"CORRELATION.biased": "correlation.CORRELATION", "CORRELATION.unbiased": "correlation.CORRELATION",
                                          "CORRELATION.coeff": "correlation.CORRELATION",
                                          "aryule": "yulewalker.aryule", "arburg": "burg.arburg", "arcovar": "covar.arcovar",
                                          "modcovar": "modcovar.modcovar"}[est]])


# ------------------------------------------------------------------------------------------ PSD level (classes)
# Modular: the class is checked against the CONTRACT of the estimator it calls, not its body.  The estimator is replaced by a stub that
#   (1) checks it is handed the object's own data and order, unchanged, and
#   (2) returns free symbols -- transformed, for the second run, exactly as core.<estimator>.<transform> proves the real estimator's
#       outputs transform (a_j -> a_j U^j etc.).
# What remains is the class glue (constructor, __call__, arma2psd / minvar / CORRELOGRAMPSD, FFT placement, side selection), run on the
# real code with an exact NFFT-point DFT.
AR_EST = {          # class -> (class qualname, estimator qualname, number of outputs: (ar, scalar[, reflection]))
    "pyule": ("spectrum.yulewalker.pyule", "spectrum.yulewalker.aryule", 3, "aryule"),
    "pburg": ("spectrum.burg.pburg", "spectrum.burg.arburg", 3, "arburg"),
    "pcovar": ("spectrum.covar.pcovar", "spectrum.covar.arcovar", 2, "arcovar"),
    "pmodcovar": ("spectrum.modcovar.pmodcovar", "spectrum.modcovar.modcovar", 2, "modcovar"),
    "pminvar": ("spectrum.minvar.pminvar", "spectrum.burg.arburg", 3, "arburg"),
}
GLUE = list(AR_EST) + ["pcorrelogram", "Periodogram"]
CLS_REV_INVARIANT = {"pyule", "pburg", "pmodcovar", "pminvar", "pcorrelogram", "Periodogram"}
CLS_ONESIDED_TWICE = {"pyule", "pburg", "pcovar", "pmodcovar", "pminvar"}      # the classes the statement names for the real-data clause


def sqrt_names(NFFT):
    return (["sqrt3"] if NFFT in (3, 6, 12) else []) + (["sqrt2"] if NFFT == 8 else [])


def glue_task(cname, transform, p, NFFT, N=4):
    """transform in mod / conj / rev / real"""
    if cname == "Periodogram":
        # fft(x, NFFT) with NFFT < N truncates the data; truncation does not commute with time reversal, and a periodogram that
        # discards samples is outside the statement (its spectrum is that of the first NFFT samples): N <= NFFT
        N = min(N, NFFT)

    def run(tc):
        cx = transform != "real"
        pe = p - 1 if cname == "pminvar" else p          # minvar(X, order) uses the Burg model of order - 1
        names = data_names(N, cx) + sqrt_names(NFFT) + ["s", "pi"]      # pi: an indeterminate (the 2*pi/df scale factor is common to both runs)
        if cname in AR_EST:
            names += sum((["a%d_r" % j, "a%d_i" % j, "k%d_r" % j, "k%d_i" % j] if cx else ["a%d" % j, "k%d" % j] for j in range(pe)), [])
        elif cname == "pcorrelogram":
            names += ["r0"] + sum((["r%d_r" % j, "r%d_i" % j] if cx else ["r%d" % j] for j in range(1, p + 1)), [])
        hints = {"cls": cname, "transform": transform, "N": N, "p": p, "NFFT": NFFT}
        state = {"want": None, "how": None, "calls": 0, "bad": None}

        def same(a, b):
            al, bl = _lst(a), list(b)
            return len(al) == len(bl) and all(dom.equal(V.Cx.of(u), V.Cx.of(w)) for u, w in zip(al, bl))

        def out_seq(base, off, how):
            if how is None:
                return list(base)
            kind, U = how
            if kind == "mod":
                return [V.Cx.of(v) * upow(U, j + off) for j, v in enumerate(base)]
            if kind == "conj":
                return [V.s_conj(V.Cx.of(v)) for v in base]
            return list(base)       # rev / declared: unchanged

        def arr(vals, force_cx):
            if force_cx or any(isinstance(v, Cx) for v in vals):
                return Arr.from_items([V.Cx.of(v) for v in vals], dtype="complex")
            return Arr.from_items(list(vals), dtype="float")

        def est_stub(I_, X, order, *rest, **kw):
            state["calls"] += 1
            if not same(X, state["want"]):
                state["bad"] = "the estimator is not handed the object's data unchanged"
            if not (V.is_conc(order) and int(order) == pe):
                state["bad"] = "the estimator is called with order %r, expected %d" % (order, pe)
            how = state["how"]
            a = [dom.csym("a%d" % j) if cx else dom.sym("a%d" % j) for j in range(pe)]
            k = [dom.csym("k%d" % j) if cx else dom.sym("k%d" % j) for j in range(pe)]
            fc = state["force_cx"]
            outs = (arr(out_seq(a, 1, how), fc), dom.sym("s"), arr(out_seq(k, 1, how), fc))
            return outs[:AR_EST[cname][2]]

        def xcorr_stub(I_, X, Y=None, maxlags=None, norm="biased", **kw):
            state["calls"] += 1
            if not same(X, state["want"]) or (Y is not None and not same(Y, state["want"])):
                state["bad"] = "xcorr is not handed the object's data unchanged"
            if not (V.is_conc(maxlags) and int(maxlags) == p):
                state["bad"] = "xcorr is called with maxlags %r, expected %d" % (maxlags, p)
            how = state["how"]
            r = [dom.sym("r0")] + [dom.csym("r%d" % j) if cx else dom.sym("r%d" % j) for j in range(1, p + 1)]
            r = out_seq(r, 0, how)
            two = [V.s_conj(V.Cx.of(v)) for v in reversed(r[1:])] + [V.Cx.of(v) for v in r]       # lags -p..p, r[-k] = conj(r[k])
            fc = state["force_cx"]
            lags = Arr.from_items([Fraction(j) for j in range(-p, p + 1)], dtype="int")
            return (arr(two if (cx or fc) else [v.re for v in two], fc), lags)

        stubs = {}
        if cname in AR_EST:
            stubs[AR_EST[cname][1]] = est_stub
        elif cname == "pcorrelogram":
            stubs["spectrum.correlation.xcorr"] = xcorr_stub
        dom, I = e3_interp(tc, names, stubs=stubs)
        E = E3(tc, dom, "c04psd", hints, tc.seed)
        x = syms(dom, N, cx)

        def go(data_list, how, declared_complex=False):
            state["want"], state["how"], state["bad"] = data_list, how, None
            state["force_cx"] = declared_complex
            q = AR_EST[cname][0] if cname in AR_EST else {"pcorrelogram": "spectrum.correlog.pcorrelogram", "Periodogram": "spectrum.periodogram.Periodogram"}[cname]
            pos = [] if cname in ("Periodogram", "pcorrelogram") else [p]
            kw = {"NFFT": NFFT}
            if cname in ("pcorrelogram", "Periodogram"):
                kw["window"] = "rectangular"
            if cname == "pcorrelogram":
                kw["lag"] = p
            data = arr(data_list, cx or declared_complex) if (cx or declared_complex) else Arr.from_items(list(data_list), dtype="float")

            def thunk(I_):
                o = I_.call(I_.class_ref(q), [data] + pos, kw)
                I_.call(o, [], {})
                return I_.getattr(o, "psd")
            before = state["calls"]
            v = E.run(I, thunk)
            if v is None:
                return None
            if cname != "Periodogram":
                E.ok("calls-the-estimator-once-with-its-own-data-and-order", state["calls"] == before + 1 and state["bad"] is None,
                     state["bad"] or "%d calls" % (state["calls"] - before))
            return _lst(v)

        if transform == "real":
            one = go(list(x), None)
            two = go([V.Cx.of(v) for v in x], ("declared", None), declared_complex=True)
            if one is None or two is None:
                return
            E.ok("real:one-sided-length", len(one) == (NFFT // 2 + 1 if NFFT % 2 == 0 else (NFFT + 1) // 2), "length %d" % len(one))
            E.ok("complex-declared:two-sided-length", len(two) == NFFT, "length %d" % len(two))
            if len(one) <= len(two):
                E.eq("one-sided=2*first-half-of-two-sided", one, [2 * v for v in two[:len(one)]])
            return
        base = go([V.Cx.of(v) for v in x], None)
        if base is None:
            return
        E.ok("two-sided-length=NFFT", len(base) == NFFT, "length %d" % len(base))
        if len(base) != NFFT:
            return
        if transform == "mod":
            for m in range(1, NFFT):
                U = dom.cis(m, NFFT)
                new = go(t_mod(U)(x), ("mod", U))
                if new is None:
                    return
                E.eq("shift-by-%d-bins:psd'[k]=psd[(k-%d) mod NFFT]" % (m, m), new, [base[(k - m) % NFFT] for k in range(NFFT)])
        elif transform == "conj":
            new = go(t_conj(x), ("conj", None))
            if new is not None:
                E.eq("conjugate-data:psd'[k]=psd[-k mod NFFT]", new, [base[(-k) % NFFT] for k in range(NFFT)])
        else:
            new = go(t_rev(x), ("rev", None))
            if new is not None:
                E.eq("conjugated-time-reversed-data:same-spectrum", new, base)
    q = AR_EST[cname][0] if cname in AR_EST else {"pcorrelogram": "spectrum.correlog.pcorrelogram", "Periodogram": "spectrum.periodogram.Periodogram"}[cname]
    return Task("glue.%s.%s.p%d.NFFT%d" % (cname, transform, p, NFFT), run, kind="bounded", prerun=True, timeout=150, functions=[q + ".__call__"])


def mtm_task(transform, method, NFFT, k=2):
    """MultiTapering / pmtm with user-supplied (symbolic) real tapers and eigenvalues: no estimator stub, the real code end to end.
    mod / conj / real hold for ANY real tapers; rev needs the Slepian symmetry (even tapers symmetric, odd ones antisymmetric:
    C18's statement, assumed here)"""
    N = min(4, NFFT)

    def run(tc):
        cx = transform != "real"
        half = (N + 1) // 2
        if transform == "rev":
            tn = ["v%d_%d" % (n, j) for j in range(k) for n in range(half)]
        else:
            tn = ["v%d_%d" % (n, j) for j in range(k) for n in range(N)]
        names = data_names(N, cx) + sqrt_names(NFFT) + ["pi"] + tn + ["e%d" % j for j in range(k)]
        dom, I = e3_interp(tc, names)
        E = E3(tc, dom, "c04mtm", {"transform": transform, "method": method, "NFFT": NFFT, "k": k, "N": N}, tc.seed)
        x = syms(dom, N, cx)

        def taper(n, j):
            if transform != "rev":
                return dom.sym("v%d_%d" % (n, j))
            m = min(n, N - 1 - n)
            if j % 2 == 1 and N % 2 == 1 and n == N // 2:
                return Fraction(0)          # an antisymmetric taper vanishes at the centre sample
            v = dom.sym("v%d_%d" % (m, j))
            return v if (j % 2 == 0 or n < N - 1 - n) else -v
        vv = Arr2(N, k, rows=[[taper(n, j) for j in range(k)] for n in range(N)], dtype="float")
        ee = Arr.from_items([dom.sym("e%d" % j) for j in range(k)], dtype="float")

        def go(data_list, declared_complex=False):
            data = cx_arr(data_list) if (cx or declared_complex) else Arr.from_items(list(data_list), dtype="float")

            def thunk(I_):
                o = I_.call(I_.class_ref("spectrum.mtm.MultiTapering"), [data], {"NFFT": NFFT, "e": ee, "v": vv, "method": method})
                I_.call(o, [], {})
                return I_.getattr(o, "psd")
            v = E.run(I, thunk)
            return None if v is None else _lst(v)

        if transform == "real":
            one, two = go(list(x)), go([V.Cx.of(v) for v in x], declared_complex=True)
            if one is None or two is None:
                return
            E.ok("real:one-sided-length", len(one) == (NFFT // 2 + 1 if NFFT % 2 == 0 else (NFFT + 1) // 2), "length %d" % len(one))
            E.ok("complex-declared:two-sided-length", len(two) == NFFT, "length %d" % len(two))
            if len(one) <= len(two):
                E.eq("one-sided=2*first-half-of-two-sided", one, [2 * v for v in two[:len(one)]])
            return
        base = go([V.Cx.of(v) for v in x])
        if base is None:
            return
        E.ok("two-sided-length=NFFT", len(base) == NFFT, "length %d" % len(base))
        if len(base) != NFFT:
            return
        if transform == "mod":
            for m in range(1, NFFT):
                new = go(t_mod(dom.cis(m, NFFT))(x))
                if new is None:
                    return
                E.eq("shift-by-%d-bins:psd'[k]=psd[(k-%d) mod NFFT]" % (m, m), new, [base[(kk - m) % NFFT] for kk in range(NFFT)])
        elif transform == "conj":
            new = go(t_conj(x))
            if new is not None:
                E.eq("conjugate-data:psd'[k]=psd[-k mod NFFT]", new, [base[(-kk) % NFFT] for kk in range(NFFT)])
        else:
            new = go(t_rev(x))
            if new is not None:
                E.eq("conjugated-time-reversed-data:same-spectrum", new, base)
    return Task("mtm.%s.%s.NFFT%d" % (method, transform, NFFT), run, kind="bounded", prerun=True, timeout=150,
                functions=["spectrum.mtm.MultiTapering.__call__", "spectrum.mtm.pmtm"])


def tasks(tier):
    ts = []
    th = tier == "thorough"
    for method in ("eigen", "unity"):
        for NFFT in ((3, 4) if not th else (3, 4, 6, 8)):
            for tr in ("mod", "conj", "rev", "real"):
                ts.append(mtm_task(tr, method, NFFT))
    for est in EST:
        for tr in ("mod", "conj", "rev", "declared"):
            if tr == "rev" and est not in REV_INVARIANT:
                continue
            for (N, p) in CORE_SIZES[tier]:
                if N >= 5 and est in ("aryule", "arburg"):
                    continue        # 250-360 s each in Q(10 data symbols + angle): not attempted (no result within the pool time-out on a loaded machine)
                ts.append(core_task(est, tr, N, p))
    for cname in GLUE:
        for NFFT in ((3, 4, 6) if not th else (3, 4, 6, 8, 12)):
            for p in ((2,) if not th else (2, 3)):
                if cname == "Periodogram" and p != 2:
                    continue
                if cname != "Periodogram" and p >= NFFT:
                    continue        # outside the domain: arma2psd cannot hold p+1 coefficients in an NFFT-point buffer (IndexError)
                for tr in ("mod", "conj", "rev", "real"):
                    if tr == "rev" and cname not in CLS_REV_INVARIANT:
                        continue
                    if tr == "real" and cname not in CLS_ONESIDED_TWICE:
                        continue
                    ts.append(glue_task(cname, tr, p, NFFT))
    return ts


CORE_SIZES = {"quick": [(4, 1)], "thorough": [(4, 1), (5, 1)]}
