"""native oracles for C11 replays"""
import numpy as np
from fractions import Fraction
from .native_common import Skip, close
from .C10_native import ac_from_rc, _rc


def lp(inp):
    import spectrum.linear_prediction as L
    from spectrum.levinson import levup, levdown
    p, cx = int(inp["p"]), bool(inp.get("complex"))
    rng = np.random.RandomState(11)
    r0, ks = _rc(inp, p, cx, rng)
    ks = np.array(ks)
    for j in inp.get("realidx") or []:
        ks[int(j)] = ks[int(j)].real          # a real-VALUED coefficient inside a complex-typed set
    r, a, P = ac_from_rc(r0, list(ks))
    poly = np.concatenate(([1.0], a))
    tol = 1e-8
    A, e = L.rc2poly(ks, r0)
    if not (close(A, poly, tol) and abs(e - P) < tol * max(1, abs(P))):
        return False, "rc2poly(k, r0) != ([1, stepup(k)], r0*prod(1-|k|^2)): %s vs %s, %s vs %s" % (np.round(A, 4), np.round(poly, 4), e, P)
    if not close(L.poly2rc(poly, P), ks, tol):
        return False, "poly2rc(rc2poly(k)) != k: %s vs %s" % (np.round(L.poly2rc(poly, P), 4), np.round(ks, 4))
    if not close(L.rc2ac(ks, r0), r, tol):
        return False, "rc2ac(k, r0) != ac(r0, k): %s vs %s" % (np.round(L.rc2ac(ks, r0), 4), np.round(r, 4))
    A2, e2 = L.ac2poly(np.array(r, dtype=complex if cx else float))
    if not (close(A2, poly, tol) and abs(e2 - P) < tol * max(1, abs(P))):
        return False, "ac2poly(ac) != rc2poly(k, r0)"
    k2, r02 = L.ac2rc(np.array(r, dtype=complex if cx else float))
    if not (close(k2, ks, tol) and abs(r02 - r0) < tol):
        return False, "ac2rc(ac) != (k, r0)"
    if not close(L.poly2ac(poly, P), r, tol):
        return False, "poly2ac(rc2poly(k, r0)) != rc2ac(k, r0): %s vs %s" % (np.round(L.poly2ac(poly, P), 4), np.round(r, 4))
    if p >= 2:
        r_, a_prev, P_prev = ac_from_rc(r0, list(ks[:-1]))
        prev = np.concatenate(([1.0], a_prev))
        up, eup = levup(prev, ks[-1], P_prev)
        if not close(up, poly, tol):
            return False, "levup(a_{p-1}, k_p) != a_p"
        down, edown = levdown(poly, P)
        if not close(down, prev, tol):
            return False, "levdown(levup(a, k)) != a"
    return True, "all conversions consistent at order %d" % p


def scalar(inp):
    import spectrum.linear_prediction as L
    k = np.array([-0.9, -0.3, 0.0, 0.4, 0.95])
    g = np.array([-3.0, -0.5, 0.0, 1.2, 4.0])
    s = np.array([-0.99, -0.2, 0.0, 0.6, 0.9])
    ok = close(L.lar2rc(L.rc2lar(k)), k, 1e-12) and close(L.rc2lar(L.lar2rc(g)), g, 1e-9) and \
        close(L.is2rc(L.rc2is(k)), k, 1e-12) and close(L.rc2is(L.is2rc(s)), s, 1e-12)
    for f in (L.rc2lar, L.rc2is):
        for bad in ([0.2, 1.0], [-1.5, 0.1]):
            try:
                f(np.array(bad))
                return False, "%s(%s) accepted" % (f.__name__, bad)
            except ValueError:
                pass
    return ok, "scalar bijections"


def lsf(inp):
    """polynomial <-> line spectral frequencies on the real functions: defining roots, round trip, ordering"""
    import math
    import spectrum.linear_prediction as L
    p0 = int(inp.get("p", 4))
    pt = inp.get("point") or {}
    for p in sorted({p0, 2, 3, 4, 7}):
        if p == p0 and pt and all(("t%d" % j) in pt for j in range(p)):
            from fractions import Fraction
            w = np.array(sorted(abs(2 * math.atan(float(Fraction(pt["t%d" % j])))) for j in range(p)))
            if np.min(np.diff(np.concatenate(([0.0], w, [math.pi])))) < 1e-3:
                w = np.linspace(0.2, 2.9, p) + 0.03 * np.cos(np.arange(p))
        else:
            w = np.linspace(0.2, 2.9, p) + 0.03 * np.cos(np.arange(p))
        a = np.asarray(L.lsf2poly(w))
        if a.shape != (p + 1,) or abs(a[0] - 1) > 1e-12 or np.max(np.abs(np.imag(a))) > 1e-12:
            return False, "lsf2poly(order %d): not a real monic polynomial of degree p: %r" % (p, a)
        a = np.real(a)
        a1 = np.concatenate((a, [0.0]))
        summ, diff = a1 + a1[::-1], a1 - a1[::-1]
        for j, wj in enumerate(w):
            val = np.polyval(summ if j % 2 == 0 else diff, np.exp(1j * wj))
            if abs(val) > 1e-8 * (1 + np.sum(np.abs(a))):
                return False, "lsf2poly(order %d, w = %s): %s filter does not vanish at exp(i*w[%d]) (|value| = %.3g)" % (
                    p, np.round(w, 4), "sum" if j % 2 == 0 else "difference", j, abs(val))
        if np.max(np.abs(np.roots(a))) < 1:
            back = np.asarray(L.poly2lsf(a))
            if back.shape != w.shape or not close(back, w, 1e-7):
                return False, "poly2lsf(lsf2poly(w)) != w at order %d: %s vs %s" % (p, np.round(back, 5), np.round(w, 5))
            if not (np.all(np.diff(back) > 0) and back[0] > 0 and back[-1] < math.pi):
                return False, "poly2lsf: frequencies not strictly increasing inside (0, pi) at order %d" % p
    return True, "lsf2poly / poly2lsf consistent with the sum / difference filter definition"


NATIVE = {"lp": lp, "scalar": scalar, "lsf": lsf}
SEARCH = {k: (lambda rng, h: dict(h)) for k in NATIVE}
