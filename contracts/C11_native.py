"""native oracles for C11 replays"""
import numpy as np
from fractions import Fraction
from .native_common import Skip, close
from .C10_native import ac_from_rc, _rc


def lp(inp):
    import spectrum.linear_prediction as L
    from spectrum.levinson import levup, levdown
    p, cx = int(inp["p"]), bool(inp.get("complex"))
    rng = np.random.RandomState(11)
    r0, ks = _rc(inp, p, cx, rng)
    ks = np.array(ks)
    r, a, P = ac_from_rc(r0, list(ks))
    poly = np.concatenate(([1.0], a))
    tol = 1e-8
    A, e = L.rc2poly(ks, r0)
    if not (close(A, poly, tol) and abs(e - P) < tol * max(1, abs(P))):
        return False, "rc2poly(k, r0) != ([1, stepup(k)], r0*prod(1-|k|^2)): %s vs %s, %s vs %s" % (np.round(A, 4), np.round(poly, 4), e, P)
    if not close(L.poly2rc(poly, P), ks, tol):
        return False, "poly2rc(rc2poly(k)) != k: %s vs %s" % (np.round(L.poly2rc(poly, P), 4), np.round(ks, 4))
    if not close(L.rc2ac(ks, r0), r, tol):
        return False, "rc2ac(k, r0) != ac(r0, k): %s vs %s" % (np.round(L.rc2ac(ks, r0), 4), np.round(r, 4))
    A2, e2 = L.ac2poly(np.array(r, dtype=complex if cx else float))
    if not (close(A2, poly, tol) and abs(e2 - P) < tol * max(1, abs(P))):
        return False, "ac2poly(ac) != rc2poly(k, r0)"
    k2, r02 = L.ac2rc(np.array(r, dtype=complex if cx else float))
    if not (close(k2, ks, tol) and abs(r02 - r0) < tol):
        return False, "ac2rc(ac) != (k, r0)"
    if not close(L.poly2ac(poly, P), r, tol):
        return False, "poly2ac(rc2poly(k, r0)) != rc2ac(k, r0): %s vs %s" % (np.round(L.poly2ac(poly, P), 4), np.round(r, 4))
    if p >= 2:
        r_, a_prev, P_prev = ac_from_rc(r0, list(ks[:-1]))
        prev = np.concatenate(([1.0], a_prev))
        up, eup = levup(prev, ks[-1], P_prev)
        if not close(up, poly, tol):
            return False, "levup(a_{p-1}, k_p) != a_p"
        down, edown = levdown(poly, P)
        if not close(down, prev, tol):
            return False, "levdown(levup(a, k)) != a"
    return True, "all conversions consistent at order %d" % p


def scalar(inp):
    import spectrum.linear_prediction as L
    k = np.array([-0.9, -0.3, 0.0, 0.4, 0.95])
    g = np.array([-3.0, -0.5, 0.0, 1.2, 4.0])
    s = np.array([-0.99, -0.2, 0.0, 0.6, 0.9])
    ok = close(L.lar2rc(L.rc2lar(k)), k, 1e-12) and close(L.rc2lar(L.lar2rc(g)), g, 1e-9) and \
        close(L.is2rc(L.rc2is(k)), k, 1e-12) and close(L.rc2is(L.is2rc(s)), s, 1e-12)
    for f in (L.rc2lar, L.rc2is):
        for bad in ([0.2, 1.0], [-1.5, 0.1]):
            try:
                f(np.array(bad))
                return False, "%s(%s) accepted" % (f.__name__, bad)
            except ValueError:
                pass
    return ok, "scalar bijections"


NATIVE = {"lp": lp, "scalar": scalar}
SEARCH = {k: (lambda rng, h: dict(h)) for k in NATIVE}
