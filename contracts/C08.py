"""C08  Sampling-rate and scale_by_freq normalisation is uniform.

 arma2psd.*      the real arma2psd against (rho/T)|B(f)|^2/|A(f)|^2 on the grid k/NFFT (symbolic
                 orders, symbolic NFFT > order, real and complex coefficients; A only / B only / both)
 scale.*         Spectrum.scale multiplies the cache by 2*pi/df iff scale_by_freq is True
 speriodogram.*  the function applies 2*pi/df itself exactly when asked
 relscale.K.*    for each class: psd(scale_by_freq=True)[i] = psd(False)[i] * 2*pi/df, df = sampling/NFFT
 relfs.K.*       for each class, scaling off: AR/MA/ARMA spectra scale with 1/sampling, periodogram,
                 correlogram, multitaper, MUSIC/EV are unchanged, the frequency axis is proportional
"""
from fractions import Fraction
from pyvc import values as V
from pyvc.values import Arr, Arr2, Cx, Obj, Enum
from pyvc.harness import Task
from . import specs, model, funcs
from .model import CLASSES, default_sides
from .C07 import admissible

META = {
    "level": "proof",
    "functions": ["spectrum.arma.arma2psd", "spectrum.psd.Spectrum.scale", "spectrum.periodogram.speriodogram"] +
                 [c["q"] + ".__call__" for c in CLASSES.values()],
    "assumptions": ["A-REAL; A-PY", "A-DFT: numpy.fft.fft(a, n)[k] = DTFT(a zero-padded to n, k/n)",
                    "functional estimators other than arma2psd/speriodogram enter as uninterpreted deterministic "
                    "functions of their arguments (none of them receives sampling or scale_by_freq, except minvar whose "
                    "proportionality to `sampling` is its own contract, proved in C16)",
                    "pminvar is typed (proportional to sampling) but not constrained by the statement"],
    "trusted_base": [],
}

AR_LIKE = ["pburg", "pyule", "pcovar", "pmodcovar", "parma", "pma"]
UNCHANGED = ["Periodogram", "pcorrelogram", "MultiTapering", "pmusic", "pev"]


def arma2psd_task(which, dtype):
    def run(tc):
        dom = tc.smt()
        I = tc.interp()
        hints = {"which": which, "dtype": dtype}
        tc.native = ("arma2psd", hints)

        def thunk(I):
            n = dom.input_int("NFFT")
            rho = dom.input_real("rho")
            T = dom.input_real("T")
            I.assume(V.s_cmp(">", rho, 0))
            I.assume(V.s_cmp(">", T, 0))
            A = B = None
            if which in ("A", "AB"):
                p = dom.input_int("p")
                I.assume(V.s_cmp(">=", p, 1))
                I.assume(V.s_cmp(">", n, p))
                A = dom.input_array("A", p, dtype)
            if which in ("B", "AB"):
                q = dom.input_int("q")
                I.assume(V.s_cmp(">=", q, 1))
                I.assume(V.s_cmp(">", n, q))
                B = dom.input_array("B", q, dtype)
            I.assume(V.s_cmp(">=", n, 1))
            I.st = dict(A=A, B=B, rho=rho, T=T, n=n)
            return I.call_qual("spectrum.arma.arma2psd", A, B, rho, T, n)

        def post(P):
            st = P.interp.st
            if P.outcome != "return":
                P.fail("no-exception", "arma2psd raises %s" % P.value.exc, replay=("arma2psd", hints))
                return
            want = funcs.spec_arma2psd(dom, st["A"], st["B"], st["rho"], st["T"], st["n"])
            got = P.value
            if got.dtype == "complex":
                P.fail("real-valued", "result dtype is complex", replay=("arma2psd", hints))
            else:
                P.ok("real-valued")
            P.prove_arr_eq("formula", got, want, replay=("arma2psd", hints))
        tc.run_paths(I, thunk, post)
    return Task("arma2psd.%s.%s" % (which, dtype), run, functions=["spectrum.arma.arma2psd"])


def scale_task(datatype):
    def run(tc):
        dom = tc.smt()
        I = tc.interp()

        def thunk(I):
            o, sh = model.make_state(I, dom, "Periodogram", datatype, cache="valid")
            I.st = dict(o=o, before=o.attrs["_Spectrum__psd"].snap(), n=o.attrs["_Spectrum__psd"].n)
            I.call(I.getattr(o, "scale"), [], {})
            return None

        def post(P):
            st = P.interp.st
            o = st["o"]
            hints = {"datatype": datatype}
            tc.native = ("scale", hints)
            if P.outcome != "return":
                P.fail("no-exception", "scale raises %s" % P.value.exc, replay=("scale", hints))
                return
            a = o.attrs
            df = V.s_div(a["_Spectrum__sampling"], V.to_float(a["_Spectrum__NFFT"]))
            fac = V.s_ite(V.enum_eq(a["_Spectrum__scale_by_freq"], True), V.s_div(2 * dom.pi(), df), Fraction(1))
            old = st["before"]
            want = Arr(st["n"], fn=lambda i: old(i) * fac, dtype="float")
            P.prove_arr_eq("scale=2pi/df-iff-flag", a["_Spectrum__psd"], want, replay=("scale", hints))
        tc.run_paths(I, thunk, post)
    return Task("scale.%s" % datatype, run, functions=["spectrum.psd.Spectrum.scale"])


def speriodogram_scale_task(datatype):
    """function level: speriodogram(scale_by_freq=True) = speriodogram(False) * 2*pi/df"""
    def run(tc):
        dom = tc.smt()
        I = tc.interp(stubs=funcs.window_stub(dom))
        hints = {"datatype": datatype}
        tc.native = ("speriodogram_scale", hints)

        def thunk(I):
            N = dom.input_int("N")
            I.assume(V.s_cmp(">=", N, 1))
            x = dom.input_array("x", N, "complex" if datatype == "complex" else "float")
            n = dom.input_int("NFFT")
            I.assume(V.s_cmp(">=", n, N))
            fs = dom.input_real("sampling")
            I.assume(V.s_cmp(">", fs, 0))
            r1 = I.call_qual("spectrum.periodogram.speriodogram", x, n, False, fs, True, "hann")
            r0 = I.call_qual("spectrum.periodogram.speriodogram", x, n, False, fs, False, "hann")
            I.st = dict(r1=r1, r0=r0, fs=fs, n=n)
            return None

        def post(P):
            st = P.interp.st
            if P.outcome != "return":
                P.fail("no-exception", "speriodogram raises %s" % P.value.exc, replay=("speriodogram_scale", hints))
                return
            df = V.s_div(st["fs"], V.to_float(st["n"]))
            s0 = st["r0"].snap()
            fac = V.s_div(2 * dom.pi(), df)
            want = Arr(st["r0"].n, fn=lambda i: s0(i) * fac, dtype="float")
            P.prove_arr_eq("scaled-once", st["r1"], want, replay=("speriodogram_scale", hints))
        tc.run_paths(I, thunk, post)
    return Task("speriodogram.scale.%s" % datatype, run, functions=["spectrum.periodogram.speriodogram"])


def two_objects(I, dom, cname, datatype, vary):
    """two objects that agree on everything except `vary` ('scale' or 'sampling')"""
    o1, sh = model.make_state(I, dom, cname, datatype, tag="1", cache="none")
    sh2 = dict(sh)
    if vary == "scale":
        sh2.pop("scale_by_freq")
    else:
        sh2.pop("sampling")
    # fresh names for the varied attribute of the second object
    orig_enum, orig_real = dom.enum, dom.input_real

    def enum2(name, choices):
        return orig_enum(name + "2" if name == "scale_by_freq" else name, choices)

    def real2(name):
        return orig_real(name + "2" if name == "sampling" else name)
    dom.enum, dom.input_real = enum2, real2
    try:
        o2, _ = model.make_state(I, dom, cname, datatype, tag="2", cache="none", shared=sh2)
    finally:
        dom.enum, dom.input_real = orig_enum, orig_real
    return o1, o2


def relscale_task(cname, datatype):
    def run(tc):
        dom = tc.smt()
        I = tc.interp(stubs=funcs.refined_stubs(dom))
        hints = {"cls": cname, "datatype": datatype}
        tc.native = ("relscale", hints)

        def thunk(I):
            o1, o2 = two_objects(I, dom, cname, datatype, "scale")
            admissible(I, cname, o1)
            I.assume(V.enum_eq(o1.attrs["_Spectrum__scale_by_freq"], True))
            I.assume(V.enum_eq(o2.attrs["_Spectrum__scale_by_freq"], False))
            I.call(o1, [], {})
            I.call(o2, [], {})
            I.st = dict(o1=o1, o2=o2)
            return None

        def post(P):
            st = P.interp.st
            if P.outcome != "return":
                P.fail("no-exception", "__call__ raises %s" % P.value.exc, replay=("relscale", hints))
                return
            a1, a2 = st["o1"].attrs, st["o2"].attrs
            pT, pF = a1["_Spectrum__psd"], a2["_Spectrum__psd"]
            df = V.s_div(a1["_Spectrum__sampling"], V.to_float(a1["_Spectrum__NFFT"]))
            fac = V.s_div(2 * dom.pi(), df)
            sF = pF.snap()
            want = Arr(pF.n, fn=lambda i: sF(i) * fac, dtype="float")
            P.prove_arr_eq("scaled-exactly-once", pT, want, replay=("relscale", hints))
        tc.run_paths(I, thunk, post)
    return Task("relscale.%s.%s" % (cname, datatype), run, functions=[CLASSES[cname]["q"] + ".__call__"])


def relfs_task(cname, datatype):
    def run(tc):
        dom = tc.smt()
        I = tc.interp(stubs=funcs.refined_stubs(dom))
        hints = {"cls": cname, "datatype": datatype}
        tc.native = ("relfs", hints)

        def thunk(I):
            o1, o2 = two_objects(I, dom, cname, datatype, "sampling")
            admissible(I, cname, o1)
            I.assume(V.enum_eq(o1.attrs["_Spectrum__scale_by_freq"], False))
            I.call(o1, [], {})
            I.call(o2, [], {})
            f1 = I.call(I.getattr(o1, "frequencies"), [], {})
            f2 = I.call(I.getattr(o2, "frequencies"), [], {})
            I.st = dict(o1=o1, o2=o2, f1=f1, f2=f2)
            return None

        def post(P):
            st = P.interp.st
            if P.outcome != "return":
                P.fail("no-exception", "__call__ raises %s" % P.value.exc, replay=("relfs", hints))
                return
            a1, a2 = st["o1"].attrs, st["o2"].attrs
            p1, p2 = a1["_Spectrum__psd"], a2["_Spectrum__psd"]
            fs1, fs2 = a1["_Spectrum__sampling"], a2["_Spectrum__sampling"]
            s1 = p1.snap()
            if cname in AR_LIKE:
                want = Arr(p1.n, fn=lambda i: s1(i) * V.s_div(fs1, fs2), dtype="float")
                P.prove_arr_eq("model-spectrum-divided-by-sampling", p2, want, replay=("relfs", hints))
            elif cname in UNCHANGED:
                P.prove_arr_eq("unchanged-by-sampling", p2, p1, replay=("relfs", hints))
            else:
                want = Arr(p1.n, fn=lambda i: s1(i) * V.s_div(fs2, fs1), dtype="float")
                P.prove_arr_eq("minvar-proportional-to-sampling(typed)", p2, want, replay=("relfs", hints))
            f1, f2 = st["f1"], st["f2"]
            g1 = f1.snap()
            want_f = Arr(f1.n, fn=lambda i: g1(i) * V.s_div(fs2, fs1), dtype="float")
            P.prove_arr_eq("axis-proportional", f2, want_f, replay=("relfs", hints))
        tc.run_paths(I, thunk, post)
    return Task("relfs.%s.%s" % (cname, datatype), run, functions=[CLASSES[cname]["q"] + ".__call__"])


def tasks(tier):
    ts = []
    for which in ("A", "B", "AB"):
        for dt in ("float", "complex"):
            ts.append(arma2psd_task(which, dt))
    for dt in ("real", "complex"):
        ts.append(scale_task(dt))
        ts.append(speriodogram_scale_task(dt))
        for cname in CLASSES:
            ts.append(relscale_task(cname, dt))
            ts.append(relfs_task(cname, dt))
    return ts
