"""native oracles for C08 replays"""
import numpy as np
from .native_common import Skip, num, arr, close, rand_arr
from .C07_native import build, _data


def _A(rng, n, dtype):
    return rand_arr(rng, n, "complex" if dtype == "complex" else "float", -0.6, 0.6)


def arma2psd(inp):
    import spectrum
    which, dtype = inp["which"], inp["dtype"]
    n = int(inp["NFFT"])
    rho, T = num(inp["rho"]), num(inp["T"])
    A = arr(inp["A"]) if which in ("A", "AB") else None
    B = arr(inp["B"]) if which in ("B", "AB") else None
    got = spectrum.arma2psd(A, B, rho, T, n)
    k = np.arange(n)
    def poly(c):
        c = np.concatenate(([1.0], c))
        return np.array([np.sum(c * np.exp(-2j * np.pi * kk / n * np.arange(len(c)))) for kk in k])
    want = np.full(n, rho / T)
    if B is not None:
        want = want * np.abs(poly(B)) ** 2
    if A is not None:
        want = want / np.abs(poly(A)) ** 2
    return close(got, want, 1e-8) and not np.iscomplexobj(got), "arma2psd NFFT=%d: max|diff|=%g" % (
        n, float(np.max(np.abs(np.asarray(got) - want))) if np.asarray(got).shape == want.shape else -1)


def _attrs(inp, datatype, scale, fs):
    data = _data(inp, datatype)
    return dict(data=data, data_y=None, sampling=fs, NFFT=int(inp.get("nfft0", 32)), scale_by_freq=scale, detrend=None,
                window="hann", lag=6, ar_order=4, ma_order=3, plag=8, method=inp.get("method", "unity"))


def relscale(inp):
    cls, datatype = inp["cls"], inp["datatype"]
    fs = float(inp.get("fs0", 2.0))
    at = _attrs(inp, datatype, True, fs)
    if cls == "pma":
        at["ar_order"] = 8
    oT = build(cls, datatype, at)
    oT()
    at["scale_by_freq"] = False
    oF = build(cls, datatype, at)
    oF()
    df = fs / oT.NFFT
    want = np.array(oF.psd) * 2 * np.pi / df
    got = np.array(oT.psd)
    ratio = float(np.median(got / np.array(oF.psd)))
    return close(got, want, 1e-9), "%s(%s): psd(scale=True)/psd(False) = %.6g, 2*pi/df = %.6g" % (cls, datatype, ratio, 2 * np.pi / df)


def relfs(inp):
    cls, datatype = inp["cls"], inp["datatype"]
    fs1, fs2 = float(inp.get("fs0", 1.0)), float(inp.get("fs1", 4.0))
    at = _attrs(inp, datatype, False, fs1)
    if cls == "pma":
        at["ar_order"] = 8
    o1 = build(cls, datatype, at)
    o1()
    at["sampling"] = fs2
    o2 = build(cls, datatype, at)
    o2()
    p1, p2 = np.array(o1.psd), np.array(o2.psd)
    if cls in ("pburg", "pyule", "pcovar", "pmodcovar", "parma", "pma"):
        want = p1 * fs1 / fs2
    elif cls == "pminvar":
        want = p1 * fs2 / fs1
    else:
        want = p1
    okf = close(np.array(o2.frequencies()), np.array(o1.frequencies()) * fs2 / fs1, 1e-12)
    return close(p2, want, 1e-9) and okf, "%s(%s): median psd2/psd1 = %.6g for sampling %g -> %g; axis proportional: %s" % (
        cls, datatype, float(np.median(p2 / p1)), fs1, fs2, okf)


def scale(inp):
    import spectrum
    datatype = inp["datatype"]
    x = _data(inp, datatype)
    for flag in (True, False):
        p = spectrum.Periodogram(x, sampling=2.0, NFFT=32, scale_by_freq=flag)
        p._Spectrum__psd = np.arange(1.0, 6.0)
        p.modified = False
        p.scale()
        want = np.arange(1.0, 6.0) * (2 * np.pi / p.df if flag else 1.0)
        if not close(p._Spectrum__psd, want):
            return False, "scale() with scale_by_freq=%s: %s" % (flag, p._Spectrum__psd)
    return True, "scale ok"


def speriodogram_scale(inp):
    import spectrum
    x = _data(inp, inp["datatype"])
    fs = 2.0
    a = spectrum.speriodogram(x, NFFT=32, detrend=False, sampling=fs, scale_by_freq=True, window="hann")
    b = spectrum.speriodogram(x, NFFT=32, detrend=False, sampling=fs, scale_by_freq=False, window="hann")
    return close(a, b * 2 * np.pi / (fs / 32)), "ratio %g" % float(np.median(a / b))


NATIVE = {"arma2psd": arma2psd, "relscale": relscale, "relfs": relfs, "scale": scale, "speriodogram_scale": speriodogram_scale}


def _s_arma(rng, hints):
    d = dict(hints)
    p, q = rng.randint(1, 4), rng.randint(1, 4)
    d["NFFT"] = rng.choice([8, 9, 16, 5 + max(p, q)])
    d["rho"] = round(rng.uniform(0.2, 3), 3)
    d["T"] = round(rng.uniform(0.2, 3), 3)
    d["A"] = _A(rng, p, hints["dtype"])
    d["B"] = _A(rng, q, hints["dtype"])
    return d


def _s_cls(rng, hints):
    d = dict(hints)
    d["seed"] = rng.randint(1, 999)
    d["nfft0"] = rng.choice([32, 33, 48])
    d["fs0"] = rng.choice([1.0, 2.0, 0.5])
    d["fs1"] = rng.choice([4.0, 3.0, 0.25])
    return d


SEARCH = {"arma2psd": _s_arma, "relscale": _s_cls, "relfs": _s_cls, "scale": _s_cls, "speriodogram_scale": _s_cls}
