"""helpers for exact-algebra (E3) tasks"""
import random
from fractions import Fraction
from pyvc import values as V
from pyvc.values import Arr, Arr2, Cx
from pyvc.harness import Task


def stepup(ks):
    """prediction polynomial (without the leading 1) from reflection coefficients"""
    a = []
    for k in ks:
        a = [a[j] + k * V.s_conj(a[len(a) - 1 - j]) for j in range(len(a))] + [k]
    return a


def ac_from_rc(r0, ks):
    """autocorrelation r[0..p], step-up polynomial and final error implied by (r0, k1..kp)"""
    r = [r0]
    P = r0
    a = []
    for m, k in enumerate(ks, 1):
        acc = k * P
        for j in range(len(a)):
            acc = acc + a[j] * r[m - 1 - j]
        r.append(-acc)
        a = [a[j] + k * V.s_conj(a[len(a) - 1 - j]) for j in range(len(a))] + [k]
        P = P * (1 - V.s_abs2(k))
    return r, a, P


def names_for(p, cx, extra=()):
    n = ["r0"] + list(extra)
    for i in range(p):
        n += ["k%d_r" % i, "k%d_i" % i] if cx else ["k%d" % i]
    return n


def ksyms(dom, p, cx):
    return [dom.csym("k%d" % i) if cx else dom.sym("k%d" % i) for i in range(p)]


def random_point(dom, rng, lo=-0.9, hi=0.9):
    pt = {}
    for n in dom.gens:
        if n in ("sqrt2", "sqrt3"):
            pt[n] = Fraction(round({"sqrt2": 2, "sqrt3": 3}[n] ** 0.5 * 10 ** 9), 10 ** 9)      # witness only
        elif n.startswith("r0") or n.startswith("T0") or n.startswith("e0"):
            pt[n] = Fraction(rng.randint(5, 40), 10)
        else:
            pt[n] = Fraction(rng.randint(int(lo * 100), int(hi * 100)), 100) or Fraction(1, 7)
    return pt


class E3:
    """obligation bookkeeping for one exact-algebra task"""

    def __init__(self, tc, dom, native, hints, seed=0):
        self.tc, self.dom, self.native, self.hints = tc, dom, native, hints
        self.rng = random.Random(seed + 17)

    def witness(self, a, b):
        for _ in range(40):
            pt = random_point(self.dom, self.rng)
            va, vb = self.dom.evaluate(V.Cx.of(a) if isinstance(b, Cx) else a, pt), self.dom.evaluate(V.Cx.of(b) if isinstance(a, Cx) else b, pt)
            if va is None or vb is None:
                continue
            if abs(va - vb) > 1e-9 * max(1.0, abs(va), abs(vb)):
                return {k: str(v) for k, v in pt.items()}
        return None

    def eq(self, clause, got, want):
        """scalar or sequence equality as identities of the field"""
        tc = self.tc
        if getattr(tc, "point_mode", False):
            return self.eq_point(clause, got, want)
        gl = got.to_list() if isinstance(got, Arr) else (list(got) if isinstance(got, (list, tuple)) else [got])
        wl = want.to_list() if isinstance(want, Arr) else (list(want) if isinstance(want, (list, tuple)) else [want])
        if len(gl) != len(wl):
            r = tc.add_result(clause, "refuted", detail="length %d, expected %d" % (len(gl), len(wl)), model=dict(self.hints))
            r.clause, r.replay = clause, (self.native, self.hints)
            return False
        for i, (g, w) in enumerate(zip(gl, wl)):
            if not self.dom.equal(g, w):
                pt = self.witness(g, w)
                r = tc.add_result(clause, "refuted", detail="entry %d is not identically equal to the specification" % i,
                                  model=dict(self.hints, point=pt))
                r.clause, r.replay = clause, (self.native, dict(self.hints, point=pt))
                return False
        r = tc.add_result(clause, "proved", backend="ringnf(normal form in Q(%d symbols))" % len(self.dom.gens))
        r.clause = clause
        return True

    def eq_point(self, clause, got, want):
        """pre-run at a rational point: only a mismatch is recorded (a concrete input on which the real code, executed exactly,
        disagrees with the specification); agreement proves nothing and records nothing"""
        tc = self.tc
        tc.point_evals = getattr(tc, "point_evals", 0) + 1
        gl = got.to_list() if isinstance(got, Arr) else (list(got) if isinstance(got, (list, tuple)) else [got])
        wl = want.to_list() if isinstance(want, Arr) else (list(want) if isinstance(want, (list, tuple)) else [want])
        pt = {k: str(v) for k, v in (self.dom.point or {}).items()}
        bad = None
        if len(gl) != len(wl):
            bad = "length %d, expected %d" % (len(gl), len(wl))
        else:
            for i, (g, w) in enumerate(zip(gl, wl)):
                if not self.dom.equal(g, w):
                    bad = "entry %d differs from the specification at the rational point %s" % (i, pt)
                    break
        if bad is not None:
            r = tc.add_result(clause, "refuted", detail=bad, model=dict(self.hints, point=pt), backend="exact evaluation at a rational point")
            r.clause, r.replay = clause, (self.native, dict(self.hints, point=pt))
            return False
        return True

    def ok(self, clause, cond, detail=""):
        if getattr(self.tc, "point_mode", False) and cond:
            return True
        r = self.tc.add_result(clause, "proved" if cond else "refuted", backend="ringnf", detail=detail, model=dict(self.hints))
        r.clause = clause
        if not cond:
            r.replay = (self.native, self.hints)
        return cond

    def run(self, interp, thunk):
        from pyvc.values import Unsupported
        try:
            paths = interp.explore(thunk)
        except Unsupported as e:
            if not getattr(self.tc, "point_mode", False):
                r = self.tc.add_result("engine", "unsupported", detail=str(e))
                r.clause, r.replay = "engine", (self.native, self.hints)      # the native-search fallback decides on the real function
            return None
        p = paths[0]
        if p.outcome != "return" and getattr(self.tc, "point_mode", False):
            return None      # a concrete point may leave the generic domain (e.g. a non positive-definite sample): not a verdict
        if p.outcome != "return":
            r = self.tc.add_result("no-exception", "refuted", detail="raises %s on the generic path" % p.value.exc, model=dict(self.hints))
            r.clause, r.replay = "no-exception", (self.native, self.hints)
            return None
        return p.value


def e3_interp(tc, names, stubs=None, lazy=False):
    from pyvc.ringdom import RingDom
    from pyvc.interp import Interp
    dom = RingDom(names)
    dom.lazy = lazy
    if getattr(tc, "point_mode", False):
        # refutation pre-run: data symbols take random exact rational values; algebraic constants, pi and angle symbols stay symbolic
        import re as _re
        rng = random.Random(tc.seed * 7919 + 13 + 104729 * getattr(tc, "point_try", 0))
        keep = _re.compile(r"^(sqrt2|sqrt3|pi|th|w\d+)$")
        pt = random_point(dom, rng)
        dom.point = {n: v for n, v in pt.items() if not keep.match(n)}
    tc.dom = dom
    V.set_domain(dom)
    return dom, Interp(tc.program, dom, tc.lib, stubs=stubs or {})


def to_z3(dom, v, zv):
    """element of Q(gens) -> (numerator, denominator) as z3 real polynomials over the variables zv[name]"""
    import z3
    f = dom.lift(v)

    def poly(pl):
        acc = z3.RealVal(0)
        for mon, c in pl.terms():
            t = z3.RealVal(str(Fraction(int(c.numerator), int(c.denominator))))
            for g, e in zip(dom.gens, mon):
                for _ in range(e):
                    t = t * zv[g]
            acc = acc + t
        return acc
    return poly(f.numer), poly(f.denom)


def nra_stable(tc, E, dom, A, hyps_fn, clause, timeout_ms=30000):
    """discharge   hyps  and  z^p + A[0] z^(p-1) + ... + A[p-1] = 0   =>   |z| < 1   over the reals (z = u + iv) with z3's non-linear
    arithmetic, where A are the coefficients the REAL code returned in the exact domain (elements of Q(gens)).  Denominators of the
    coefficients are hypothesised non-zero (the code divided by them).  Vacuity guard: hyps and p(z) = 0 must be satisfiable.
    A counter-model (values of the generators) is handed to the native oracle of E, which recomputes the roots with numpy."""
    import z3
    zv = {g: z3.Real(g) for g in dom.gens}
    u, v = z3.Real("z_re"), z3.Real("z_im")
    hyps = list(hyps_fn(zv))
    # one common denominator L for all coefficients: the root condition is the polynomial identity
    #   L z^p + N_1 z^(p-1) + ... + N_p = 0  with L != 0  (no division handed to the solver)
    parts = []
    for c in A:
        c = V.Cx.of(c)
        parts.append((dom.lift(c.re), dom.lift(c.im)))
    L = None
    for fr, fi in parts:
        for f in (fr, fi):
            L = f.denom if L is None else L.lcm(f.denom)

    def poly(pl):
        acc = z3.RealVal(0)
        for mon, cf in pl.terms():
            t = z3.RealVal(str(Fraction(int(cf.numerator), int(cf.denominator))))
            for g, e in zip(dom.gens, mon):
                for _ in range(e):
                    t = t * zv[g]
            acc = acc + t
        return acc
    Lz = poly(L) if L is not None else z3.RealVal(1)
    hyps.append(Lz != 0)
    re_, im_ = Lz, z3.RealVal(0)
    for fr, fi in parts:
        nr, ni = poly(fr.numer * (L // fr.denom)), poly(fi.numer * (L // fi.denom))
        re_, im_ = re_ * u - im_ * v + nr, re_ * v + im_ * u + ni
    root = [z3.simplify(re_) == 0, z3.simplify(im_) == 0]
    s = z3.Solver()
    s.set("timeout", timeout_ms)
    s.push()
    s.add(hyps + root)
    vac = s.check()
    s.pop()
    if vac != z3.sat:
        rr = tc.add_result(clause + ":hypotheses-reachable", "unknown" if vac == z3.unknown else "refuted", backend="z3-nra",
                           detail="the hypotheses of the stability obligation are not jointly satisfiable with p(z) = 0: vacuous")
        rr.clause = clause + ":hypotheses-reachable"
        return None
    s.add(hyps + root + [u * u + v * v >= 1])
    res = s.check()
    if res == z3.unsat:
        rr = tc.add_result(clause, "proved", backend="z3-nra")
    elif res == z3.sat:
        m = s.model()

        def val_(x):
            q = m.eval(x, model_completion=True)
            if z3.is_algebraic_value(q):
                q = q.approx(20)
            return str(Fraction(q.numerator_as_long(), q.denominator_as_long()))
        pt = {g: val_(zv[g]) for g in dom.gens}
        rr = tc.add_result(clause, "refuted", backend="z3-nra", model=dict(E.hints, point=pt, z=[val_(u), val_(v)]),
                           detail="a root of the returned polynomial on or outside the unit circle under the hypotheses")
        rr.replay = (E.native, dict(E.hints, point=pt))
    else:
        rr = tc.add_result(clause, "unknown", backend="z3-nra", detail="no verdict within %d s" % (timeout_ms // 1000))
    rr.clause = clause
    return res == z3.unsat
