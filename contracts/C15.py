"""C15  MA and ARMA estimators return valid models (code half).

 ma.*              ma(X, Q, M) = two chained biased Yule-Walker fits: returns exactly Q coefficients and the variance of the
                   long AR fit; rejects Q <= 0 and Q >= M  (aryule by contract; unbounded)
 arma_estimate.*   for symbolic N, P, Q, lag: the vector handed to the covariance solver is R[K+Q-P+1] / R0 / conj(R[-..])
                   of the unbiased autocorrelation (for P = Q: lags Q+1..lag), on both sides of the P <= 4 switch; the
                   residual is y[k-P] = x[k] + sum_j a_j x[k-j-1], k = P..N-1; exactly P AR and Q MA coefficients are
                   returned together with ma()'s variance
 shapes.*          the lengths again on the REAL arcovar_marple / arcovar / aryule / ma bodies at concrete shapes (degree domain)
 place.parma/pma/pburg/pyule/pcovar/pmodcovar.*   PSD = (rho/sampling) |B(f)|^2/|A(f)|^2 of the exposed coefficients
 arma2psd.*        the formula itself
 Root locations / positivity of variances: level_note.
"""
from fractions import Fraction
from pyvc import values as V
from pyvc.values import Arr, Arr2, Cx
from pyvc.harness import Task
from pyvc.interp import RaiseSig
from . import funcs, classes, model
from .C08 import arma2psd_task

META = {
    "level": "proof",
    "functions": ["spectrum.arma.ma", "spectrum.arma.arma_estimate", "spectrum.arma.arma2psd", "spectrum.arma.parma.__call__",
                  "spectrum.arma.pma.__call__"],
    "assumptions": ["A-REAL; A-PY; A-DFT", "CORRELATION, aryule, arcovar, arcovar_marple enter arma_estimate/ma by contract: "
                    "CORRELATION(X, maxlags, norm) has maxlags+1 entries (C09), aryule(X, p) returns p coefficients and the "
                    "Levinson variance (C12), the covariance solvers return the least-squares AR vector (C14); the lengths "
                    "are re-checked on the real bodies at concrete shapes (shapes.*, bounded)",
                    "invertibility of the MA part, stability and positivity of the variances follow from 'ma = Yule-Walker "
                    "twice' and C12 through the Schur-Cohn theorem: root location is not contract-decidable, not claimed",
                    "strict positivity / finiteness of the PSD is read off the proved formula (rho > 0, A(f) != 0, B(f) != 0)"],
    "trusted_base": [],
    "bounded_note": "shapes.* tasks are bounded in shape (degree domain); everything else is unbounded",
}


def ma_task(datatype):
    def run(tc):
        dom = tc.smt()
        st = model.estimator_stubs(dom)
        I = tc.interp(stubs={"spectrum.yulewalker.aryule": st["spectrum.yulewalker.aryule"]})
        hints = {"fn": "ma", "datatype": datatype}
        tc.native = ("ma", hints)

        def thunk(I):
            N = dom.input_int("N")
            Q = dom.input_int("Q")
            M = dom.input_int("M")
            I.assume(V.s_cmp(">=", N, 2))
            x = dom.input_array("x", N, "complex" if datatype == "complex" else "float")
            I.st = dict(x=x, Q=Q, M=M)
            return I.call_qual("spectrum.arma.ma", x, Q, M)

        def post(P):
            st_ = P.interp.st
            Q, M, x = st_["Q"], st_["M"], st_["x"]
            bad = V.b_or(V.s_cmp("<=", Q, 0), V.s_cmp(">=", Q, M))
            if P.outcome == "raise":
                if P.value.exc == "ValueError":
                    P.prove("rejects-only-Q-outside-]0,M[", bad, replay=("ma", hints))
                else:
                    P.fail("no-exception", "ma raises %s" % P.value.exc, replay=("ma", hints))
                return
            P.prove("accepts-only-0<Q<M", V.b_not(bad), replay=("ma", hints))
            b, rho = P.value
            P.prove("returns-Q-coefficients", V.s_eq(b.n, Q), replay=("ma", hints))
            a1, rho1, _ = st["spectrum.yulewalker.aryule"](P.interp, x, M, "biased")
            P.prove("variance-of-the-long-AR-fit", V.s_eq(rho, rho1), replay=("ma", hints))
        tc.run_paths(I, thunk, post)
    return Task("ma.%s" % datatype, run, functions=["spectrum.arma.ma"])


def arma_task(datatype, small_P):
    def run(tc):
        dom = tc.smt()
        cst = funcs.corr_stubs(dom)
        est = model.estimator_stubs(dom)
        seen = {}

        def solver(which):
            def f(I, y, order):
                seen["solver"] = which
                seen["Y"] = y.copy()
                keys = dom.key_terms([y, order])
                a = dom.opaque_array("covsolve_a", keys, order, "complex")
                seen["forward"] = a
                if which == "marple":
                    # the real routine returns its work arrays (length len(y)), coefficients first: FORWARD predictor at index 0,
                    # BACKWARD predictor at index 2 -- two different vectors (C14: the forward one is the least-squares solution)
                    s = a.snap()
                    zero = Cx(Fraction(0), Fraction(0))
                    af = Arr(y.n, fn=lambda i: V.s_ite(V.s_cmp("<", i, order), s(i), zero), dtype="complex")
                    b = dom.opaque_array("covsolve_ab", keys, order, "complex")
                    sb = b.snap()
                    ab = Arr(y.n, fn=lambda i: V.s_ite(V.s_cmp("<", i, order), sb(i), zero), dtype="complex")
                    return (af, dom.opaque_real("covsolve_pf", keys), ab, dom.opaque_real("covsolve_pb", keys), [])
                return (a, dom.opaque_real("covsolve_e", keys))
            return f

        def ma_stub(I, X, Q, M):
            seen["res"] = X.copy()
            seen["maQ"], seen["maM"] = Q, M
            return est["spectrum.arma.ma"](I, X, Q, M)
        stubs = {"spectrum.correlation.CORRELATION": cst["spectrum.correlation.CORRELATION"],
                 "spectrum.covar.arcovar_marple": solver("marple"), "spectrum.covar.arcovar": solver("lstsq"),
                 "spectrum.arma.ma": ma_stub}
        I = tc.interp(stubs=stubs)
        hints = {"fn": "arma_estimate", "datatype": datatype, "small_P": small_P}
        tc.native = ("arma", hints)

        def thunk(I):
            seen.clear()
            N = dom.input_int("N")
            P_ = dom.input_int("P")
            Q = dom.input_int("Q")
            lag = dom.input_int("lag")
            I.assume(V.s_cmp(">=", P_, 1))
            I.assume(V.s_cmp(">=", Q, 1))
            I.assume(V.s_cmp("<=", Q, lag))
            I.assume(V.s_cmp("<=", lag + 2 * P_ - Q, N))
            I.assume(V.s_cmp("<", 2 * Q, N - P_))
            I.assume(V.s_cmp("<", lag, N))
            # the negative lags R[-(K+Q-P+1)] that the code reads exist only when P-Q-1 <= lag (see known finding)
            I.assume(V.s_cmp("<=", P_ - Q - 1, lag))
            # the covariance solvers need more equations than unknowns
            I.assume(V.s_cmp(">", lag, P_))
            I.assume(V.s_cmp("<=", P_, 4) if small_P else V.s_cmp(">", P_, 4))
            x = dom.input_array("x", N, "complex" if datatype == "complex" else "float")
            I.st = dict(x=x, N=N, P=P_, Q=Q, lag=lag)
            return I.call_qual("spectrum.arma.arma_estimate", x, P_, Q, lag)

        def post(P):
            s = P.interp.st
            x, N, P_, Q, lag = s["x"], s["N"], s["P"], s["Q"], s["lag"]
            if P.outcome != "return":
                P.fail("no-exception", "arma_estimate raises %s inside its documented domain" % P.value.exc, replay=("arma", hints))
                return
            ar, ma_, rho = P.value
            P.prove("returns-P-AR-coefficients", V.s_eq(ar.n, P_), replay=("arma", hints))
            P.prove("returns-Q-MA-coefficients", V.s_eq(ma_.n, Q), replay=("arma", hints))
            if "forward" in seen:
                j_ = P.skolem("ja", 0, P_)
                P.prove("AR-part=forward-least-squares-solution-of-the-modified-YW-system",
                        V.s_eq(V.Cx.of(ar.at(j_)), V.Cx.of(seen["forward"].at(j_))), replay=("arma", hints))
            if seen.get("solver") != ("marple" if small_P else "lstsq"):
                P.fail("solver-switch", "P %s 4 used solver %r" % ("<=" if small_P else ">", seen.get("solver")), replay=("arma", hints))
            else:
                P.ok("solver-switch")
            R = cst["spectrum.correlation.CORRELATION"](P.interp, x, None, lag, "unbiased").snap()
            Y = seen["Y"]
            P.prove("modified-YW.length=lag", V.s_eq(Y.n, lag), replay=("arma", hints))
            K = P.skolem("K", 0, lag)
            kpq = K + Q - P_ + 1
            inside = V.s_cmp("<", K, lag - Q + P_)
            want = V.s_ite(inside, V.s_ite(V.s_cmp("<", kpq, 0), V.s_conj(V.Cx.of(R(-kpq))),
                                           V.s_ite(V.s_eq(kpq, 0), V.Cx.of(R(0)), V.Cx.of(R(kpq)))), Cx(Fraction(0), Fraction(0)))
            P.prove("modified-YW.entries=unbiased-lags", V.s_eq(Y.at(K), want), replay=("arma", hints))
            with P.case(V.s_eq(P_, Q)):
                P.prove("modified-YW.P=Q:lags-Q+1..lag", V.s_eq(Y.at(K), V.Cx.of(R(K + 1))), replay=("arma", hints))
            res = seen["res"]
            P.prove("residual.length=N-P", V.s_eq(res.n, N - P_), replay=("arma", hints))
            k = P.skolem("k", P_, N)
            sx, sa = x.snap(), ar.snap()
            tot = dom.sum(0, P_, lambda j: sa(j) * sx(k - j - 1))
            P.prove("residual.entries=x[k]+sum a_j x[k-j-1]", V.s_eq(res.at(k - P_), V.Cx.of(sx(k)) + tot), replay=("arma", hints))
            P.prove("ma-on-residual(Q,2Q)", V.b_and(V.s_eq(seen["maQ"], Q), V.s_eq(seen["maM"], 2 * Q)), replay=("arma", hints))
        tc.run_paths(I, thunk, post)
    return Task("arma_estimate.%s.%s" % (datatype, "P<=4" if small_P else "P>4"), run, functions=["spectrum.arma.arma_estimate"])


def shape_task(N, P_, Q, lag, cx):
    """lengths on the real bodies (arcovar_marple, arcovar, aryule, ma, CORRELATION) at a concrete shape"""
    from pyvc.degdom import DegDom

    def run(tc):
        dom = DegDom(real_mode=not cx)
        tc.dom = dom
        from pyvc.interp import Interp
        I = Interp(tc.program, dom, tc.lib)
        hints = {"fn": "shapes", "N": N, "P": P_, "Q": Q, "lag": lag, "complex": cx}
        tc.native = ("arma", hints)

        def thunk(I):
            x = dom.data_array(N, cx)
            r = I.call_qual("spectrum.arma.arma_estimate", x, P_, Q, lag)
            b = I.call_qual("spectrum.arma.ma", dom.data_array(N, cx), Q, 2 * Q)
            return r, b

        def post(P):
            if P.outcome != "return":
                P.fail("no-exception", "raises %s" % P.value.exc, replay=("arma", hints))
                return
            (ar, ma_, rho), (b, rho2) = P.value
            for nm, got, want in (("len(ar)=P", ar.n, P_), ("len(ma)=Q", ma_.n, Q), ("ma():len=Q", b.n, Q)):
                if got == want:
                    P.ok(nm)
                else:
                    P.fail(nm, "%s: got %s" % (nm, got), replay=("arma", hints), model=hints)
        tc.run_paths(I, thunk, post)
    return Task("shapes.N%d.P%d.Q%d.lag%d.%s" % (N, P_, Q, lag, "complex" if cx else "real"), run, kind="bounded")


def domain_task(cx):
    """does arma_estimate return for every (P, Q, lag) of the statement's domain?  (enumeration at N = 40)"""
    from pyvc.degdom import DegDom

    def run(tc):
        dom = DegDom(real_mode=not cx)
        tc.dom = dom
        from pyvc.interp import Interp
        N = 40
        bad = []
        tried = 0
        for P_ in range(1, 9):
            for Q in range(1, 4):
                for lag in range(Q, 9):
                    if not (lag + 2 * P_ - Q <= N and 2 * Q < N - P_):
                        continue
                    tried += 1
                    I = Interp(tc.program, dom, tc.lib)
                    paths = I.explore(lambda I_: I_.call_qual("spectrum.arma.arma_estimate", dom.data_array(N, cx), P_, Q, lag))
                    if paths[0].outcome != "return":
                        bad.append((P_, Q, lag, paths[0].value.exc))
        explained = [b for b in bad if b[2] <= b[0] or b[0] - b[1] - 1 > b[2]]
        other = [b for b in bad if b not in explained]
        if other:
            r = tc.add_result("returns-for-lag>P", "refuted", detail="raises for (P,Q,lag,exc) = %s" % (other[:5],),
                              model={"P": other[0][0], "Q": other[0][1], "lag": other[0][2], "N": N, "complex": cx})
            r.clause = "returns-for-lag>P"
            r.replay = ("arma_domain", {})
        else:
            tc.add_result("returns-for-lag>P", "proved", backend="enumeration(%d triples)" % tried).clause = "returns-for-lag>P"
        if bad:
            r = tc.add_result("returns-inside-stated-domain", "refuted",
                              detail="%d of %d admissible (P,Q,lag) raise, e.g. %s" % (len(bad), tried, bad[:4]),
                              model={"P": bad[0][0], "Q": bad[0][1], "lag": bad[0][2], "N": N, "complex": cx})
            r.clause = "returns-inside-stated-domain"
            r.replay = ("arma_domain", {})
        else:
            tc.add_result("returns-inside-stated-domain", "proved", backend="enumeration(%d triples)" % tried).clause = \
                "returns-inside-stated-domain"
    return Task("arma_estimate.domain.%s" % ("complex" if cx else "real"), run, kind="bounded", timeout=600)


def tasks(tier):
    ts = [domain_task(False), domain_task(True)]
    for dt in ("real", "complex"):
        ts.append(ma_task(dt))
        ts.append(arma_task(dt, True))
        ts.append(arma_task(dt, False))
        for c in ("parma", "pma", "pburg", "pyule", "pcovar", "pmodcovar"):
            ts.append(classes.place_task(c, dt))
    for which in ("A", "B", "AB"):
        for dt in ("float", "complex"):
            ts.append(arma2psd_task(which, dt))
    for (N, P_, Q, lag) in [(32, 2, 2, 6), (40, 4, 3, 8), (48, 5, 5, 10), (64, 8, 4, 15)]:
        for cx in (False, True):
            ts.append(shape_task(N, P_, Q, lag, cx))
    return ts
