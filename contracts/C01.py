"""C01  Periodogram equals the windowed-DFT definition (and the correlogram its lag-domain form).

 speriodogram.*      real 1-D speriodogram against |DFT_NFFT(x*w)|^2 / N at every returned bin (real: 0..NFFT//2,
                     complex: all NFFT), NFFT given or None, with and without the 2*pi/df factor
 speriodogram2d.*    2-D input: column c of the result = periodogram of column c (2 and 3 columns)
 place.Periodogram.* the class stores exactly the function result (no extra factor)
 periodogram-method  FourierSpectrum.periodogram() likewise
 CORRELOGRAMPSD.*    code half of Wiener-Khinchin: the function returns Re sum_{|m|<=lag} r[m] w[m] e^{-2 pi i k m/NFFT}
                     (two-sided lag sum) for NFFT >= 2*lag+1, both correlation back ends, auto and cross
 Not decided here (see level_note): the Wiener-Khinchin and Parseval *lemmas* over the specification.
"""
from pyvc.harness import Task
from . import funcs, classes, model

META = {
    "level": "proof",
    "functions": ["spectrum.periodogram.speriodogram", "spectrum.periodogram.Periodogram.__call__",
                  "spectrum.psd.FourierSpectrum.periodogram", "spectrum.correlog.CORRELOGRAMPSD"],
    "assumptions": ["A-REAL; A-PY", "A-DFT: fft/rfft(a, n)[k] = DTFT(a truncated/zero-padded to n, k/n); periodisation "
                    "identity DFT_n(s)[k] = sum_Z t[j] e^{-2 pi i k j/n} for s = t periodised (premises proved per use)",
                    "Window(N, name).data is a real length-N array depending on (N, name) only (proved per window in C20)",
                    "CORRELATION / xcorr enter by their C09 contracts (xcorr[maxlags + k] = CORRELATION[k])",
                    "Parseval and the Wiener-Khinchin identity sum_m r[m] z^m = |X(z)|^2/N are consequences of the proved "
                    "formulas by DFT algebra over the specification; they are not re-proved (code independent)"],
    "trusted_base": [],
}


def periodogram_method_task(datatype):
    from pyvc import values as V
    from pyvc.values import Arr

    def run(tc):
        dom = tc.smt()
        I = tc.interp(stubs=funcs.refined_stubs(dom))
        hints = {"cls": "Periodogram", "datatype": datatype}
        tc.native = ("place", hints)

        def thunk(I):
            o, sh = model.make_state(I, dom, "Periodogram", datatype, cache="none")
            I.assume(V.enum_eq(o.attrs["_Spectrum__scale_by_freq"], False))
            I.call(I.getattr(o, "periodogram"), [], {})
            I.st = dict(o=o)
            return None

        def post(P):
            o = P.interp.st["o"]
            if P.outcome != "return":
                P.fail("no-exception", "periodogram() raises %s" % P.value.exc, replay=("place", hints))
                return
            want, _ = classes.expected_psd(P.interp, dom, "Periodogram", datatype, o)
            P.prove_arr_eq("stores-function-result", o.attrs["_Spectrum__psd"], want, replay=("place", hints))
        tc.run_paths(I, thunk, post)
    return Task("periodogram-method.%s" % datatype, run, functions=["spectrum.psd.FourierSpectrum.periodogram"])


def tasks(tier):
    ts = []
    for dt in ("real", "complex"):
        ts.append(funcs.speriodogram_task("C01", dt, "int"))
        ts.append(funcs.speriodogram_task("C01", dt, "None"))
        ts.append(funcs.speriodogram_task("C01", dt, "int", scale=True))
        ts.append(funcs.speriodogram2d_task(dt, 2))
        ts.append(funcs.speriodogram2d_task(dt, 3))
        ts.append(classes.place_task("Periodogram", dt))
        ts.append(periodogram_method_task(dt))
        for method in ("xcorr", "CORRELATION"):
            ts.append(funcs.correlogram_task(dt, method))
            ts.append(funcs.correlogram_task(dt, method, cross=True))
    return ts
