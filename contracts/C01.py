"""C01  Periodogram equals the windowed-DFT definition (and the correlogram its lag-domain form).

 speriodogram.*      real 1-D speriodogram against |DFT_NFFT(x*w)|^2 / N at every returned bin (real: 0..NFFT//2,
                     complex: all NFFT), NFFT given or None, with and without the 2*pi/df factor
 speriodogram2d.*    2-D input: column c of the result = periodogram of column c (2 and 3 columns)
 place.Periodogram.* the class stores exactly the function result (no extra factor)
 periodogram-method  FourierSpectrum.periodogram() likewise
 CORRELOGRAMPSD.*    code half of Wiener-Khinchin: the function returns Re sum_{|m|<=lag} r[m] w[m] e^{-2 pi i k m/NFFT}
                     (two-sided lag sum) for NFFT >= 2*lag+1, both correlation back ends, auto and cross
 Not decided here (see level_note): the Wiener-Khinchin and Parseval *lemmas* over the specification.
"""
from fractions import Fraction
from pyvc import values as V
from pyvc.values import Arr, Cx
from pyvc.harness import Task
from . import funcs, classes, model

META = {
    "level": "proof",
    "functions": ["spectrum.periodogram.speriodogram", "spectrum.periodogram.Periodogram.__call__",
                  "spectrum.psd.FourierSpectrum.periodogram", "spectrum.correlog.CORRELOGRAMPSD"],
    "assumptions": ["A-REAL; A-PY", "A-DFT: fft/rfft(a, n)[k] = DTFT(a truncated/zero-padded to n, k/n); periodisation "
                    "identity DFT_n(s)[k] = sum_Z t[j] e^{-2 pi i k j/n} for s = t periodised (premises proved per use)",
                    "Window(N, name).data is a real length-N array depending on (N, name) only (proved per window in C20)",
                    "CORRELATION / xcorr enter by their C09 contracts (xcorr[maxlags + k] = CORRELATION[k])",
                    "Parseval and the Wiener-Khinchin identity sum_m r[m] z^m = |X(z)|^2/N are consequences of the proved "
                    "formulas by DFT algebra over the specification; they are not re-proved (code independent)"],
    "bounded_note": "parseval.* and wiener-khinchin.* are bounded (N <= 4, NFFT in {3, 4, 6}; up to N = 5, NFFT = 12 thorough), all data and window values at those sizes; everything else is unbounded",
    "trusted_base": ["sympy.polys (bounded exact-algebra tasks only)"],
}


def periodogram_method_task(datatype):
    from pyvc import values as V
    from pyvc.values import Arr

    def run(tc):
        dom = tc.smt()
        I = tc.interp(stubs=funcs.refined_stubs(dom))
        hints = {"cls": "Periodogram", "datatype": datatype}
        tc.native = ("place", hints)

        def thunk(I):
            o, sh = model.make_state(I, dom, "Periodogram", datatype, cache="none")
            I.assume(V.enum_eq(o.attrs["_Spectrum__scale_by_freq"], False))
            I.call(I.getattr(o, "periodogram"), [], {})
            I.st = dict(o=o)
            return None

        def post(P):
            o = P.interp.st["o"]
            if P.outcome != "return":
                P.fail("no-exception", "periodogram() raises %s" % P.value.exc, replay=("place", hints))
                return
            want, _ = classes.expected_psd(P.interp, dom, "Periodogram", datatype, o)
            P.prove_arr_eq("stores-function-result", o.attrs["_Spectrum__psd"], want, replay=("place", hints))
        tc.run_paths(I, thunk, post)
    return Task("periodogram-method.%s" % datatype, run, functions=["spectrum.psd.FourierSpectrum.periodogram"])


def _e3_window_stub(dom, N):
    """Window(N, name).data = N free real symbols: an ARBITRARY window (C20 proves each named window separately)"""
    from pyvc.values import Obj

    def Window(I, n, name=None, norm=True, **kargs):
        o = Obj(I.program.find_class("spectrum.window.Window"))
        o.attrs["_Window__N"] = n
        o.attrs["_Window__name"] = name
        o.attrs["_Window__norm"] = norm
        o.attrs["_Window__data"] = Arr.from_items([dom.sym("w%d" % j) for j in range(int(n))], dtype="float")
        return o
    return {"spectrum.window.Window": Window}


def parseval_task(N, NFFT):
    """complex data, arbitrary window: the mean of the NFFT values of the real speriodogram equals sum |x w|^2 / N (exact DFT)"""
    def run(tc):
        names = sum((["x%d_r" % j, "x%d_i" % j] for j in range(N)), []) + ["w%d" % j for j in range(N)] + \
            (["sqrt3"] if NFFT in (3, 6, 12) else []) + (["sqrt2"] if NFFT == 8 else [])
        dom, I = None, None
        from .e3 import E3, e3_interp
        dom, I = e3_interp(tc, names)
        I.stubs.update(_e3_window_stub(dom, N))
        E = E3(tc, dom, "parseval", {"N": N, "NFFT": NFFT}, tc.seed)
        x = [dom.csym("x%d" % j) for j in range(N)]
        w = [dom.sym("w%d" % j) for j in range(N)]
        v = E.run(I, lambda I_: I_.call_qual("spectrum.periodogram.speriodogram", Arr.from_items(list(x), dtype="complex"), NFFT, False, Fraction(1), False, "anyname"))
        if v is None:
            return
        psd = v.to_list()
        E.ok("NFFT-values", len(psd) == NFFT, "length %d" % len(psd))
        want = sum((V.s_abs2(x[j] * w[j]) for j in range(N)), 0) / N
        E.eq("Parseval:mean(psd)=sum|x*w|^2/N", sum(psd, 0) / NFFT, want)
    return Task("parseval.complex.N%d.NFFT%d" % (N, NFFT), run, kind="bounded", prerun=True, timeout=150,
                functions=["spectrum.periodogram.speriodogram"])


def wiener_khinchin_task(N, NFFT, cx):
    """rectangular window, lag N-1, biased normalisation, NFFT >= 2N-1: the real CORRELOGRAMPSD reproduces the real periodogram
    (two-sided values; for real data the statement's bins 0..NFFT/2 are a prefix of them)"""
    def run(tc):
        names = sum((["x%d_r" % j, "x%d_i" % j] if cx else ["x%d" % j] for j in range(N)), []) + \
            (["sqrt3"] if NFFT in (3, 6, 12) else []) + (["sqrt2"] if NFFT == 8 else [])
        from .e3 import E3, e3_interp
        dom, I = e3_interp(tc, names)
        E = E3(tc, dom, "wiener_khinchin", {"N": N, "NFFT": NFFT, "complex": cx}, tc.seed)
        x = [dom.csym("x%d" % j) if cx else dom.sym("x%d" % j) for j in range(N)]
        mk = lambda: Arr.from_items(list(x), dtype="complex" if cx else "float")
        for method in ("xcorr", "CORRELATION"):
            c = E.run(I, lambda I_: I_.call_qual("spectrum.correlog.CORRELOGRAMPSD", mk(), None, N - 1, "rectangular", "biased", NFFT, {}, method))
            if c is None:
                return
            cl = c.to_list()
            E.ok("%s:NFFT-values" % method, len(cl) == NFFT, "length %d" % len(cl))
            # the periodogram by its definition |DFT_NFFT(x)|^2 / N (what windowed-DFT.* proves speriodogram returns)
            per = []
            for k in range(NFFT):
                X = dom.dtft(lambda j: x[j], N, k, NFFT)
                per.append(V.s_abs2(X) / N)
            if len(cl) == NFFT:
                E.eq("%s:correlogram=periodogram" % method, [V.Cx.of(u) for u in cl], [V.Cx.of(u) for u in per])
        p = E.run(I, lambda I_: I_.call_qual("spectrum.periodogram.speriodogram", mk(), NFFT, False, Fraction(1), False, "rectangular"))
        if p is not None:
            pl = p.to_list()
            # complex data: all NFFT bins; real data: bins 0..NFFT/2, one-sided (doubled except DC and Nyquist is NOT applied by speriodogram: checked against the definition)
            if cx:
                E.eq("speriodogram=|DFT|^2/N (same sizes)", [V.Cx.of(u) for u in pl], [V.Cx.of(V.s_abs2(dom.dtft(lambda j: x[j], N, k, NFFT)) / N) for k in range(NFFT)])
    return Task("wiener-khinchin.%s.N%d.NFFT%d" % ("complex" if cx else "real", N, NFFT), run, kind="bounded", prerun=True, timeout=150,
                functions=["spectrum.correlog.CORRELOGRAMPSD", "spectrum.periodogram.speriodogram"])


def tasks(tier):
    ts = []
    for (N, n) in ([(3, 3), (3, 4), (4, 6)] if tier == "quick" else [(3, 3), (3, 4), (4, 4), (4, 6), (4, 8), (5, 12)]):
        ts.append(parseval_task(N, n))
    for (N, n) in ([(2, 3), (2, 4), (3, 6)] if tier == "quick" else [(2, 3), (2, 4), (3, 6), (3, 8), (4, 8), (4, 12)]):
        for cx in (False, True):
            ts.append(wiener_khinchin_task(N, n, cx))
    for dt in ("real", "complex"):
        ts.append(funcs.speriodogram_task("C01", dt, "int"))
        ts.append(funcs.speriodogram_task("C01", dt, "None"))
        ts.append(funcs.speriodogram_task("C01", dt, "int", scale=True))
        ts.append(funcs.speriodogram2d_task(dt, 2))
        ts.append(funcs.speriodogram2d_task(dt, 3))
        ts.append(classes.place_task("Periodogram", dt))
        ts.append(periodogram_method_task(dt))
        for method in ("xcorr", "CORRELATION"):
            ts.append(funcs.correlogram_task(dt, method))
            ts.append(funcs.correlogram_task(dt, method, cross=True))
    return ts
