"""native oracles for C13 replays: the statement's clauses checked numerically on the real arburg"""
import numpy as np
from .native_common import Skip, close


def _x(N, cx, seed):
    rng = np.random.RandomState(seed)
    x = np.cos(0.9 * np.arange(N) + 0.2) + 0.6 * rng.randn(N)
    return x + 1j * (0.5 * rng.randn(N) + np.sin(0.4 * np.arange(N))) if cx else x


def stepup(ks):
    a = []
    for k in ks:
        a = [a[j] + k * np.conj(a[len(a) - 1 - j]) for j in range(len(a))] + [k]
    return np.array(a)


def burg_stage(inp):
    import spectrum
    cx = bool(inp.get("complex"))
    for (N, p, seed) in ((int(inp.get("N", 12)) + 6, int(inp.get("k", 2)) + 2, 1), (24, 5, 2), (9, 3, 3)):
        x = _x(N, cx, seed)
        a, rho, ref = spectrum.arburg(x, p)
        if np.any(np.abs(ref) > 1 + 1e-12):
            return False, "reflection coefficient of modulus > 1: %s" % np.abs(ref)
        if not close(a, stepup(ref), 1e-9):
            return False, "AR vector is not the step-up of the reflection coefficients"
        want = np.mean(np.abs(x) ** 2) * np.prod(1 - np.abs(ref) ** 2)
        if abs(rho - want) > 1e-9 * want:
            return False, "rho = %r, mean|x|^2 prod(1-|k|^2) = %r" % (rho, want)
        # each k_i minimises the forward+backward error energy of its stage
        for q in range(1, p + 1):
            aq = np.concatenate(([1.0], stepup(ref[:q - 1]))) if q > 1 else np.array([1.0])
            ef = np.array([sum(aq[i] * x[j - i] for i in range(q)) for j in range(q - 1, N)])
            eb = np.array([sum(np.conj(aq[i]) * x[j - (q - 1) + i] for i in range(q)) for j in range(q - 1, N)])
            u, v = ef[1:], eb[:-1]
            E = lambda k: np.sum(np.abs(u + k * v) ** 2 + np.abs(v + np.conj(k) * u) ** 2)
            k0 = ref[q - 1]
            for d in (1e-3, -1e-3, 1e-3j if cx else 2e-3):
                if E(k0 + d) < E(k0) - 1e-12 * E(k0):
                    return False, "stage %d: E(k+d) < E(k): k=%r is not the minimiser" % (q, k0)
        for q in range(1, p):
            aq, rq, refq = spectrum.arburg(x, q)
            if not close(refq, ref[:q], 1e-10):
                return False, "order-%d reflection coefficients are not the first %d of the order-%d ones" % (q, q, p)
    return True, "Burg clauses hold numerically"


def burg_criterion(inp):
    import spectrum
    cx = bool(inp.get("complex"))
    x = _x(40, cx, 4)
    for crit in ("AIC", "MDL", "FPE", "KIC", "AICc", "AKICc"):
        a, rho, ref = spectrum.arburg(x, 12, crit)
        q = len(a)
        if q == 0:
            if abs(rho - np.mean(np.abs(x) ** 2)) > 1e-9:
                return False, "%s: order 0 selected but rho != mean|x|^2" % crit
            continue
        a2, rho2, ref2 = spectrum.arburg(x, q)
        if not (close(a, a2, 1e-10) and abs(rho - rho2) < 1e-10 * abs(rho2) and close(ref, ref2, 1e-10)):
            return False, "%s: the result (order %d) is not the order-%d Burg model" % (crit, q, q)
    return True, "criterion results are Burg models of the selected order"


NATIVE = {"burg_stage": burg_stage, "burg_criterion": burg_criterion, "burg_nesting": burg_stage}
SEARCH = {k: (lambda rng, h: dict(h)) for k in NATIVE}
