"""C10  Levinson and the Toeplitz / Hermitian solvers solve their equations -- engine E3 (exact algebra, bounded size).

 levinson.param.*    r = ac(r0, k1..kp) (every positive definite autocorrelation is of this form): LEVINSON returns ref = k,
                     a = stepup(k), P = r0*prod(1-|k_i|^2), T_p [1,a]^T = [P,0..0]^T, and LEVINSON(r, order=q) returns the first q
                     reflection coefficients -- as identities in Q(r0, k): all values, real and complex, p <= 5 (7 thorough)
 levinson.generic.*  symbolic r (no parametrisation): T_p [1,a]^T = [P,0..0]^T and P = r0*prod(1-|ref_i|^2), p <= 3
 levinson.stable.*   'a stable polynomial': the a returned by the real LEVINSON (elements of Q(r0, k)) handed to z3 as polynomials;
                     |k_i| < 1, z^p + a_1 z^(p-1) + .. + a_p = 0 => |z| < 1 over the reals, all values; real p = 1, 2, complex p = 1
 levinson.raise.*    (E1, all values) the singularity test: a stage with P <= 0 raises ValueError unless allow_singularity
 hermtoep.* / toeplitz.*  T X = Z for generic symbolic systems of size <= 3 (4 thorough)
 cholesky.*          the three back ends against their library contracts (factor / triangular solves): A X = B
 sign facts          P > 0 and |k_i| < 1 for positive definite r: read off P_i = P_{i-1}(1-|k_i|^2) and P_i = det T_i / det T_{i-1}
"""
from fractions import Fraction
from pyvc import values as V
from pyvc.values import Arr, Arr2, Cx
from pyvc.harness import Task
from . import e3
from .e3 import E3, e3_interp, stepup, ac_from_rc, names_for, ksyms

F = Fraction
META = {
    "level": "other",
    "functions": ["spectrum.levinson.LEVINSON", "spectrum.toeplitz.HERMTOEP", "spectrum.toeplitz.TOEPLITZ", "spectrum.cholesky.CHOLESKY"],
    "assumptions": ["A-REAL", "bounded in size: identities hold for all values at orders / sizes up to the stated bound",
                    "generic path: the branch `P <= 0 -> raise` is not taken (the positive definite domain); recorded per run",
                    "L-PARAM: every autocorrelation with non-vanishing leading minors is ac(r0, k) for some (r0, k) "
                    "(textbook; made unnecessary up to order 3 by the generic runs)",
                    "P > 0 and |k_i| < 1 for positive definite r follow from the proved identities by sign reasoning; the Schur-Cohn "
                    "step (|k_i| < 1 => stable polynomial) is discharged by z3 (non-linear real arithmetic) on the coefficients the real "
                    "code returns at real orders 1, 2 and complex order 1; beyond them it is a root-location theorem and is not claimed",
                    "CHOLESKY: scipy.linalg.cholesky returns the upper factor U with U^H U = A, cho_solve((c, lower), b) solves "
                    "(c^H c) x = b for lower=False; numpy.linalg.cholesky returns the lower factor; numpy.linalg.solve solves exactly"],
    "trusted_base": ["sympy.polys (exact rational-function arithmetic, gcd normal form)", "z3 nlsat (levinson.stable.*)"],
    "explanation": "Deductive, bounded in size: the real code is executed on elements of Q(symbols) and every equation of the "
                   "statement is decided as an identity of that field by normal form (all values at once), for orders/sizes up to "
                   "the stated bound; the singularity clause is proved for all values by the SMT engine.",
    "bounded_note": "orders p <= 5 (parametrised) / 3 (generic) quick; 7 / 4 thorough",
}


def toeplitz_apply(r, x):
    """Hermitian Toeplitz T (first column r) times x"""
    n = len(x)
    out = []
    for i in range(n):
        acc = 0
        for j in range(n):
            t = r[i - j] if i >= j else V.s_conj(r[j - i])
            acc = acc + t * x[j]
        out.append(acc)
    return out


def lev_param_task(p, cx):
    def run(tc):
        dom, I = e3_interp(tc, names_for(p, cx))
        E = E3(tc, dom, "levinson", {"p": p, "complex": cx, "mode": "param"}, tc.seed)
        ks = ksyms(dom, p, cx)
        r0 = dom.sym("r0")
        r, a, P = ac_from_rc(r0, ks)
        dt = "complex" if cx else "float"
        rr = Arr.from_items(r, dtype=dt)
        val = E.run(I, lambda I_: I_.call_qual("spectrum.levinson.LEVINSON", Arr.from_items(r, dtype=dt)))
        if val is None:
            return
        A, Pc, ref = val
        E.eq("reflection=k", ref, ks)
        E.eq("a=stepup(k)", A, a)
        E.eq("P=r0*prod(1-|k|^2)", Pc, P)
        lhs = toeplitz_apply(r, [1] + A.to_list())
        E.eq("T[1,a]=[P,0..0]", lhs, [Pc] + [0] * p)
        for q in range(1, p):
            v2 = E.run(I, lambda I_, q=q: I_.call_qual("spectrum.levinson.LEVINSON", Arr.from_items(r, dtype=dt), q))
            if v2 is None:
                return
            E.eq("order-%d:first-%d-reflection-coefficients" % (q, q), v2[2], ks[:q])
            E.eq("order-%d:a=stepup(k[:%d])" % (q, q), v2[0], stepup(ks[:q]))
        tc.assumptions.update(set(dom.assumptions[:3]))
    return Task("levinson.param.%s.p%d" % ("complex" if cx else "real", p), run, kind="bounded", prerun=True, functions=["spectrum.levinson.LEVINSON"])


def lev_generic_task(p, cx):
    def run(tc):
        names = ["r0"] + (sum((["r%d_r" % i, "r%d_i" % i] for i in range(1, p + 1)), []) if cx else ["r%d" % i for i in range(1, p + 1)])
        dom, I = e3_interp(tc, names)
        E = E3(tc, dom, "levinson", {"p": p, "complex": cx, "mode": "generic"}, tc.seed)
        r = [dom.sym("r0")] + [dom.csym("r%d" % i) if cx else dom.sym("r%d" % i) for i in range(1, p + 1)]
        dt = "complex" if cx else "float"
        val = E.run(I, lambda I_: I_.call_qual("spectrum.levinson.LEVINSON", Arr.from_items(r, dtype=dt)))
        if val is None:
            return
        A, Pc, ref = val
        E.eq("T[1,a]=[P,0..0]", toeplitz_apply(r, [1] + A.to_list()), [Pc] + [0] * p)
        prod = r[0]
        for k in ref.to_list():
            prod = prod * (1 - V.s_abs2(k))
        E.eq("P=r0*prod(1-|ref|^2)", Pc, prod)
        E.eq("a=stepup(ref)", A, stepup(ref.to_list()))
    return Task("levinson.generic.%s.p%d" % ("complex" if cx else "real", p), run, kind="bounded", prerun=True, functions=["spectrum.levinson.LEVINSON"])


def lev_stable_task(p, cx):
    """the clause 'a stable polynomial', decided for all values at the orders where non-linear real arithmetic decides it: the
    coefficients a the REAL LEVINSON returns on r = ac(r0, k) (elements of Q(r0, k), extracted from the exact run) are handed to
    z3 as polynomials, and   |k_i| < 1 for all i,  z^p + a_1 z^(p-1) + ... + a_p = 0   =>   |z| < 1   is discharged over the
    reals (z = u + iv).  Real p = 1, 2 and complex p = 1 are decided in milliseconds; real p = 3 and complex p = 2 are not decided
    by z3 4.8 / 5.1 or cvc5 within 40 s and are not attempted (Schur-Cohn in general is a root-location theorem, not claimed)."""
    def run(tc):
        dom, I = e3_interp(tc, names_for(p, cx))
        E = E3(tc, dom, "levinson", {"p": p, "complex": cx, "mode": "stable"}, tc.seed)
        ks = ksyms(dom, p, cx)
        r0 = dom.sym("r0")
        r, a, P = ac_from_rc(r0, ks)
        dt = "complex" if cx else "float"
        val = E.run(I, lambda I_: I_.call_qual("spectrum.levinson.LEVINSON", Arr.from_items(r, dtype=dt)))
        if val is None or getattr(tc, "point_mode", False):
            return

        def hyps(zv):
            return [zv["r0"] > 0] + [(zv["k%d_r" % i] * zv["k%d_r" % i] + zv["k%d_i" % i] * zv["k%d_i" % i] < 1) if cx else
                                     (zv["k%d" % i] * zv["k%d" % i] < 1) for i in range(p)]
        e3.nra_stable(tc, E, dom, val[0].to_list(), hyps, "stable:|k|<1=>roots-of-[1,a]-inside-unit-circle")
    return Task("levinson.stable.%s.p%d" % ("complex" if cx else "real", p), run, functions=["spectrum.levinson.LEVINSON"])


def lev_raise_task(allow):
    """E1: symbolic real r of order 2: raising iff some stage has P <= 0 and singularities are not allowed"""
    def run(tc):
        dom = tc.smt()
        I = tc.interp()
        hints = {"mode": "raise", "allow": allow}
        tc.native = ("levinson", hints)

        def thunk(I):
            r = dom.input_array("r", 3, "float")
            I.st = dict(r=r)
            return I.call_qual("spectrum.levinson.LEVINSON", r, None, allow)

        def post(P):
            r = P.interp.st["r"]
            r0, r1, r2 = r.at(0), r.at(1), r.at(2)
            k1 = V.s_div(-r1, r0)
            P1 = r0 * (1 - k1 * k1)
            k2 = V.s_div(-(r2 + k1 * r1), P1)
            P2 = P1 * (1 - k2 * k2)
            bad = V.b_or(V.s_cmp("<=", P1, 0), V.s_cmp("<=", P2, 0))
            if P.outcome == "raise":
                if P.value.exc != "ValueError" or allow:
                    P.fail("no-raise-when-allowed" if allow else "raises-ValueError", "raises %s" % P.value.exc, replay=("levinson", hints))
                else:
                    P.prove("raises-only-if-some-P<=0", bad, replay=("levinson", hints))
            else:
                if allow:
                    P.ok("no-raise-when-allowed")
                else:
                    P.prove("returns-only-if-all-P>0", V.b_not(bad), replay=("levinson", hints))
        tc.run_paths(I, thunk, post)
    return Task("levinson.raise.allow_singularity=%s" % allow, run, functions=["spectrum.levinson.LEVINSON"])


def hermtoep_task(M, param):
    def run(tc):
        names = ["T0"] + sum((["t%d_r" % i, "t%d_i" % i] for i in range(M)), []) + sum((["z%d_r" % i, "z%d_i" % i] for i in range(M + 1)), [])
        dom, I = e3_interp(tc, names)
        E = E3(tc, dom, "hermtoep", {"M": M}, tc.seed)
        T0 = dom.sym("T0")
        T = [dom.csym("t%d" % i) for i in range(M)]
        Z = [dom.csym("z%d" % i) for i in range(M + 1)]
        val = E.run(I, lambda I_: I_.call_qual("spectrum.toeplitz.HERMTOEP", T0, Arr.from_items(T, dtype="complex"), Arr.from_items(Z, dtype="complex")))
        if val is None:
            return
        E.eq("T X = Z", toeplitz_apply([Cx(T0, 0)] + T, val.to_list()), Z)
    return Task("hermtoep.generic.M%d" % M, run, kind="bounded", prerun=True, functions=["spectrum.toeplitz.HERMTOEP"])


def toeplitz_task(M):
    """TOEPLITZ uses no conjugation: its correctness is a polynomial identity, which holds over C iff it holds for
    real indeterminates; complex symbols are used for M = 1 only (cost), real ones beyond"""
    cxs = M <= 1

    def run(tc):
        if cxs:
            names = ["T0_r", "T0_i"] + sum((["c%d_r" % i, "c%d_i" % i, "w%d_r" % i, "w%d_i" % i] for i in range(M)), []) + \
                sum((["z%d_r" % i, "z%d_i" % i] for i in range(M + 1)), [])
        else:
            names = ["T0"] + sum((["c%d" % i, "w%d" % i] for i in range(M)), []) + ["z%d" % i for i in range(M + 1)]
        dom, I = e3_interp(tc, names)
        E = E3(tc, dom, "toeplitz", {"M": M}, tc.seed)
        sym = dom.csym if cxs else (lambda n: Cx(dom.sym(n), 0))
        T0 = sym("T0")
        TC = [sym("c%d" % i) for i in range(M)]
        TR = [sym("w%d" % i) for i in range(M)]
        Z = [sym("z%d" % i) for i in range(M + 1)]
        mk = lambda l: Arr.from_items(l, dtype="complex")
        val = E.run(I, lambda I_: I_.call_qual("spectrum.toeplitz.TOEPLITZ", T0, mk(TC), mk(TR), mk(Z)))
        if val is None:
            return
        X = val.to_list()
        n = M + 1
        out = []
        for i in range(n):
            acc = 0
            for j in range(n):
                t = T0 if i == j else (TC[i - j - 1] if i > j else TR[j - i - 1])
                acc = acc + t * X[j]
            out.append(acc)
        E.eq("T X = Z (TC first column, TR first row)", out, Z)
    return Task("toeplitz.generic.M%d" % M, run, kind="bounded", prerun=True, functions=["spectrum.toeplitz.TOEPLITZ"])


def cholesky_task(n, method):
    """A := U^H U for a symbolic upper triangular U (so the factorisation hypothesis holds by construction)"""
    def run(tc):
        names = []
        for i in range(n):
            for j in range(i, n):
                names += ["u%d%d_r" % (i, j)] + ([] if i == j else ["u%d%d_i" % (i, j)])
        names += sum((["b%d_r" % i, "b%d_i" % i] for i in range(n)), [])
        dom, _ = e3_interp(tc, names)
        U = [[(Cx(dom.sym("u%d%d_r" % (i, j)), dom.sym("u%d%d_i" % (i, j))) if i < j else
               (Cx(dom.sym("u%d%d_r" % (i, j)), 0) if i == j else Cx(0, 0))) for j in range(n)] for i in range(n)]
        Bv = [dom.csym("b%d" % i) for i in range(n)]
        A = [[sum((V.s_conj(U[k][i]) * U[k][j] for k in range(n)), Cx(0, 0)) for j in range(n)] for i in range(n)]
        mkm = lambda rows: Arr2(n, n, rows=[list(r) for r in rows], dtype="complex")

        def solve(Mx, rhs):
            """exact solution of M x = rhs by Gaussian elimination in the field"""
            m = [list(r) + [rhs[i]] for i, r in enumerate(Mx)]
            for c in range(n):
                piv = None
                for r_ in range(c, n):
                    if not dom.is_zero(m[r_][c]):
                        piv = r_
                        break
                m[c], m[piv] = m[piv], m[c]
                pv = m[c][c]
                m[c] = [V.Cx.of(x) / pv for x in m[c]]
                for r_ in range(n):
                    if r_ != c:
                        f = m[r_][c]
                        m[r_] = [V.Cx.of(x) - f * y for x, y in zip(m[r_], m[c])]
            return [m[i][n] for i in range(n)]

        def rows(M2):
            return [[M2.at(i, j) for j in range(n)] for i in range(n)]
        calls = []

        def sp_cholesky(I, Am, lower=False, **kw):
            calls.append(("scipy.cholesky", lower))
            Ur = mkm(U)
            return mkm([[V.s_conj(U[j][i]) for j in range(n)] for i in range(n)]) if lower else Ur

        def sp_cho_solve(I, c_and_lower, b, **kw):
            c, lower = c_and_lower
            C = rows(c)
            CH = [[V.s_conj(C[j][i]) for j in range(n)] for i in range(n)]
            M2 = [[sum((C[i][k] * CH[k][j] for k in range(n)), Cx(0, 0)) for j in range(n)] for i in range(n)] if lower else \
                [[sum((CH[i][k] * C[k][j] for k in range(n)), Cx(0, 0)) for j in range(n)] for i in range(n)]
            return Arr.from_items(solve(M2, b.to_list()), dtype="complex")

        def np_cholesky(I, Am):
            calls.append(("numpy.cholesky",))
            return mkm([[V.s_conj(U[j][i]) for j in range(n)] for i in range(n)])

        def np_solve(I, Mx, b):
            return Arr.from_items(solve(rows(Mx), b.to_list()), dtype="complex")
        from pyvc.interp import Interp
        I = Interp(tc.program, dom, tc.lib)
        for k_, f in (("scipy.linalg.cholesky", sp_cholesky), ("scipy.linalg.cho_solve", sp_cho_solve),
                      ("numpy.linalg.cholesky", np_cholesky), ("numpy.linalg.solve", np_solve)):
            I.lib.table[k_] = f
        E = E3(tc, dom, "cholesky", {"n": n, "method": method}, tc.seed)
        val = E.run(I, lambda I_: I_.call_qual("spectrum.cholesky.CHOLESKY", mkm(A), Arr.from_items(Bv, dtype="complex"), method))
        if val is None:
            return
        X = val.to_list()
        AX = [sum((A[i][j] * X[j] for j in range(n)), Cx(0, 0)) for i in range(n)]
        E.eq("A X = B", AX, Bv)
    return Task("cholesky.%s.n%d" % (method, n), run, kind="bounded", functions=["spectrum.cholesky.CHOLESKY"])


def tasks(tier):
    ts = []
    pmax, gmax, smax = (5, 3, 3) if tier == "quick" else (7, 4, 4)
    for cx in (False, True):
        for p in range(1, (pmax if not cx else pmax - 1) + 1):
            ts.append(lev_param_task(p, cx))
        for p in range(1, (gmax if not cx else gmax - 1) + 1):
            ts.append(lev_generic_task(p, cx))
    ts += [lev_raise_task(False), lev_raise_task(True)]
    ts += [lev_stable_task(1, False), lev_stable_task(2, False), lev_stable_task(1, True)]
    for M in range(1, min(smax, 3) + 1):
        # complex 5x5 (M = 4) gives no result within 150 s in Q(19 symbols): not attempted
        ts.append(hermtoep_task(M, False))
    for M in range(1, max(smax, 4)):
        # M = 3 (a 4x4 system) is the first size at which every entry of the predictor vectors is updated more than once
        ts.append(toeplitz_task(M))
    for method in ("scipy", "numpy", "numpy_solver"):
        for n in (2, 3):
            ts.append(cholesky_task(n, method))
    return ts
