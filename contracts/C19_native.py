"""native oracles for C19 replays"""
import numpy as np
from .native_common import Skip, close
from .native_funcs import NATIVE as _N, SEARCH as _S
from .C07_native import _data


def pmtm(inp):
    import spectrum
    dt, method = inp["datatype"], inp["method"]
    x = _data(inp, dt, n=32)
    N = len(x)
    NW, k, n = 2.5, int(inp.get("nwin", 3)), 64
    Sk, w, eig = spectrum.pmtm(x, NW, k, NFFT=n, method=method)
    tap, e0 = spectrum.dpss(N, NW, k)
    want = np.array([np.fft.fft(tap[:, t] * x, n) for t in range(k)])
    if Sk.shape != (k, n) or not close(Sk, want, 1e-9) or not close(eig, e0, 1e-12):
        return False, "eigenspectra are not DFT(taper*x) / eigenvalues differ"
    if method == "unity":
        return w.shape == (k, 1) and close(w, np.ones((k, 1)), 0), "unity weights %s" % (w.ravel()[:3],)
    if method == "eigen":
        return w.shape == (k, 1) and close(w.ravel(), e0 / (np.arange(k) + 1.0), 1e-12), "eigen weights %s" % (w.ravel()[:3],)
    # adapt: real, within [0, 1/lambda], Thomson's formula at the last-but-one iterate
    if w.shape != (n, k) or np.iscomplexobj(w):
        return False, "adaptive weights: shape %s complex=%s" % (w.shape, np.iscomplexobj(w))
    sig2 = np.sum(np.abs(x) ** 2) / N
    P = np.abs(want.T) ** 2
    S = (P[:, 0] + P[:, 1]) / 2
    prev = None
    for it in range(200):
        b = S[:, None] / (S[:, None] * e0[None, :] + sig2 * (1 - e0[None, :]))
        wk = b ** 2 * e0[None, :]
        if close(wk, w, 1e-9):
            return bool(np.all(w >= 0) and np.all(w <= 1.0 / e0[None, :] + 1e-9)), "adaptive weights = Thomson formula at iterate %d" % it
        S = np.sum(wk * P, axis=1) / np.sum(wk, axis=1)
    return False, "adaptive weights do not satisfy b^2*lambda with b = S/(S*lambda + sig2*(1-lambda)) for any iterate"


def pmtm_pre(inp):
    import spectrum
    x = _data(inp, inp["datatype"], n=32)
    tap, e = spectrum.dpss(len(x), 2.5, 4)
    for m in ("unity", "eigen", "adapt"):
        a = spectrum.pmtm(x, 2.5, 4, NFFT=64, method=m)
        b = spectrum.pmtm(x, NFFT=64, e=e, v=tap, method=m)
        if not (close(a[0], b[0], 1e-12) and close(a[1], b[1], 1e-12) and close(a[2], b[2], 1e-12)):
            return False, "precomputed tapers give a different result (%s)" % m
    for kw in (dict(e=e), dict(v=tap), dict()):
        try:
            spectrum.pmtm(x, NFFT=64, **kw)
            return False, "pmtm(%s) accepted" % sorted(kw)
        except ValueError:
            pass
    return True, "precomputed path consistent"


def dpss(inp):
    import spectrum
    for (N, NW, k) in ((64, 2.5, None), (33, 3, 4), (128, 4, 8)):
        tap, e = spectrum.dpss(N, NW, k)
        kk = k if k is not None else int(max(min(round(2 * NW), N), 1))
        if tap.shape != (N, kk) or len(e) != kk:
            return False, "dpss(%d,%s,%s): shape %s" % (N, NW, k, tap.shape)
        for i in range(kk):
            if i % 2 == 0 and tap[:, i].sum() < 0:
                return False, "even taper %d has a negative sum" % i
            if i % 2 == 1 and tap[0, i] < 0:
                return False, "odd taper %d starts negative" % i
    return True, "dpss wrapper conventions"


NATIVE = dict(_N)
NATIVE.update({"pmtm": pmtm, "pmtm_pre": pmtm_pre, "dpss": dpss})
SEARCH = dict(_S)
SEARCH.update({k: (lambda rng, h: dict(h, seed=rng.randint(1, 99))) for k in ("pmtm", "pmtm_pre", "dpss")})
