"""Class-level placement contracts: what the real K.__call__ stores, in terms of the results of
the functional estimators (taken by their contracts) -- value at index i = (folding constant) x
(function result at the index whose frequency is the one reported for i)."""
from fractions import Fraction
from pyvc import values as V
from pyvc.values import Arr, Arr2, Cx, Obj, Enum
from pyvc.harness import Task
from . import specs, model, funcs
from .model import CLASSES, default_sides
from .C07 import admissible


def expected_psd(I, dom, cname, datatype, o):
    """(expected PSD array on the default sides, dict of expected exposed attributes)"""
    a = o.attrs
    st = funcs.refined_stubs(dom)
    data, nfft, fs = a["_Spectrum__data"], a["_Spectrum__NFFT"], a["_Spectrum__sampling"]
    real = datatype == "real"
    h = specs.half(nfft)
    exposed = {}

    def fold2(two):
        return funcs.fold_real(two, nfft, 2) if real else two
    if cname == "Periodogram":
        F = st["spectrum.periodogram.speriodogram"](I, data, nfft, a["_Spectrum__detrend"], fs, a["_Spectrum__scale_by_freq"],
                                                    a["_FourierSpectrum__window"])
        return F, exposed
    if cname == "pcorrelogram":
        F = st["spectrum.correlog.CORRELOGRAMPSD"](I, data, a["_Spectrum__data_y"], a["_FourierSpectrum__lag"],
                                                   a["_FourierSpectrum__window"], "unbiased", nfft)
        if real:
            # the two-sided correlogram of real data is symmetric: folding by sign doubles the interior
            # values and keeps DC and (NFFT even) Nyquist
            s = F.snap()
            even = specs.is_even(nfft)
            return Arr(specs.len_sides("onesided", nfft), fn=lambda i: V.s_ite(
                V.b_or(V.s_eq(i, 0), V.b_and(even, V.s_eq(i, h))), s(i), 2 * s(i)), dtype="float"), exposed
        return F, exposed
    if cname in ("pburg", "pyule", "pcovar", "pmodcovar", "parma", "pma"):
        p, q = a["_ParametricSpectrum__ar_order"], a["_ParametricSpectrum__ma_order"]
        A = B = None
        rho = Fraction(1)
        if cname == "pburg":
            A, rho, ref = st["spectrum.burg.arburg"](I, data, p, a["criteria"])
            exposed = {"ar": A, "rho": rho, "reflection": ref}
        elif cname == "pyule":
            A, rho, ref = st["spectrum.yulewalker.aryule"](I, data, p, a["_norm_aryule"])
            exposed = {"ar": A, "reflection": ref}
        elif cname == "pcovar":
            A, e = st["spectrum.covar.arcovar"](I, data, p)
            rho = V.s_div(e, V.to_float(a["_Spectrum__N"] - p))           # error energy per sample
            exposed = {"ar": A, "rho": rho}
        elif cname == "pmodcovar":
            A, e = st["spectrum.modcovar.modcovar"](I, data, p)
            rho = V.s_div(e, V.to_float(2 * (a["_Spectrum__N"] - p)))     # forward+backward energy per sample
            exposed = {"ar": A, "rho": rho}
        elif cname == "parma":
            A, B, rho = st["spectrum.arma.arma_estimate"](I, data, p, q, a["_ParametricSpectrum__lag"])
            exposed = {"ar": A, "ma": B, "rho": rho}
        elif cname == "pma":
            B, rho = st["spectrum.arma.ma"](I, data, q, p)
            exposed = {"ma": B, "rho": rho}
        two = funcs.spec_arma2psd(dom, A, B, rho, fs, nfft)
        return fold2(two), exposed
    if cname == "pminvar":
        F, A, k = st["spectrum.minvar.minvar"](I, data, a["_ParametricSpectrum__ar_order"], fs, nfft)
        exposed = {"ar": A, "reflection": k}
        return fold2(F), exposed
    if cname in ("pmusic", "pev"):
        F, S = st["spectrum.eigenfre.eigen"](I, data, a["_ParametricSpectrum__ar_order"], a["NSIG"],
                                             "music" if cname == "pmusic" else "ev", a["threshold"], nfft, a["criteria"])
        exposed = {"eigenvalues": S}
        s = F.snap()
        if real:
            # entries 0..h of the centred vector are the frequencies -h..0; mirrored (real data: symmetric)
            return Arr(specs.len_sides("onesided", nfft), fn=lambda i: 2 * s(h - i), dtype="float"), exposed
        return Arr(nfft, fn=lambda k: s(specs.wrap(k + h, nfft)), dtype="float"), exposed
    if cname == "MultiTapering":
        Sk, w, eig = st["spectrum.mtm.pmtm"](I, data, a["NW"], a["k"], nfft, a["e"], a["v"], a["_Spectrum__method"])
        exposed = {"eigenvalues": eig, "weights": w}
        sk, sw = Sk.snap(), w.snap()
        nwin = Sk.r
        adapt = V.enum_eq(a["_Spectrum__method"], "adapt")

        def mean(i):
            tot = dom.sum(0, nwin, lambda t: V.s_abs2(sk(t, i)) * V.s_ite(adapt, sw(i, t), sw(t, 0)))
            return V.s_div(tot, V.to_float(nwin))
        two = Arr(nfft, fn=mean, dtype="float")
        return fold2(two), exposed
    raise ValueError(cname)


def place_task(cname, datatype):
    def run(tc):
        dom = tc.smt()
        I = tc.interp(stubs=funcs.refined_stubs(dom))
        hints = {"cls": cname, "datatype": datatype}
        tc.native = ("place", hints)

        def thunk(I):
            o, sh = model.make_state(I, dom, cname, datatype, cache="none")
            admissible(I, cname, o)
            I.assume(V.enum_eq(o.attrs["_Spectrum__scale_by_freq"], False))
            I.call(o, [], {})
            fr = I.call(I.getattr(o, "frequencies"), [], {})
            I.st = dict(o=o, fr=fr)
            return None

        def post(P):
            st = P.interp.st
            if P.outcome != "return":
                P.fail("no-exception", "__call__ raises %s on an admissible state" % P.value.exc, replay=("place", hints))
                return
            o = st["o"]
            psd = o.attrs["_Spectrum__psd"]
            if not isinstance(psd, Arr):
                P.fail("psd-1d", "psd is not a 1-D array", replay=("place", hints))
                return
            if psd.dtype == "complex":
                P.fail("psd-real", "psd has a complex dtype", replay=("place", hints))
            else:
                P.ok("psd-real")
            nfft = o.attrs["_Spectrum__NFFT"]
            P.prove("len(psd)=len(frequencies)", V.s_eq(psd.n, st["fr"].n), replay=("place", hints))
            P.prove("len(psd)=NFFT/2+1|(NFFT+1)/2|NFFT", V.s_eq(psd.n, specs.len_sides(default_sides(datatype), nfft)),
                    replay=("place", hints))
            want, exposed = expected_psd(P.interp, dom, cname, datatype, o)
            P.prove_arr_eq("value-at-reported-frequency", psd, want, replay=("place", hints))
            for nm, val in exposed.items():
                P.interp.in_spec += 0
                got = o.attrs.get({"ar": "_ParametricSpectrum__ar", "ma": "_ParametricSpectrum__ma",
                                   "rho": "_ParametricSpectrum__rho", "reflection": "_ParametricSpectrum__reflection"}.get(nm, nm))
                if isinstance(val, Arr):
                    if not isinstance(got, Arr):
                        P.fail("exposes.%s" % nm, "attribute %s is %r" % (nm, type(got).__name__), replay=("place", hints))
                    else:
                        P.prove_arr_eq("exposes.%s" % nm, got, val, replay=("place", hints))
                elif isinstance(val, Arr2):
                    if not isinstance(got, Arr2):
                        P.fail("exposes.%s" % nm, "attribute %s is %r" % (nm, type(got).__name__), replay=("place", hints))
                    else:
                        i, j = P.skolem("ei", 0, val.r), P.skolem("ej", 0, val.c)
                        P.prove("exposes.%s" % nm, V.b_and(V.b_and(V.s_eq(got.r, val.r), V.s_eq(got.c, val.c)),
                                                           V.s_eq(got.at(i, j), val.at(i, j))), replay=("place", hints))
                else:
                    if got is None or not V.is_num(got):
                        P.fail("exposes.%s" % nm, "attribute %s is %r" % (nm, got), replay=("place", hints))
                    else:
                        P.prove("exposes.%s" % nm, V.s_eq(got, val), replay=("place", hints))
        tc.run_paths(I, thunk, post)
    return Task("place.%s.%s" % (cname, datatype), run, functions=[CLASSES[cname]["q"] + ".__call__"])
