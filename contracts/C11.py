"""C11  Linear-prediction representations convert losslessly into each other.

 E3 (exact algebra, bounded order; inputs parametrised by (r0, k1..kp), real and complex):
   rc2poly(k, r0) = ([1, stepup(k)], r0*prod(1-|k|^2));  poly2rc(that) = k;  rc2ac(k, r0) = ac(r0, k);
   ac2poly(ac) = rc2poly(k, r0);  ac2rc(ac) = (k, r0);  poly2ac(rc2poly(k, r0)) = ac;  levdown(levup(a, k)) = a
   -- every pair of representations, both directions, and the commuting squares
 E1 (all values): lar2rc(rc2lar(k)) = k, rc2lar(lar2rc(g)) = g, is2rc(rc2is(k)) = k, rc2is(is2rc(s)) = s on their domains;
   rc2lar / rc2is reject max|k| >= 1
 E3 (bounded order, all frequencies): lsf2poly(w) is the monic polynomial whose sum filter a1 + rev(a1) vanishes at exp(i w_j), j even,
   and whose difference filter a1 - rev(a1) vanishes at exp(i w_j), j odd (a1 = [a, 0]) -- the definition of "w are the line spectral
   frequencies of a", which determines a uniquely for distinct w; angles enter through t_j = tan(w_j/2)
 E3 (bounded order): poly2lsf hands numpy.roots exactly the quotients P, Q with P*(trivial factor) = a1 - rev(a1), Q*(trivial factor) = a1 + rev(a1)
   (recording stub); the root finder, the order in which it returns conjugate pairs, numpy.angle and sorted are assumed (A-ROOTS)
"""
from fractions import Fraction
from pyvc import values as V
from pyvc.values import Arr, Arr2, Cx
from pyvc.harness import Task
from .e3 import E3, e3_interp, stepup, ac_from_rc, names_for, ksyms

META = {
    "level": "other",
    "functions": ["spectrum.linear_prediction.lsf2poly", "spectrum.linear_prediction.poly2lsf", "spectrum.linear_prediction.{ac2poly,ac2rc,poly2ac,poly2rc,rc2poly,rc2ac,rc2lar,lar2rc,rc2is,is2rc,lsf2poly,poly2lsf}",
                  "spectrum.levinson.{LEVINSON,rlevinson,levup,levdown}"],
    "assumptions": ["A-REAL", "bounded in order (p <= 4 quick, 6 thorough), all values; L-PARAM (admissible parameter sets are exactly the "
                    "(r0, k) with r0 > 0, |k_i| < 1; the identities are proved as identities of Q(r0, k), i.e. wherever no divisor vanishes)",
                    "A-ELEM inverse pairs: tanh(arctanh t) = t, arctanh(tanh t) = t, sin(arcsin t) = t (|t|<=1), arcsin(sin t) = t (|t|<=pi/2)",
                    "A-ROOTS: numpy.roots returns every root of its argument, ordered so that r[1::2] holds one member of each conjugate "
                    "pair (an implementation property of the eigenvalue routine, relied upon by poly2lsf); numpy.angle, sorted: assumed. "
                    "poly2lsf is therefore verified only up to the polynomials it hands to numpy.roots; the minimum-phase guard "
                    "(max|roots(a)| >= 1) is treated as the precondition",
                    "lsf.*: unit roots written as exp(i w) = ((1-t^2) + 2 t i)/(1+t^2), t = tan(w/2): every w in (-pi, pi); w = pi excluded "
                    "(outside the statement's open interval); strict ordering / interlacing of the frequencies of a minimum-phase "
                    "polynomial is a theorem about the specification, not claimed"],
    "trusted_base": ["sympy.polys (exact rational-function arithmetic)"],
    "explanation": "Deductive, bounded in order: the real conversion routines are executed on elements of Q(r0, k) and each round trip / "
                   "commuting square is decided as an identity of that field (all values at once) for orders up to the bound; the "
                   "scalar bijections (log-area ratio, inverse sine) are proved for all values by the SMT engine with inverse-pair axioms.",
    "bounded_note": "orders p <= 4 quick / 6 thorough; lsf.* orders p <= 5 quick / 7 thorough",
}


def lp_task(p, cx, realidx=()):
    """realidx: positions whose reflection coefficient is real-VALUED inside a complex-typed set (value-dependent fast paths)"""
    def run(tc):
        dom, I = e3_interp(tc, names_for(p, cx))
        E = E3(tc, dom, "lp", dict({"p": p, "complex": cx}, **({"realidx": list(realidx)} if realidx else {})), tc.seed)
        ks = ksyms(dom, p, cx)
        for j in realidx:
            ks[j] = Cx(ks[j].re, Fraction(0))
        r0 = dom.sym("r0")
        r, a, P = ac_from_rc(r0, ks)
        dt = "complex" if cx else "float"
        mk = lambda l: Arr.from_items(l, dtype=dt)
        one = Cx(Fraction(1), Fraction(0)) if cx else Fraction(1)
        poly = [one] + a
        LP = "spectrum.linear_prediction."
        v = E.run(I, lambda I_: I_.call_qual(LP + "rc2poly", mk(ks), r0))
        if v is not None:
            E.eq("rc2poly=[1,stepup(k)]", v[0], poly)
            E.eq("rc2poly:efinal=r0*prod(1-|k|^2)", v[1], P)
        if p >= 1:
            v = E.run(I, lambda I_: I_.call_qual(LP + "poly2rc", mk(poly), P))
            if v is not None:
                E.eq("poly2rc(rc2poly(k))=k", v, ks)
        v = E.run(I, lambda I_: I_.call_qual(LP + "rc2ac", mk(ks), r0))
        if v is not None:
            E.eq("rc2ac=ac(r0,k)", v, r)
        v = E.run(I, lambda I_: I_.call_qual(LP + "ac2poly", mk(r)))
        if v is not None:
            E.eq("ac2poly(rc2ac(k,r0))=rc2poly(k,r0)", v[0], poly)
            E.eq("ac2poly:efinal", v[1], P)
        v = E.run(I, lambda I_: I_.call_qual(LP + "ac2rc", mk(r)))
        if v is not None:
            E.eq("ac2rc(rc2ac(k,r0))=k", v[0], ks)
            E.eq("ac2rc:r0", v[1], r0)
        v = E.run(I, lambda I_: I_.call_qual(LP + "poly2ac", mk(poly), P))
        if v is not None:
            E.eq("poly2ac(rc2poly(k,r0))=rc2ac(k,r0)", v, r)
        # one step up and down
        if p >= 2:
            prev = [one] + stepup(ks[:-1])
            v = E.run(I, lambda I_: I_.call_qual("spectrum.levinson.levup", mk(prev), ks[-1], P))
            if v is not None:
                E.eq("levup(a_{p-1}, k_p)=a_p", v[0], poly)
                v2 = E.run(I, lambda I_: I_.call_qual("spectrum.levinson.levdown", mk(poly), P))
                if v2 is not None:
                    E.eq("levdown(levup(a,k))=a", v2[0], prev)
    return Task("lp.%s.p%d" % (("complex" if cx else "real") + ("-with-real-valued-k%s" % "".join(str(j + 1) for j in realidx) if realidx else ""), p), run, kind="bounded", prerun=True,
                functions=["spectrum.linear_prediction.*", "spectrum.levinson.rlevinson"])


def scalar_task(which):
    """E1: the scalar bijections on arrays of symbolic length"""
    def run(tc):
        dom = tc.smt()
        I = tc.interp()
        hints = {"which": which}
        tc.native = ("scalar", hints)
        LP = "spectrum.linear_prediction."

        def thunk(I):
            n = 3
            x = dom.input_array("x", n, "float")
            I.st = dict(x=x, n=n)
            if which in ("lar", "is"):
                for i in range(n):
                    I.assume(V.b_and(V.s_cmp(">", x.at(i), -1), V.s_cmp("<", x.at(i), 1)))
                f, g = ("rc2lar", "lar2rc") if which == "lar" else ("rc2is", "is2rc")
            elif which == "lar-inv":
                f, g = "lar2rc", "rc2lar"
            else:
                for i in range(n):
                    I.assume(V.b_and(V.s_cmp(">", x.at(i), -1), V.s_cmp("<", x.at(i), 1)))
                f, g = "is2rc", "rc2is"
            y = I.call_qual(LP + f, x)
            return I.call_qual(LP + g, y)

        def post(P):
            st = P.interp.st
            if P.outcome != "return":
                P.fail("no-exception", "raises %s on the open domain" % P.value.exc, replay=("scalar", hints))
                return
            i = P.skolem("i", 0, st["n"])
            P.prove("round-trip=identity", V.s_eq(P.value.at(i), st["x"].at(i)), replay=("scalar", hints))
        tc.run_paths(I, thunk, post)
    return Task("scalar.%s" % which, run, functions=["spectrum.linear_prediction.rc2lar", "spectrum.linear_prediction.lar2rc",
                                                     "spectrum.linear_prediction.rc2is", "spectrum.linear_prediction.is2rc"])


def reject_task(fn):
    def run(tc):
        dom = tc.smt()
        I = tc.interp()
        hints = {"which": "reject-" + fn}

        def thunk(I):
            x = dom.input_array("x", 2, "float")
            I.st = dict(x=x)
            return I.call_qual("spectrum.linear_prediction." + fn, x)

        def post(P):
            x = P.interp.st["x"]
            big = V.b_or(V.s_cmp(">=", V.s_abs(x.at(0)), 1), V.s_cmp(">=", V.s_abs(x.at(1)), 1))
            if P.outcome == "raise":
                if P.value.exc == "ValueError":
                    P.prove("rejects-only-|k|>=1", big, replay=("scalar", hints))
                else:
                    P.fail("no-exception", "raises %s" % P.value.exc, replay=("scalar", hints))
            else:
                P.prove("accepts-only-|k|<1", V.b_not(big), replay=("scalar", hints))
        tc.run_paths(I, thunk, post)
    return Task("scalar.reject.%s" % fn, run, functions=["spectrum.linear_prediction." + fn])


def _horner(coeffs, z):
    acc = 0
    for c in coeffs:
        acc = acc * z + c
    return acc


def lsf2poly_task(p):
    """lsf2poly on p symbolic frequencies"""
    def run(tc):
        names = ["pi"] + ["w%d" % j for j in range(p)] + ["t%d" % j for j in range(p)]
        dom, I = e3_interp(tc, names)
        E = E3(tc, dom, "lsf", {"p": p}, tc.seed)
        for j in range(p):
            dom.angle("w%d" % j, "t%d" % j)
        w = [dom.sym("w%d" % j) for j in range(p)]
        z = [dom.elem("exp", Cx(Fraction(0), wj)) for wj in w]
        v = E.run(I, lambda I_: I_.call_qual("spectrum.linear_prediction.lsf2poly", Arr.from_items(w, dtype="float")))
        if v is None:
            return
        a = v.to_list()
        E.ok("lsf2poly:length=p+1", len(a) == p + 1, "length %d" % len(a))
        if len(a) != p + 1:
            return
        E.eq("lsf2poly:monic", a[0], 1)
        E.eq("lsf2poly:real-coefficients", [V.Cx.of(c).im for c in a], [0] * len(a))
        a1 = list(a) + [0]
        rev = a1[::-1]
        summ = [x + y for x, y in zip(a1, rev)]
        diff = [x - y for x, y in zip(a1, rev)]
        for j in range(p):
            if j % 2 == 0:
                E.eq("lsf2poly:sum-filter-vanishes-at-exp(i*w%d)" % j, V.Cx.of(_horner(summ, z[j])), Cx(Fraction(0), Fraction(0)))
            else:
                E.eq("lsf2poly:difference-filter-vanishes-at-exp(i*w%d)" % j, V.Cx.of(_horner(diff, z[j])), Cx(Fraction(0), Fraction(0)))
    return Task("lsf.lsf2poly.p%d" % p, run, kind="bounded", prerun=True, functions=["spectrum.linear_prediction.lsf2poly"])


def poly2lsf_task(p):
    """poly2lsf up to its calls of numpy.roots"""
    def run(tc):
        names = ["a%d" % j for j in range(1, p + 1)]
        dom, I = e3_interp(tc, names)
        E = E3(tc, dom, "lsf", {"p": p}, tc.seed)
        a = [Fraction(1)] + [dom.sym(n) for n in names]
        calls = []

        def roots(I_, c, **kw):
            c = c if isinstance(c, Arr) else Arr.from_items(list(c))
            calls.append(c.to_list())
            # first call = the minimum-phase guard (precondition: all roots inside the unit circle); later calls: recorded
            return Arr.from_items([Fraction(0)] * max(len(calls[-1]) - 1, 0), dtype="float")

        def angle(I_, r, **kw):
            return r
        I.lib.table["numpy.roots"] = roots
        I.lib.table["numpy.angle"] = angle
        v = E.run(I, lambda I_: I_.call_qual("spectrum.linear_prediction.poly2lsf", Arr.from_items(a, dtype="float")))
        if v is None:
            return
        E.ok("poly2lsf:three-root-computations(guard, P, Q)", len(calls) == 3, "%d calls of numpy.roots" % len(calls))
        if len(calls) != 3:
            return
        E.eq("poly2lsf:guard-on-the-input-polynomial", calls[0], a)
        a1 = a + [Fraction(0)]
        rev = a1[::-1]
        diff = [x - y for x, y in zip(a1, rev)]
        summ = [x + y for x, y in zip(a1, rev)]

        def mul(x, y):
            out = [0] * (len(x) + len(y) - 1)
            for i, u in enumerate(x):
                for j, w_ in enumerate(y):
                    out[i + j] = out[i + j] + u * w_
            return out
        if p % 2:
            E.eq("poly2lsf:P*(z^2-1)=difference-filter", mul(calls[1], [1, 0, -1]), diff)
            E.eq("poly2lsf:Q=sum-filter", calls[2], summ)
        else:
            E.eq("poly2lsf:P*(z-1)=difference-filter", mul(calls[1], [1, -1]), diff)
            E.eq("poly2lsf:Q*(z+1)=sum-filter", mul(calls[2], [1, 1]), summ)
        E.ok("poly2lsf:returns-p-frequencies", len(v if isinstance(v, list) else v.to_list()) == p)
    return Task("lsf.poly2lsf.p%d" % p, run, kind="bounded", prerun=True, functions=["spectrum.linear_prediction.poly2lsf"])


def tasks(tier):
    pmax = 4 if tier == "quick" else 6
    ts = []
    for cx in (False, True):
        for p in range(1, (pmax if not cx else pmax - 1) + 1):
            ts.append(lp_task(p, cx))
    # complex-typed sets in which one coefficient happens to be real-valued (a measure-zero slice of the generic complex runs)
    for (p, ri) in [(2, (1,)), (3, (1,)), (3, (2,))] + ([] if tier == "quick" else [(4, (1, 3)), (4, (2,))]):
        ts.append(lp_task(p, True, ri))
    for w in ("lar", "lar-inv", "is", "is-inv"):
        ts.append(scalar_task(w))
    ts += [reject_task("rc2lar"), reject_task("rc2is")]
    for p in range(1, (5 if tier == "quick" else 7) + 1):
        ts.append(lsf2poly_task(p))
        ts.append(poly2lsf_task(p))
    return ts
