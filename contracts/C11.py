"""C11  Linear-prediction representations convert losslessly into each other.

 E3 (exact algebra, bounded order; inputs parametrised by (r0, k1..kp), real and complex):
   rc2poly(k, r0) = ([1, stepup(k)], r0*prod(1-|k|^2));  poly2rc(that) = k;  rc2ac(k, r0) = ac(r0, k);
   ac2poly(ac) = rc2poly(k, r0);  ac2rc(ac) = (k, r0);  poly2ac(rc2poly(k, r0)) = ac;  levdown(levup(a, k)) = a
   -- every pair of representations, both directions, and the commuting squares
 E1 (all values): lar2rc(rc2lar(k)) = k, rc2lar(lar2rc(g)) = g, is2rc(rc2is(k)) = k, rc2is(is2rc(s)) = s on their domains;
   rc2lar / rc2is reject max|k| >= 1
 poly2lsf / lsf2poly (numpy.roots based) are not decidable by contracts: not claimed.
"""
from fractions import Fraction
from pyvc import values as V
from pyvc.values import Arr, Arr2, Cx
from pyvc.harness import Task
from .e3 import E3, e3_interp, stepup, ac_from_rc, names_for, ksyms

META = {
    "level": "other",
    "functions": ["spectrum.linear_prediction.{ac2poly,ac2rc,poly2ac,poly2rc,rc2poly,rc2ac,rc2lar,lar2rc,rc2is,is2rc}",
                  "spectrum.levinson.{LEVINSON,rlevinson,levup,levdown}"],
    "assumptions": ["A-REAL", "bounded in order (p <= 4 quick, 6 thorough), all values; L-PARAM (admissible parameter sets are exactly the "
                    "(r0, k) with r0 > 0, |k_i| < 1; the identities are proved as identities of Q(r0, k), i.e. wherever no divisor vanishes)",
                    "A-ELEM inverse pairs: tanh(arctanh t) = t, arctanh(tanh t) = t, sin(arcsin t) = t (|t|<=1), arcsin(sin t) = t (|t|<=pi/2)",
                    "poly2lsf / lsf2poly rely on numpy.roots / numpy.poly / deconvolve (iterative eigenvalue code): no contract in reach, "
                    "not claimed (clause-level not-applicable)"],
    "trusted_base": ["sympy.polys (exact rational-function arithmetic)"],
    "explanation": "Deductive, bounded in order: the real conversion routines are executed on elements of Q(r0, k) and each round trip / "
                   "commuting square is decided as an identity of that field (all values at once) for orders up to the bound; the "
                   "scalar bijections (log-area ratio, inverse sine) are proved for all values by the SMT engine with inverse-pair axioms.",
    "bounded_note": "orders p <= 4 quick / 6 thorough",
}


def lp_task(p, cx):
    def run(tc):
        dom, I = e3_interp(tc, names_for(p, cx))
        E = E3(tc, dom, "lp", {"p": p, "complex": cx}, tc.seed)
        ks = ksyms(dom, p, cx)
        r0 = dom.sym("r0")
        r, a, P = ac_from_rc(r0, ks)
        dt = "complex" if cx else "float"
        mk = lambda l: Arr.from_items(l, dtype=dt)
        one = Cx(Fraction(1), Fraction(0)) if cx else Fraction(1)
        poly = [one] + a
        LP = "spectrum.linear_prediction."
        v = E.run(I, lambda I_: I_.call_qual(LP + "rc2poly", mk(ks), r0))
        if v is not None:
            E.eq("rc2poly=[1,stepup(k)]", v[0], poly)
            E.eq("rc2poly:efinal=r0*prod(1-|k|^2)", v[1], P)
        if p >= 1:
            v = E.run(I, lambda I_: I_.call_qual(LP + "poly2rc", mk(poly), P))
            if v is not None:
                E.eq("poly2rc(rc2poly(k))=k", v, ks)
        v = E.run(I, lambda I_: I_.call_qual(LP + "rc2ac", mk(ks), r0))
        if v is not None:
            E.eq("rc2ac=ac(r0,k)", v, r)
        v = E.run(I, lambda I_: I_.call_qual(LP + "ac2poly", mk(r)))
        if v is not None:
            E.eq("ac2poly(rc2ac(k,r0))=rc2poly(k,r0)", v[0], poly)
            E.eq("ac2poly:efinal", v[1], P)
        v = E.run(I, lambda I_: I_.call_qual(LP + "ac2rc", mk(r)))
        if v is not None:
            E.eq("ac2rc(rc2ac(k,r0))=k", v[0], ks)
            E.eq("ac2rc:r0", v[1], r0)
        v = E.run(I, lambda I_: I_.call_qual(LP + "poly2ac", mk(poly), P))
        if v is not None:
            E.eq("poly2ac(rc2poly(k,r0))=rc2ac(k,r0)", v, r)
        # one step up and down
        if p >= 2:
            prev = [one] + stepup(ks[:-1])
            v = E.run(I, lambda I_: I_.call_qual("spectrum.levinson.levup", mk(prev), ks[-1], P))
            if v is not None:
                E.eq("levup(a_{p-1}, k_p)=a_p", v[0], poly)
                v2 = E.run(I, lambda I_: I_.call_qual("spectrum.levinson.levdown", mk(poly), P))
                if v2 is not None:
                    E.eq("levdown(levup(a,k))=a", v2[0], prev)
    return Task("lp.%s.p%d" % ("complex" if cx else "real", p), run, kind="bounded",
                functions=["spectrum.linear_prediction.*", "spectrum.levinson.rlevinson"])


def scalar_task(which):
    """E1: the scalar bijections on arrays of symbolic length"""
    def run(tc):
        dom = tc.smt()
        I = tc.interp()
        hints = {"which": which}
        tc.native = ("scalar", hints)
        LP = "spectrum.linear_prediction."

        def thunk(I):
            n = 3
            x = dom.input_array("x", n, "float")
            I.st = dict(x=x, n=n)
            if which in ("lar", "is"):
                for i in range(n):
                    I.assume(V.b_and(V.s_cmp(">", x.at(i), -1), V.s_cmp("<", x.at(i), 1)))
                f, g = ("rc2lar", "lar2rc") if which == "lar" else ("rc2is", "is2rc")
            elif which == "lar-inv":
                f, g = "lar2rc", "rc2lar"
            else:
                for i in range(n):
                    I.assume(V.b_and(V.s_cmp(">", x.at(i), -1), V.s_cmp("<", x.at(i), 1)))
                f, g = "is2rc", "rc2is"
            y = I.call_qual(LP + f, x)
            return I.call_qual(LP + g, y)

        def post(P):
            st = P.interp.st
            if P.outcome != "return":
                P.fail("no-exception", "raises %s on the open domain" % P.value.exc, replay=("scalar", hints))
                return
            i = P.skolem("i", 0, st["n"])
            P.prove("round-trip=identity", V.s_eq(P.value.at(i), st["x"].at(i)), replay=("scalar", hints))
        tc.run_paths(I, thunk, post)
    return Task("scalar.%s" % which, run, functions=["spectrum.linear_prediction.rc2lar", "spectrum.linear_prediction.lar2rc",
                                                     "spectrum.linear_prediction.rc2is", "spectrum.linear_prediction.is2rc"])


def reject_task(fn):
    def run(tc):
        dom = tc.smt()
        I = tc.interp()
        hints = {"which": "reject-" + fn}

        def thunk(I):
            x = dom.input_array("x", 2, "float")
            I.st = dict(x=x)
            return I.call_qual("spectrum.linear_prediction." + fn, x)

        def post(P):
            x = P.interp.st["x"]
            big = V.b_or(V.s_cmp(">=", V.s_abs(x.at(0)), 1), V.s_cmp(">=", V.s_abs(x.at(1)), 1))
            if P.outcome == "raise":
                if P.value.exc == "ValueError":
                    P.prove("rejects-only-|k|>=1", big, replay=("scalar", hints))
                else:
                    P.fail("no-exception", "raises %s" % P.value.exc, replay=("scalar", hints))
            else:
                P.prove("accepts-only-|k|<1", V.b_not(big), replay=("scalar", hints))
        tc.run_paths(I, thunk, post)
    return Task("scalar.reject.%s" % fn, run, functions=["spectrum.linear_prediction." + fn])


def tasks(tier):
    pmax = 4 if tier == "quick" else 6
    ts = []
    for cx in (False, True):
        for p in range(1, (pmax if not cx else pmax - 1) + 1):
            ts.append(lp_task(p, cx))
    for w in ("lar", "lar-inv", "is", "is-inv"):
        ts.append(scalar_task(w))
    ts += [reject_task("rc2lar"), reject_task("rc2is")]
    return ts
