"""C14  Covariance and modified-covariance AR fits are least-squares optimal (code half).

 lstsq-call.<method>.*   (E1, all N, p, data) arcovar / modcovar hand scipy's lstsq exactly the forward (and, for 'modified', the
                         conjugated backward) prediction problem of the statement: matrix -[x[n-1] .. x[n-p]], n = p..N-1, right-hand
                         side x[n]  (rows conj(x[n+1] .. x[n+p]) / conj(x[n]) for the backward half); by the library contract (A-LSQ)
                         the residual is then orthogonal to every regressor; the returned vector is lstsq's solution and
                         e = Re(X1^H X1 + X1^H Xc a)
 energy.<method>.*       (E3, bounded, certificate) with a kept symbolic: ||X1 + Xc a||^2 - e = Re sum_j conj(a_j) h_j, h = Xc^H (X1 + Xc a) the
                         normal equations -- so under them the returned error IS the minimum residual energy
 marple.*                (E3, bounded, whole run, real data) the fast recursions return coefficients satisfying the same normal equations and
                         the same minimum per sample: arcovar_marple N<=5,p<=2; modcovar_marple N<=5,p<=1
 place.pcovar/pmodcovar  class level
 recovery.*              (E3, bounded) exact recovery: for x[n] = sum_j c_j z_j^n with |z_j| = 1 the fitted polynomial vanishes at every z_j and the
                         returned error is 0 -- order 1 in full generality (arcovar, modcovar and both Marple recursions), order 2 with the first
                         component normalised to amplitude 1, frequency 0 (general case GIVEN scale invariance C03 and modulation covariance C04)
"""
from fractions import Fraction
from pyvc import values as V
from pyvc.values import Arr, Arr2, Cx
from pyvc.harness import Task
from . import classes
from .e3 import E3, e3_interp

F = Fraction
META = {
    "level": "other",
    "functions": ["spectrum.covar.arcovar", "spectrum.modcovar.modcovar", "spectrum.covar.arcovar_marple", "spectrum.modcovar.modcovar_marple",
                  "spectrum.linalg.corrmtx", "spectrum.covar.pcovar.__call__", "spectrum.modcovar.pmodcovar.__call__"],
    "assumptions": ["A-REAL", "A-LSQ: scipy.linalg.lstsq(A, b) returns x with A^H (A x - b) = 0 (the least-squares solution), len(x) = cols(A)",
                    "energy.* and marple.* are bounded in size (all values at those sizes); lstsq-call.* is unbounded",
                    "the Marple recursions are checked as whole runs on real data only, at tiny sizes (their 200-line order/time updates "
                    "admit no practical stage-wise invariant here): a weak, bounded cross-check of 'same coefficients, same minimum'",
                    "exact recovery (recovery.*): unit-modulus poles through the half-angle tangent (every frequency except pi), free complex amplitudes; "
                    "decided for p = 1 in general and for p = 2 with the first component normalised (amplitude 1, frequency 0), which loses no generality "
                    "only GIVEN scale invariance (C03) and modulation covariance (C04, itself bounded); p >= 3 gives no result within 150 s: not claimed"],
    "trusted_base": ["sympy.polys"],
    "explanation": "The least-squares problem handed to the library is proved (all sizes) to be the statement's; that the returned error is "
                   "the minimum is a polynomial certificate over the normal equations (bounded sizes); the fast recursions are cross-checked "
                   "by exact algebra at tiny sizes.",
    "bounded_note": "recovery: p <= 2, N <= 5.  quick: energy N <= 6, p <= 2; marple real N <= 5, p <= 2.  thorough: energy N <= 9, p <= 4; marple real N <= 6, p <= 2, complex N = 4, p = 1",
}


def call_task(method, datatype):
    fq = "spectrum.covar.arcovar" if method == "covariance" else "spectrum.modcovar.modcovar"

    def run(tc):
        dom = tc.smt()
        seen = {}
        I = tc.interp()

        def lstsq(I_, A, b, **kw):
            seen["A"], seen["b"] = A, b
            keys = dom.key_terms([A, b])
            sol = dom.opaque_array("LSQ", keys, A.c, "complex" if (A.dtype == "complex" or b.dtype == "complex") else "float")
            return (sol, Arr.from_items([]), A.c, Arr.from_items([]))
        I.lib.table["scipy.linalg.lstsq"] = lstsq
        hints = {"method": method, "datatype": datatype}
        tc.native = ("lsq", hints)

        def thunk(I):
            seen.clear()
            N = dom.input_int("N")
            p = dom.input_int("order")
            I.assume(V.s_cmp(">=", p, 1))
            I.assume(V.s_cmp(">=", N - p, p))
            x = dom.input_array("x", N, "complex" if datatype == "complex" else "float")
            I.st = dict(x=x, N=N, p=p)
            return I.call_qual(fq, x, p)

        def post(P):
            st = P.interp.st
            x, N, p = st["x"], st["N"], st["p"]
            if P.outcome == "raise" and P.value.exc == "AssertionError" and "A" in seen:
                # `assert e.imag < 1e-4`: under A-LSQ  Im(X1^H X1 + X1^H Xc a) = -Im sum_j conj(a_j) h_j = 0  (certificate
                # energy.*.complex.*:assert-holds); the opaque solution of this task carries no normal equations
                P.tc.notes.append("assert e.imag < 1e-4 cannot fire under A-LSQ (certificate in energy.*.complex.*)")
                return
            if P.outcome != "return":
                P.fail("no-exception", "raises %s" % P.value.exc, replay=("lsq", hints))
                return
            A, b = seen["A"], seen["b"]
            rows = (N - p) if method == "covariance" else 2 * (N - p)
            P.prove("lstsq:shape", V.b_and(V.b_and(V.s_eq(A.r, rows), V.s_eq(A.c, p)), V.s_eq(b.n, rows)), replay=("lsq", hints))
            sx = x.snap()
            i = P.skolem("i", 0, rows)
            j = P.skolem("j", 0, p)
            if method == "covariance":
                wantA = -sx(p + i - (j + 1))
                wantb = sx(p + i)
            else:
                fwd = V.s_cmp("<", i, N - p)
                ib = i - (N - p)
                wantA = V.s_ite(fwd, -V.Cx.of(sx(p + i - (j + 1))), -V.s_conj(V.Cx.of(sx(ib + j + 1))))
                wantb = V.s_ite(fwd, V.Cx.of(sx(p + i)), V.s_conj(V.Cx.of(sx(ib))))
            P.prove("lstsq:matrix=-regressors", V.s_eq(A.at(i, j), wantA), replay=("lsq", hints))
            P.prove("lstsq:rhs=target", V.s_eq(b.at(i), wantb), replay=("lsq", hints))
            a, e = P.value
            sol = lstsq(P.interp, A, b)[0]
            P.prove_arr_eq("returns-lstsq-solution", a, sol, replay=("lsq", hints))
            sa = sol.snap()
            sb = b.snap()
            sA = A.snap()
            # e = Re( X1^H X1 + X1^H Xc a ),  Xc = -A, X1 = b
            t1 = dom.sum(0, rows, lambda r_: V.s_conj(sb(r_)) * sb(r_))
            t2 = dom.sum(0, p, lambda c_: dom.sum(0, rows, lambda r_: V.s_conj(sb(r_)) * (-sA(r_, c_))) * sa(c_))
            P.prove("error=Re(X1^H X1 + X1^H Xc a)", V.s_eq(e, V.Cx.of(t1 + t2).re), replay=("lsq", hints))
        tc.run_paths(I, thunk, post)
    return Task("lstsq-call.%s.%s" % (method, datatype), run, functions=[fq])


def data_matrix(x, p, method):
    N = len(x)
    rows = [[x[n - j] for j in range(p + 1)] for n in range(p, N)]
    if method == "modified":
        rows += [[V.s_conj(x[n + j]) for j in range(p + 1)] for n in range(0, N - p)]
    return rows


def energy_task(method, N, p, cx):
    fq = "spectrum.covar.arcovar" if method == "covariance" else "spectrum.modcovar.modcovar"

    def run(tc):
        names = sum((["x%d_r" % j, "x%d_i" % j] if cx else ["x%d" % j] for j in range(N)), [])
        names += sum((["a%d_r" % j, "a%d_i" % j] if cx else ["a%d" % j] for j in range(p)), [])
        dom, I = e3_interp(tc, names)
        E = E3(tc, dom, "lsq", {"method": method, "N": N, "p": p, "complex": cx}, tc.seed)
        x = [dom.csym("x%d" % j) if cx else dom.sym("x%d" % j) for j in range(N)]
        a = [dom.csym("a%d" % j) if cx else dom.sym("a%d" % j) for j in range(p)]

        def lstsq(I_, A, b, **kw):
            return (Arr.from_items(list(a), dtype="complex" if cx else "float"), Arr.from_items([]), p, Arr.from_items([]))
        I.lib.table["scipy.linalg.lstsq"] = lstsq
        asserted = []
        real_cmp = dom.cmp

        def cmp(op, u, w):
            if dom.in_assert:
                asserted.append((op, u, w))
            return real_cmp(op, u, w)
        dom.cmp = cmp
        v = E.run(I, lambda I_: I_.call_qual(fq, Arr.from_items(x, dtype="complex" if cx else "float"), p))
        if v is None:
            return
        a_ret, e = v
        E.eq("returns-lstsq-solution", a_ret, a)
        X = data_matrix(x, p, method)
        res = [row[0] + sum((row[j + 1] * a[j] for j in range(p)), 0) for row in X]
        energy = sum((V.s_abs2(r_) for r_ in res), 0)
        cert = 0
        for j in range(p):
            h = sum((V.s_conj(row[j + 1]) * r_ for row, r_ in zip(X, res)), 0)       # normal equation j
            cert = cert + V.s_conj(a[j]) * h
        E.eq("returned-error=min-energy [||X1+Xc a||^2 - e = Re sum conj(a_j) h_j]", energy - e, V.Cx.of(cert).re)
        for (op, u, w) in asserted:
            # the asserted quantity vanishes under the normal equations and the assertion holds for 0
            E.eq("assert-holds:lhs = -Im sum conj(a_j) h_j", u, -V.Cx.of(cert).im)
            E.ok("assert-holds:0 %s bound" % op, V.is_conc(w) and {"<": 0 < w, "<=": 0 <= w, ">": 0 > w, ">=": 0 >= w}.get(op, False))
    return Task("energy.%s.%s.N%d.p%d" % (method, "complex" if cx else "real", N, p), run, kind="bounded", prerun=True, functions=[fq])


def marple_task(method, N, p, cx=False):
    fq = "spectrum.covar.arcovar_marple" if method == "covariance" else "spectrum.modcovar.modcovar_marple"

    def run(tc):
        names = sum((["x%d_r" % j, "x%d_i" % j] if cx else ["x%d" % j] for j in range(N)), [])
        dom, I = e3_interp(tc, names)
        E = E3(tc, dom, "marple", {"method": method, "N": N, "p": p, "complex": cx}, tc.seed)
        x = [dom.csym("x%d" % j) if cx else dom.sym("x%d" % j) for j in range(N)]
        v = E.run(I, lambda I_: I_.call_qual(fq, Arr.from_items(x, dtype="complex" if cx else "float"), p))
        if v is None:
            return
        af = v[0].to_list()[:p]
        pf = v[1]
        X = data_matrix(x, p, method)
        res = [row[0] + sum((row[j + 1] * af[j] for j in range(p)), 0) for row in X]
        for j in range(p):
            h = sum((V.s_conj(row[j + 1]) * r_ for row, r_ in zip(X, res)), 0)
            E.eq("fast-recursion:normal-equation-%d" % j, h, 0)
        energy = sum((V.s_abs2(r_) for r_ in res), 0)
        E.eq("fast-recursion:minimum-per-sample", pf, V.s_div(V.Cx.of(energy).re if isinstance(energy, Cx) else energy, len(X)))
    return Task("marple.%s.%s.N%d.p%d" % (method, "complex" if cx else "real", N, p), run, kind="bounded", prerun=True, timeout=300, functions=[fq])


def recovery_task(method, p, N, fast=False, normalised=False):
    """noiseless sum of p complex exponentials x[n] = sum_j c_j z_j^n, |z_j| = 1 (z_j = exp(i w_j) through the half-angle tangent,
    c_j free complex amplitudes): the fitted polynomial z^p + a_1 z^{p-1} + .. + a_p vanishes at every z_j and the returned error is 0
    -- exact recovery of the p frequencies.  The real arcovar / modcovar with the exact least-squares solve (A-LSQ made executable),
    or the real Marple recursion (fast=True)."""
    if fast:
        fq = "spectrum.covar.arcovar_marple" if method == "covariance" else "spectrum.modcovar.modcovar_marple"
    else:
        fq = "spectrum.covar.arcovar" if method == "covariance" else "spectrum.modcovar.modcovar"

    def run(tc):
        # normalised: the first component has amplitude 1 and frequency 0.  No loss of generality GIVEN two other properties:
        # the fit is invariant under a complex scale factor (C03) and a modulation rotates all poles together (C04)
        first = 1 if normalised else 0
        names = sum((["w%d" % j, "t%d" % j, "c%d_r" % j, "c%d_i" % j] for j in range(first, p)), [])
        dom, I = e3_interp(tc, names)
        E = E3(tc, dom, "recovery", {"method": method, "p": p, "N": N, "fast": fast}, tc.seed)
        z, c = [], []
        if normalised:
            z.append(Cx(F(1), F(0)))
            c.append(Cx(F(1), F(0)))
        for j in range(first, p):
            dom.angle("w%d" % j, "t%d" % j)
            z.append(dom.elem("exp", Cx(F(0), dom.sym("w%d" % j))))
            c.append(dom.csym("c%d" % j))

        def zpow(u, n):
            r = Cx(F(1), F(0))
            for _ in range(n):
                r = r * u
            return r
        x = [sum((c[j] * zpow(z[j], n) for j in range(p)), Cx(F(0), F(0))) for n in range(N)]
        v = E.run(I, lambda I_: I_.call_qual(fq, Arr.from_items(list(x), dtype="complex"), p))
        if v is None:
            return
        a = v[0].to_list()[:p]
        E.ok("returns-p-coefficients", len(a) == p, "length %d" % len(a))
        if len(a) != p:
            return
        for j in range(p):
            val = zpow(z[j], p)
            for k in range(p):
                val = val + V.Cx.of(a[k]) * zpow(z[j], p - 1 - k)
            E.eq("polynomial-vanishes-at-exp(i*w%d)" % j, val, Cx(F(0), F(0)))
        E.eq("returned-error=0", V.Cx.of(v[1]), Cx(F(0), F(0)))
    return Task("recovery.%s%s%s.p%d.N%d" % (method, ".marple" if fast else "", ".normalised" if normalised else "", p, N), run, kind="bounded", prerun=True, timeout=200, functions=[fq])


def tasks(tier):
    ts = []
    for method in ("covariance", "modified"):
        for fast in (False, True):
            ts.append(recovery_task(method, 1, 3, fast))
        ts.append(recovery_task(method, 2, 4, False, normalised=True))
        if tier == "thorough":
            ts.append(recovery_task(method, 1, 4, False))
            ts.append(recovery_task(method, 2, 5, False, normalised=True))
            ts.append(recovery_task(method, 2, 5, True, normalised=True))
    for method in ("covariance", "modified"):
        for dt in ("real", "complex"):
            ts.append(call_task(method, dt))
        for cx in (False, True):
            ts.append(energy_task(method, 5, 1, cx))
            ts.append(energy_task(method, 6, 2, cx))
    ts.append(marple_task("covariance", 4, 1))
    ts.append(marple_task("covariance", 5, 2))
    ts.append(marple_task("modified", 4, 1))
    if tier == "thorough":
        for method in ("covariance", "modified"):
            for cx in (False, True):
                ts.append(energy_task(method, 8, 3, cx))
                ts.append(energy_task(method, 9, 4, cx))
        ts.append(marple_task("covariance", 4, 1, True))
        ts.append(marple_task("covariance", 6, 2))
        # covariance real N6 p3 and complex N5 p2 swell beyond reach in Q(x) (no result after 100 s): not attempted
        ts.append(marple_task("modified", 4, 1, True))
        ts.append(marple_task("modified", 5, 2))
        ts.append(marple_task("modified", 6, 2))
    for dt in ("real", "complex"):
        ts.append(classes.place_task("pcovar", dt))
        ts.append(classes.place_task("pmodcovar", dt))
    return ts
