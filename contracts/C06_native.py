"""native (numpy) oracles for C06 replays -- the statement's conversion, written directly"""
import numpy as np
from .native_common import Skip, num, arr, close, rand_arr


def conv(p, src, dst, N):
    p = np.asarray(p, dtype=float)
    h = N // 2
    if src == dst:
        return p
    if src == "onesided":
        two = np.zeros(N)
        for k in range(N):
            m = min(k, N - k)
            if k == 0:
                two[k] = p[0]
            elif N % 2 == 0 and k == h:
                two[k] = p[h]
            else:
                two[k] = p[m] / 2.0
    elif src == "centerdc":
        two = np.array([p[(k + h) % N] for k in range(N)])
    else:
        two = p
    if dst == "twosided":
        return two
    if dst == "centerdc":
        return np.array([two[(a - h) % N] for a in range(N)])
    one = np.zeros(h + 1)
    for k in range(h + 1):
        if k == 0:
            one[k] = two[0]
        elif N % 2 == 0 and k == h:
            one[k] = two[h]
        else:
            one[k] = two[k] + two[N - k]
    return one


def nlen(sides, N):
    return N // 2 + 1 if sides == "onesided" else N


def tool(inp):
    import spectrum.tools as T
    fn = inp["fn"]
    x = arr(inp["x"])
    if fn == "cshift":
        k = int(inp["k"])
        got = T.cshift(x, k)
        n = len(x)
        want = np.array([x[(i - k) % n] for i in range(n)])
        return close(got, want), "cshift(%s, %d) = %s, expected %s" % (x.tolist(), k, np.asarray(got).tolist(), want.tolist())
    if fn == "onesided_2_twosided":
        N = 2 * (len(x) - 1)
        want = conv(x, "onesided", "twosided", N)
    elif fn == "twosided_2_onesided":
        N = len(x)
        x = x.copy()
        for k in range(1, N):          # precondition: symmetric two-sided PSD of real data
            x[N - k] = x[k]
        want = conv(x, "twosided", "onesided", N)
    elif fn == "twosided_2_centerdc":
        want = conv(x, "twosided", "centerdc", len(x))
    elif fn == "centerdc_2_twosided":
        want = conv(x, "centerdc", "twosided", len(x))
    got = getattr(T, fn)(x)
    return close(got, want), "%s(%s) = %s, expected %s" % (fn, x.tolist(), np.asarray(got).tolist(), want.tolist())


def _mk_spectrum(N, src, psd, datatype, fs=1.0):
    from spectrum.psd import Spectrum
    data = np.ones(4) if datatype == "real" else np.ones(4) + 0j
    s = Spectrum(data, sampling=fs, NFFT=N)
    # put the object in the state `sides == src, psd == psd` the way the library does it
    s._Spectrum__psd = np.array(psd, dtype=float)
    s._Spectrum__sides = src
    s.modified = False
    return s


def convert(inp):
    N = int(inp["NFFT"])
    src, dst, datatype = inp["src"], inp["dst"], inp["datatype"]
    psd = arr(inp["psd"])
    if len(psd) != nlen(src, N):
        raise Skip("psd length does not match")
    if dst == "onesided":
        # admissible source: the image of a one-sided vector (real data)
        two = conv(psd, src, "twosided", N)
        for k in range(1, N):
            two[N - k] = two[k] if k <= N - k else two[N - k]
        for k in range(1, N):
            two[N - k] = two[k]
        psd = conv(two, "twosided", src, N)
    fs = num(inp.get("sampling", 1.0))
    s = _mk_spectrum(N, src, psd, datatype, fs)
    want = conv(psd, src, dst, N)
    if inp.get("setter"):
        s.sides = dst
        got = s._Spectrum__psd
    else:
        got = np.array(s.get_converted_psd(dst))
        # frame: a read-only conversion leaves the stored PSD and sides alone, so asking again gives the same answer
        stored = np.asarray(s._Spectrum__psd)
        if s._Spectrum__sides != src or len(stored) != len(psd) or not close(stored, psd):
            return False, "NFFT=%d get_converted_psd(%r) on a %s object changed the stored PSD: %s -> %s" % (
                N, dst, src, np.asarray(psd).tolist(), stored.tolist())
        again = np.array(s.get_converted_psd(dst))
        if not close(again, got):
            return False, "NFFT=%d get_converted_psd(%r) twice on a %s object: %s then %s" % (N, dst, src, got.tolist(), again.tolist())
    nf = len(s.frequencies(dst))
    ok = close(got, want) and len(np.asarray(got)) == nf
    return ok, "NFFT=%d %s->%s psd=%s: got %s (frequencies: %d), expected %s" % (
        N, src, dst, np.asarray(psd).tolist(), np.asarray(got).tolist(), nf, want.tolist())


def axis(inp):
    N = int(inp["NFFT"])
    fs = num(inp.get("sampling", 1.0))
    sides = inp["sides"]
    if inp.get("after_set"):
        # built with another sampling frequency, then assigned through the real setter
        s = _mk_spectrum(N, sides, np.zeros(nlen(sides, N)), "real", 3.0 * fs + 1.0)
        s.sampling = fs
    else:
        s = _mk_spectrum(N, sides, np.zeros(nlen(sides, N)), "real", fs)
    got = np.array(s.frequencies(sides))
    df = fs / N
    want = np.array([(i - N // 2) * df if sides == "centerdc" else i * df for i in range(nlen(sides, N))])
    return close(got, want), "frequencies(%s) NFFT=%d: got %s expected %s" % (sides, N, got.tolist(), want.tolist())


def refuse(inp):
    """complex data: asking for 'onesided' is refused and leaves the object alone; if it is served, going back must restore the
    original values exactly (it cannot: the one-sided vector is shorter)"""
    src, setter = inp.get("src", "twosided"), bool(inp.get("setter"))
    for N in (int(inp.get("NFFT", 8)), 8, 9):
        if N < 3:
            continue
        psd = np.arange(1, N + 1, dtype=float) ** 2
        s = _mk_spectrum(N, src, psd, "complex")
        try:
            if setter:
                s.sides = "onesided"
                got = s._Spectrum__psd
            else:
                got = s.get_converted_psd("onesided")
        except (AssertionError, ValueError, Exception) as e:     # refused
            same = s._Spectrum__sides == src and close(s._Spectrum__psd, psd)
            if not same:
                return False, "NFFT=%d %s->onesided refused (%s) but the object was modified" % (N, src, type(e).__name__)
            continue
        got = np.asarray(got)
        return False, "NFFT=%d complex data, %s->onesided was served: %s (power %.6g) from %s (power %.6g); %d values cannot restore %d" % (
            N, src, got.tolist(), float(np.sum(got)), psd.tolist(), float(np.sum(psd)), len(got), len(psd))
    return True, "complex data: 'onesided' requests are refused and the object is left unchanged"


NATIVE = {"tool": tool, "convert": convert, "axis": axis, "refuse": refuse}


def _s_tool(rng, hints):
    fn = hints["fn"]
    n = rng.choice([2, 3, 4, 5, 6, 7, 8, 9])
    if fn == "twosided_2_onesided":
        n = rng.choice([2, 4, 6, 8])
    d = {"fn": fn, "x": rand_arr(rng, n, lo=0.5, hi=9.0)}
    if fn == "cshift":
        d["k"] = rng.randint(-12, 12)
    return d


def _s_convert(rng, hints):
    N = rng.choice([2, 3, 4, 5, 6, 7, 8, 9, 10, 11])
    d = dict(hints)
    d["NFFT"] = N
    d["psd"] = rand_arr(rng, nlen(hints["src"], N), lo=0.5, hi=9.0)
    d["sampling"] = rng.choice([1.0, 2.0, 0.5, 1000.0])
    return d


def _s_axis(rng, hints):
    d = dict(hints)
    d["NFFT"] = rng.choice(range(1, 13))
    d["sampling"] = rng.choice([1.0, 2.0, 0.5, 1000.0])
    return d


SEARCH = {"tool": _s_tool, "convert": _s_convert, "axis": _s_axis, "refuse": (lambda rng, h: dict(h, NFFT=rng.choice([4, 5, 8, 9, 16])))}
