"""helpers for the native (numpy) oracles used by replays; runs under /venv/bin/python"""
from fractions import Fraction
import numpy as np


class Skip(Exception):
    pass


def num(v):
    if isinstance(v, (int, float)):
        return float(v)
    if isinstance(v, str):
        try:
            return float(Fraction(v))
        except Exception:
            return float(v.rstrip("?"))
    raise Skip("not a number: %r" % (v,))


def arr(d):
    if isinstance(d, dict):
        if d.get("too_long") or "error" in d:
            raise Skip("array not concretised")
        if "rows" in d:
            rows = d["rows"]
            if d["dtype"] == "complex":
                return np.array([[complex(num(a), num(b)) for a, b in r] for r in rows])
            return np.array([[num(a) for a in r] for r in rows])
        vals = d["values"]
        if d["dtype"] == "complex":
            return np.array([complex(num(a), num(b)) for a, b in vals], dtype=complex)
        if d["dtype"] == "int":
            return np.array([int(num(a)) for a in vals], dtype=int)
        return np.array([num(a) for a in vals], dtype=float)
    return np.array(d)


def close(a, b, tol=1e-9):
    a = np.asarray(a)
    b = np.asarray(b)
    if a.shape != b.shape:
        return False
    if a.size == 0:
        return True
    scale = max(1.0, float(np.max(np.abs(b))), float(np.max(np.abs(a))))
    if not (np.all(np.isfinite(a)) and np.all(np.isfinite(b))):
        return False
    return bool(np.max(np.abs(a - b)) <= tol * scale)


def rand_arr(rng, n, dtype="float", lo=-2.0, hi=2.0):
    if dtype == "complex":
        return {"dtype": "complex", "values": [[round(rng.uniform(lo, hi), 3), round(rng.uniform(lo, hi), 3)] for _ in range(n)]}
    return {"dtype": dtype, "values": [round(rng.uniform(lo, hi), 3) for _ in range(n)]}
