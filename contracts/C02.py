"""C02  Every estimator puts spectral values on the frequency axis it reports.

 frequencies.*   Range / Spectrum.frequencies: k*sampling/NFFT (one- and two-sided), (a - NFFT//2)*sampling/NFFT (centred),
                 NFFT//2+1 | (NFFT+1)//2 | NFFT entries
 place.K.*       for each of the 12 classes, real and complex data, every NFFT (both parities): the PSD is real,
                 len(psd) = len(frequencies()), and psd[i] = (folding constant) x (functional estimate at the
                 frequency reported for index i); exposed .ar/.ma/.rho/.reflection/.eigenvalues are the estimator outputs
 arma2psd / speriodogram / CORRELOGRAMPSD / minvar / eigen
                 the functional estimates themselves sit on the grid k/NFFT (eigen: on the centred grid), proved on
                 the real bodies against DTFT formulas
 The tone-peak clause is not decidable by contracts (level_note).
"""
from . import funcs, classes, model
from .C06 import axis_task, SIDES
from .C08 import arma2psd_task

META = {
    "level": "proof",
    "functions": ["spectrum.psd.Range.*", "spectrum.psd.Spectrum.frequencies", "spectrum.arma.arma2psd", "spectrum.periodogram.speriodogram",
                  "spectrum.correlog.CORRELOGRAMPSD", "spectrum.minvar.minvar", "spectrum.eigenfre.eigen"] +
                 [c["q"] + ".__call__" for c in model.CLASSES.values()],
    "assumptions": ["A-REAL; A-PY; A-DFT (fft = DTFT on the grid k/n; periodisation identity, premises proved per use)",
                    "A-SVD: numpy.linalg.svd is a deterministic function of the matrix returning (U, S, Vh)",
                    "arburg/aryule/arcovar/modcovar/arma_estimate/ma/pmtm enter by shape contracts (C12-C15, C19)",
                    "eigen(): bounded in the order P (P <= 4) and unbounded in N, NFFT and data",
                    "real data: MUSIC/EV one-sided values are the mirrored negative-frequency half (symmetric for real data by "
                    "DFT conjugate symmetry, not re-proved)",
                    "'a dominant tone peaks at its bin' is estimator mathematics, not a contract on the code: not claimed"],
    "trusted_base": [],
}


def tasks(tier):
    ts = [axis_task(s) for s in SIDES] + [axis_task(s, True) for s in SIDES]
    for c in model.CLASSES:
        for dt in ("real", "complex"):
            ts.append(classes.place_task(c, dt))
    for which in ("A", "B", "AB"):
        for dt in ("float", "complex"):
            ts.append(arma2psd_task(which, dt))
    for dt in ("real", "complex"):
        ts.append(funcs.speriodogram_task("C02", dt, "int"))
        ts.append(funcs.correlogram_task(dt, "xcorr"))
        ts.append(funcs.minvar_task(dt))
        for method in ("music", "ev"):
            ts.append(funcs.eigen_task(dt, method, 2, 1))
            ts.append(funcs.eigen_task(dt, method, 3, 1))
        if tier == "thorough":
            ts.append(funcs.eigen_task(dt, "music", 4, 2))
            ts.append(funcs.eigen_task(dt, "ev", 4, 1))
    return ts
