"""native oracles for C12 replays"""
import numpy as np
from .native_common import Skip, close
from .C13_native import _x
from .native_funcs import NATIVE as _N, SEARCH as _S


def aryule(inp):
    import spectrum
    from spectrum.correlation import CORRELATION
    cx = bool(inp.get("complex")) or inp.get("datatype") == "complex"
    for (N, p, seed) in ((int(inp.get("N", 16)), int(inp.get("p", 3)), 1), (30, 6, 2), (8, 2, 3)):
        if p >= N:
            continue
        x = _x(N, cx, seed)
        a, P, k = spectrum.aryule(x, p)
        r = CORRELATION(x, maxlags=p, norm="biased")
        rr = np.array([np.sum(x[kk:] * np.conj(x[:N - kk])) / N for kk in range(p + 1)])
        if not close(r, rr, 1e-10):
            return False, "biased autocorrelation differs from its definition"
        T = np.array([[rr[i - j] if i >= j else np.conj(rr[j - i]) for j in range(p + 1)] for i in range(p + 1)])
        lhs = T @ np.concatenate(([1.0], a))
        if not close(lhs, np.concatenate(([P], np.zeros(p))), 1e-9):
            return False, "Yule-Walker equations violated: T(r)[1,a] = %s, P = %r" % (np.round(lhs, 5), P)
        if np.any(np.abs(k) >= 1) or not P > 0:
            return False, "reflection coefficient >= 1 or P <= 0"
    return True, "aryule satisfies the normal equations of the biased sample autocorrelation"


def gram(inp):
    import spectrum
    from spectrum.correlation import CORRELATION
    cx = bool(inp.get("complex"))
    N, m = int(inp.get("N", 9)), int(inp.get("m", 3))
    x = _x(N, cx, 5)
    C = spectrum.corrmtx(x, m, "autocorrelation")
    r = CORRELATION(x, maxlags=m, norm="biased")
    T = np.array([[r[i - j] if i >= j else np.conj(r[j - i]) for j in range(m + 1)] for i in range(m + 1)])
    G = C.conj().T @ C
    return close(G, N * T, 1e-9), "Gram identity max|diff| %.3g" % float(np.max(np.abs(G - N * T)))


def lpc(inp):
    """real data: lpc returns the Yule-Walker (biased autocorrelation) coefficients"""
    import spectrum
    from spectrum.lpc import lpc as _lpc
    m0, p0 = int(inp.get("N", 8)), int(inp.get("p", 3))
    sizes = [(m0, p0)] + [(m, p) for m in range(3, 34) for p in (1, 2, 3, 4, 8, 15) if p < m]
    for (m, p) in sizes:
        if p >= m:
            continue
        x = _x(m, False, 7 + m)
        a, e = _lpc(x.copy(), p)
        ay, P, _k = spectrum.aryule(x, p, "biased")
        if not close(np.asarray(a), np.asarray(ay), 1e-8):
            return False, "lpc(x, %d) != aryule(x, %d) for real data of length %d: max|diff| = %.3g" % (
                p, p, m, float(np.max(np.abs(np.asarray(a) - np.asarray(ay)))))
    return True, "lpc coefficients equal the Yule-Walker coefficients (lengths 3..33)"


def pyule_norm(inp):
    """a pyule object built without an explicit norm models the BIASED autocorrelation; an explicit norm is the one used"""
    import spectrum
    for cx in (False, True):
        x = _x(20, cx, 9)
        for given in (None, "biased", "unbiased"):
            p = spectrum.pyule(x, 3) if given is None else spectrum.pyule(x, 3, norm=given)
            p()
            a, P, k = spectrum.aryule(x, 3, given or "biased")
            if not close(np.asarray(p.ar), np.asarray(a), 1e-10):
                return False, "pyule(x, 3%s).ar is not aryule(x, 3, %r): max|diff| %.3g" % (
                    "" if given is None else ", norm=%r" % given, given or "biased", float(np.max(np.abs(np.asarray(p.ar) - np.asarray(a)))))
    return True, "pyule forwards its norm; the default is 'biased'"


def ls_autocorr(inp):
    """least squares on corrmtx(x, p, 'autocorrelation') gives the Yule-Walker (biased) coefficients"""
    import spectrum
    cx = bool(inp.get("complex"))
    for (N, p, seed) in ((int(inp.get("N", 12)), int(inp.get("p", 3)), 1), (30, 6, 2), (9, 2, 3)):
        if p >= N:
            continue
        x = _x(N, cx, seed)
        C = np.asarray(spectrum.corrmtx(x, p, "autocorrelation"))
        ls = np.linalg.lstsq(C[:, 1:], -C[:, 0], rcond=None)[0]
        a = np.asarray(spectrum.aryule(x, p, "biased")[0])
        if not close(ls, a, 1e-8):
            return False, "least squares on the autocorrelation matrix differs from aryule (N=%d, p=%d): max|diff| %.3g" % (N, p, float(np.max(np.abs(ls - a))))
    return True, "least squares on the 'autocorrelation' data matrix = Yule-Walker coefficients"


NATIVE = dict(_N)
NATIVE.update({"aryule": aryule, "gram": gram, "lpc": lpc, "pyule_norm": pyule_norm, "ls_autocorr": ls_autocorr})
SEARCH = dict(_S)
SEARCH.update({k: (lambda rng, h: dict(h)) for k in ("aryule", "gram", "lpc", "pyule_norm", "ls_autocorr")})
