"""C17  MUSIC / EV expose the data-matrix spectrum (code half).

 validate.*      eigen(): NSIG together with threshold raises; NSIG < 0 and NSIG >= P raise; an unknown method raises;
                 otherwise the SVD is reached -- for symbolic N, P, NSIG (unbounded)
 datamatrix.*    the matrix handed to the SVD is the forward-backward matrix of the statement:
                 FB[I,K] = x[I-K+P-1], FB[I+NP,K] = conj(x[I+K+1]), 0 <= I < NP = N-P, 0 <= K < P (symbolic N, P)
 criterion.*     _get_signal_space consults AIC/MDL only when neither NSIG nor threshold is given
 eigen.*         pseudo-spectrum = 1/sum_{I>=NSIG} |DTFT(v_I, f)|^2 (/S_I for EV) on the centred axis, singular values
                 returned unchanged (bounded in P)
 place.pmusic/pev.*  class level placement on the reported axis
 Not decidable by contracts: location of the K largest maxima, numerical rank (level_note).
"""
from fractions import Fraction
from pyvc import values as V
from pyvc.values import Arr, Arr2, Cx
from pyvc.harness import Task
from pyvc.interp import RaiseSig
from . import funcs, classes, specs

META = {
    "level": "proof",
    "functions": ["spectrum.eigenfre.eigen", "spectrum.eigenfre._get_signal_space", "spectrum.eigenfre.pmusic.__call__",
                  "spectrum.eigenfre.pev.__call__", "spectrum.eigenfre.music", "spectrum.eigenfre.ev"],
    "assumptions": ["A-REAL; A-PY; A-DFT; A-SVD (svd is a deterministic function of the matrix; singular values non-increasing, "
                    "row i of Vh = conjugate of the i-th right singular vector)",
                    "positivity: the pseudo-spectrum is the reciprocal of a sum of squared moduli (divided by singular values "
                    "> 0 for EV), read off the proved formula",
                    "'the K largest maxima lie at the true frequencies' and 'exactly K singular values are non-negligible' are "
                    "subspace theory / numerical rank: not claimed",
                    "eigen.* obligations are bounded in the order P (2, 3; 4 thorough); validate/datamatrix are unbounded"],
    "trusted_base": [],
}


class Checkpoint(Exception):
    pass


def validate_task(datatype, with_threshold):
    def run(tc):
        dom = tc.smt()
        I = tc.interp()
        hints = {"datatype": datatype, "with_threshold": with_threshold}
        tc.native = ("validate", hints)
        holder = {}

        def svd_checkpoint(I_, A, *a, **k):
            holder["FB"] = A
            raise RaiseSig("__svd_reached__")
        I.lib.table["numpy.linalg.svd"] = svd_checkpoint

        def thunk(I):
            N = dom.input_int("N")
            P_ = dom.input_int("P")
            nsig = dom.input_int("NSIG")
            n = dom.input_int("NFFT")
            I.assume(V.s_cmp(">=", P_, 1))
            I.assume(V.s_cmp(">=", N, P_ + 1))
            I.assume(V.s_cmp(">=", n, 1))
            x = dom.input_array("x", N, "complex" if datatype == "complex" else "float")
            thr = dom.input_real("threshold") if with_threshold else None
            I.st = dict(N=N, P=P_, nsig=nsig, x=x)
            holder.clear()
            return I.call_qual("spectrum.eigenfre.eigen", x, P_, nsig, "music", thr, n)

        def post(P):
            st = P.interp.st
            N, P_, nsig, x = st["N"], st["P"], st["nsig"], st["x"]
            exc = P.value.exc if P.outcome == "raise" else None
            bad = V.b_or(V.s_cmp("<", nsig, 0), V.s_cmp(">=", nsig, P_))
            if with_threshold:
                if exc == "ValueError":
                    P.ok("NSIG+threshold-rejected")
                else:
                    P.fail("NSIG+threshold-rejected", "NSIG and threshold given together: outcome %s" % (exc or "return"),
                           replay=("validate", hints))
                return
            if exc == "ValueError":
                P.prove("rejects-only-out-of-range-NSIG", bad, replay=("validate", hints))
            elif exc == "AssertionError":
                P.prove("assert-only-when-too-few-rows", V.s_cmp("<=", 2 * (N - P_), P_ - 1), replay=("validate", hints))
            elif exc == "__svd_reached__":
                P.prove("accepts-only-in-range-NSIG", V.b_not(bad), replay=("validate", hints))
                FB = holder.get("FB")
                NP = N - P_
                if not isinstance(FB, Arr2):
                    P.fail("datamatrix.shape", "svd argument is not a matrix", replay=("datamatrix", hints))
                    return
                P.prove("datamatrix.shape", V.b_and(V.s_eq(FB.r, 2 * NP), V.s_eq(FB.c, P_)), replay=("datamatrix", hints))
                i = P.skolem("I", 0, NP)
                k = P.skolem("K", 0, P_)
                sx = x.snap()
                P.prove("datamatrix.forward", V.s_eq(FB.at(i, k), V.Cx.of(sx(i - k + P_ - 1))), replay=("datamatrix", hints))
                P.prove("datamatrix.backward", V.s_eq(FB.at(i + NP, k), V.s_conj(V.Cx.of(sx(i + k + 1)))), replay=("datamatrix", hints))
            else:
                P.fail("outcome", "unexpected outcome %s" % (exc or "return"), replay=("validate", hints))
        tc.run_paths(I, thunk, post)
    return Task("validate.%s.%s" % (datatype, "NSIG+threshold" if with_threshold else "NSIG"), run,
                functions=["spectrum.eigenfre.eigen"])


def method_task():
    def run(tc):
        dom = tc.smt()
        I = tc.interp()

        def thunk(I):
            N = dom.input_int("N")
            I.assume(V.s_cmp(">=", N, 8))
            x = dom.input_array("x", N, "float")
            return I.call_qual("spectrum.eigenfre.eigen", x, 3, 1, "capon", None, 16)

        def post(P):
            if P.outcome == "raise" and P.value.exc == "ValueError":
                P.ok("unknown-method-rejected")
            else:
                P.fail("unknown-method-rejected", "method='capon' accepted", replay=("validate", {"method": "capon"}))
        tc.run_paths(I, thunk, post)
    return Task("validate.method", run, functions=["spectrum.eigenfre.eigen"])


def criterion_task(case):
    """_get_signal_space: the criterion is consulted only when both NSIG and threshold are None"""
    def run(tc):
        dom = tc.smt()
        called = []

        def crit(I_, S, N):
            called.append(1)
            return [Fraction(3), Fraction(1), Fraction(2)]
        I = tc.interp(stubs={"spectrum.criteria.aic_eigen": crit, "spectrum.criteria.mdl_eigen": crit})

        def thunk(I):
            del called[:]
            S = dom.input_array("S", 4, "float")
            nsig = dom.input_int("NSIG") if case == "NSIG" else None
            return I.call_qual("spectrum.eigenfre._get_signal_space", S, 20, False, None, nsig, "aic")

        def post(P):
            if P.outcome != "return":
                P.fail("no-exception", "raises %s" % P.value.exc)
                return
            if case == "NSIG":
                if called:
                    P.fail("criterion-not-consulted", "AIC evaluated although NSIG was given")
                else:
                    P.ok("criterion-not-consulted")
                P.prove("returns-NSIG", V.s_eq(P.value, dom.named_int("NSIG")))
            else:
                if called:
                    P.ok("criterion-consulted")
                else:
                    P.fail("criterion-consulted", "AIC not evaluated")
                P.prove("argmin+1", V.s_eq(P.value, 2))
        tc.run_paths(I, thunk, post)
    return Task("criterion.%s" % case, run, functions=["spectrum.eigenfre._get_signal_space"])


def tasks(tier):
    ts = [method_task(), criterion_task("NSIG"), criterion_task("none")]
    for dt in ("real", "complex"):
        ts.append(validate_task(dt, False))
        ts.append(validate_task(dt, True))
        for method in ("music", "ev"):
            ts.append(funcs.eigen_task(dt, method, 2, 1))
            ts.append(funcs.eigen_task(dt, method, 3, 1))
            ts.append(funcs.eigen_task(dt, method, 3, 2))
        if tier == "thorough":
            ts.append(funcs.eigen_task(dt, "music", 4, 2))
            ts.append(funcs.eigen_task(dt, "ev", 4, 1))
        ts.append(classes.place_task("pmusic", dt))
        ts.append(classes.place_task("pev", dt))
    return ts
