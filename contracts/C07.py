"""C07  The PSD attribute is never stale.

Data-structure view: hidden state (cache, `modified`, `_range`, stale `__sides`) against the
visible attributes alpha.  Obligations (all unbounded, over *every* state satisfying the
invariant, hence over histories of every length by induction):

 call.*   the real K.__call__ (estimators by their shape contracts) meets the abstract contract
          used everywhere else: cache := EST_K(alpha) -- a function of alpha only (two runs from
          states that differ in all hidden fields give equal caches) --, on the default sides,
          of length len(frequencies()), `modified` cleared, alpha and `_range` untouched.
 init.*   every constructor establishes the invariant.
 op.*     every public mutator preserves the invariant
             I1  _range.N = NFFT, _range.sampling = sampling, _range.df = sampling/NFFT
             I2  cache is None  or  modified  or  cache = conv(EST_K(alpha), default -> sides)
                 with len(cache) = len(frequencies()).
 read.*   reading `psd` from any invariant state returns conv(EST_K(alpha'), default -> sides')
          for the attributes after the read, and re-establishes the invariant; df and
          len(frequencies()) agree.
"""
from fractions import Fraction
from pyvc import values as V
from pyvc.values import Arr, Arr2, Cx, Obj, Enum
from pyvc.harness import Task
from . import specs, model
from .model import CLASSES, default_sides

META = {
    "level": "proof",
    "functions": ["spectrum.psd.Spectrum.{__init__,_setData,_set_data_y,_setSampling,_setDetrend,_setScale,_setNFFT,"
                  "_setSides,_getPSD,_setPSD,frequencies,get_converted_psd,scale,run}",
                  "spectrum.psd.FourierSpectrum.{__init__,_set_window,_set_lag}",
                  "spectrum.psd.ParametricSpectrum.{__init__,_set_ar_order,_set_ma_order}",
                  "spectrum.psd.Range.{__init__,_setN,_setsampling}"] +
                 [c["q"] + ".{__init__,__call__}" for c in CLASSES.values()],
    "assumptions": [
        "A-REAL; A-PY",
        "the functional estimators are deterministic functions of their arguments with the result shapes of their "
        "own contracts (speriodogram, CORRELOGRAMPSD, arburg, aryule, arcovar, modcovar, arma_estimate, ma, minvar, "
        "eigen, pmtm: uninterpreted symbols here; bodies verified under C01/C02/C09/C12-C17/C19)",
        "'final attribute values' is read as the values observable after the read (a recomputation resets `sides` to "
        "the default, as for a fresh object)",
        "operation alphabet = the statement's list (data, NFFT, sampling, window, lag, detrend, scale_by_freq, sides, "
        "model orders, run/call, reads); assigning `psd`, `ar`, `ma`, `rho` or calling scale() directly is outside it",
        "NFFT='nextpow2' is not covered (ceil/log2 are uninterpreted); NFFT=None and integers are",
    ],
    "trusted_base": [],
}

SIDES = ["onesided", "twosided", "centerdc"]


def sides_for(datatype):
    return SIDES if datatype == "real" else ["twosided", "centerdc"]


def admissible(I, cname, o):
    """the documented domain of each estimator (statement: orders / lags in domain)"""
    a = o.attrs
    nfft = a["_Spectrum__NFFT"]
    N = a["_Spectrum__N"]
    if CLASSES[cname]["base"] == "Parametric":
        ar, ma = a["_ParametricSpectrum__ar_order"], a["_ParametricSpectrum__ma_order"]
        I.assume(V.s_cmp(">=", ar, 1))
        I.assume(V.s_cmp("<", ar, nfft))
        I.assume(V.s_cmp(">=", ma, 1))
        I.assume(V.s_cmp("<", ma, nfft))
    if cname in ("pminvar",):
        I.assume(V.s_cmp(">=", a["_ParametricSpectrum__ar_order"], 2))
    if cname == "MultiTapering":
        I.assume(V.s_cmp(">=", nfft, N))


def check_inv(P, o, cname, datatype, tag=""):
    a = o.attrs
    dom = P.dom
    nfft, fs = a["_Spectrum__NFFT"], a["_Spectrum__sampling"]
    rng = a["_range"].attrs
    hints = P.hints
    ok = P.prove("I1.range.N" + tag, V.s_eq(rng["_Range__N"], nfft), replay=("history", hints))
    ok &= P.prove("I1.range.sampling" + tag, V.s_eq(rng["_Range__sampling"], fs), replay=("history", hints))
    ok &= P.prove("I1.range.df" + tag, V.s_eq(rng["_Range__df"], V.s_div(fs, V.to_float(nfft))), replay=("history", hints))
    psd = a["_Spectrum__psd"]
    if psd is None or a["modified"] is True:
        P.ok("I2.cache" + tag, "cache is None or flagged modified")
        return ok
    if a["modified"] is not False:
        P.fail("I2.flag" + tag, "modified is neither True nor False")
        return False
    sd = a["_Spectrum__sides"]
    if sd not in sides_for(datatype):
        P.fail("I2.sides" + tag, "sides=%r is not a valid representation for %s data" % (sd, datatype), replay=("history", hints))
        return False
    want = specs.convert(model.est_array(P.interp, o, cname, datatype), default_sides(datatype), sd, nfft)
    if not isinstance(psd, Arr):
        P.fail("I2.cache" + tag, "cache is not a 1-D array")
        return False
    ok &= P.prove_arr_eq("I2.cache=estimate(alpha)" + tag, psd, want, replay=("history", hints))
    return ok


# ---------------------------------------------------------------------------------
# A. the real __call__ against the abstract contract


def call_task(cname, datatype):
    def run(tc):
        dom = tc.smt()
        stubs = model.estimator_stubs(dom)
        I = tc.interp(stubs=stubs)
        hints = {"cls": cname, "datatype": datatype, "op": "call", "case": "stale"}
        tc.native = ("history", hints)

        def thunk(I):
            o1, sh = model.make_state(I, dom, cname, datatype, tag="1", cache="none")
            o2, _ = model.make_state(I, dom, cname, datatype, tag="2", cache="arbitrary", shared=sh,
                                     sides=sides_for(datatype)[-1], modified=False)
            admissible(I, cname, o1)
            before = dict(model.alpha_values(I, o1, cname))
            nfft0 = o1.attrs["_Spectrum__NFFT"]
            I.call(o1, [], {})
            I.call(o2, [], {})
            after = dict(model.alpha_values(I, o1, cname))
            I.st = dict(o1=o1, o2=o2, before=before, after=after, nfft0=nfft0)
            return None

        def post(P):
            P.hints = hints
            if P.outcome != "return":
                P.fail("call.no-exception", "__call__ raises %s on an admissible state" % P.value.exc, replay=("history", hints))
                return
            st = P.interp.st
            o1, o2, before = st["o1"], st["o2"], st["before"]
            a1, a2 = o1.attrs, o2.attrs
            p1, p2 = a1["_Spectrum__psd"], a2["_Spectrum__psd"]
            if not isinstance(p1, Arr) or not isinstance(p2, Arr):
                P.fail("call.cache-set", "cache not set to a 1-D array", replay=("history", hints))
                return
            P.prove_arr_eq("call.determinacy(cache depends on alpha only)", p2, p1, replay=("history", hints))
            nfft = st["nfft0"]
            P.prove("call.len=len(frequencies)", V.s_eq(p1.n, specs.len_sides(default_sides(datatype), nfft)),
                    replay=("history", hints))
            for o in (a1, a2):
                if o["_Spectrum__sides"] != default_sides(datatype):
                    P.fail("call.sides=default", "sides after __call__ is %r" % (o["_Spectrum__sides"],), replay=("history", hints))
                    break
            else:
                P.ok("call.sides=default")
            if a1["modified"] is False and a2["modified"] is False:
                P.ok("call.flag-cleared")
            else:
                # the getter clears it after self(); the flag must not be *set* by __call__
                P.fail("call.flag-cleared", "modified=%r/%r after __call__" % (a1["modified"], a2["modified"]), replay=("history", hints))
            # frame: alpha and _range untouched
            for nm in model.alpha_names(cname):
                b, c = before.get(nm), st["after"].get(nm)
                if b is c:
                    continue
                if V.is_num(b) and V.is_num(c):
                    P.prove("call.frame.%s" % nm, V.s_eq(b, c), replay=("history", hints))
                elif isinstance(b, Arr) and isinstance(c, Arr):
                    P.prove_arr_eq("call.frame.%s" % nm, c, b, replay=("history", hints))
                else:
                    P.fail("call.frame.%s" % nm, "attribute replaced by %r" % (c,), replay=("history", hints))
            rng = a1["_range"].attrs
            fs = before["sampling"]
            P.prove("call.frame.range", V.b_and(V.s_eq(rng["_Range__N"], nfft), V.b_and(
                V.s_eq(rng["_Range__sampling"], fs), V.s_eq(rng["_Range__df"], V.s_div(fs, V.to_float(nfft))))),
                replay=("history", hints))
        tc.run_paths(I, thunk, post)
    return Task("call.%s.%s" % (cname, datatype), run, functions=[CLASSES[cname]["q"] + ".__call__"])


# ---------------------------------------------------------------------------------
# B/C. mutators and reads from every invariant state

OPS = {
    "Spectrum": ["data", "data:dtype", "data_y", "sampling", "detrend", "scale_by_freq", "NFFT", "NFFT=None", "sides", "run",
                 "frequencies", "get_converted_psd"],
    "Fourier": ["window", "lag"],
    "Parametric": ["ar_order", "ma_order", "lag"],
}


def ops_for(cname):
    b = CLASSES[cname]["base"]
    ops = list(OPS["Spectrum"])
    if b in OPS:
        ops += OPS[b]
    return ops


PRE_CASES = ["none", "stale"]   # plus valid@<sides>


def pre_cases(datatype):
    return ["none", "stale"] + ["valid@" + s for s in sides_for(datatype)]


def build_pre(I, dom, cname, datatype, case):
    if case == "none":
        return model.make_state(I, dom, cname, datatype, cache="none")
    if case == "stale":
        return model.make_state(I, dom, cname, datatype, cache="arbitrary", modified=True,
                                sides=sides_for(datatype)[-1])
    s = case.split("@")[1]
    return model.make_state(I, dom, cname, datatype, cache="valid", sides=s)


def apply_op(I, dom, o, cname, datatype, op, arg=None):
    """perform one operation of the alphabet with a fully symbolic new value"""
    a = o.attrs
    if op == "data":
        n2 = dom.input_int("N_new")
        I.assume(V.s_cmp(">=", n2, 1))
        new = dom.input_array("data_new", n2, "complex" if datatype == "complex" else "float")
        I.st["assigned_data"] = (new, datatype)
        I.setattr(o, "data", new)
    elif op == "data:dtype":
        # samples of the OTHER dtype (e.g. the same values declared complex): the datatype, and with it the default sides and the
        # length of the estimate, must follow the assigned array
        other = "real" if datatype == "complex" else "complex"
        n2 = dom.input_int("N_new")
        I.assume(V.s_cmp(">=", n2, 1))
        new = dom.input_array("data_new", n2, "complex" if other == "complex" else "float")
        I.st["assigned_data"] = (new, other)
        I.setattr(o, "data", new)
    elif op == "data_y":
        n2 = dom.input_int("Ny_new")
        I.assume(V.s_cmp(">=", n2, 1))
        I.setattr(o, "data_y", dom.input_array("datay_new", n2, "float"))
    elif op == "sampling":
        v = dom.input_real("sampling_new")
        I.assume(V.s_cmp(">", v, 0))
        I.setattr(o, "sampling", v)
    elif op == "detrend":
        e, dc = dom.enum("detrend_new", [None, "mean"])
        I.pc.append(dc)
        I.setattr(o, "detrend", e)
    elif op == "scale_by_freq":
        e, dc = dom.enum("scale_new", [True, False])
        I.pc.append(dc)
        I.setattr(o, "scale_by_freq", e)
    elif op == "NFFT":
        v = dom.input_int("NFFT_new")
        I.assume(V.s_cmp(">=", v, 1))
        I.setattr(o, "NFFT", v)
    elif op == "NFFT=None":
        I.setattr(o, "NFFT", None)
    elif op == "sides":
        I.setattr(o, "sides", arg)
    elif op == "run":
        I.call(I.getattr(o, "run"), [], {})
    elif op == "frequencies":
        I.st["freq"] = I.call(I.getattr(o, "frequencies"), [], {})
    elif op == "get_converted_psd":
        I.st["conv"] = I.call(I.getattr(o, "get_converted_psd"), [arg], {})
    elif op == "window":
        e, dc = dom.enum("window_new", model.WINDOWS)
        I.pc.append(dc)
        I.setattr(o, "window", e)
    elif op == "lag":
        I.setattr(o, "lag", dom.input_int("lag_new"))
    elif op == "ar_order":
        v = dom.input_int("ar_order_new")
        I.assume(V.s_cmp(">=", v, 1))
        I.setattr(o, "ar_order", v)
    elif op == "ma_order":
        v = dom.input_int("ma_order_new")
        I.assume(V.s_cmp(">=", v, 1))
        I.setattr(o, "ma_order", v)
    elif op == "plain:lag":
        I.setattr(o, "lag", dom.input_int("plag_new"))
    elif op == "read":
        I.st["read"] = I.getattr(o, "psd")
        I.st["freq"] = I.call(I.getattr(o, "frequencies"), [], {})
        I.st["df"] = I.getattr(o, "df")
    else:
        raise ValueError(op)


def op_task(cname, datatype, op, case, arg=None):
    name = "%s.%s.%s.%s%s.from-%s" % ("read" if op == "read" else "op", cname, datatype, op,
                                     ("=" + arg) if arg else "", case)

    def run(tc):
        dom = tc.smt()
        stubs = {CLASSES[cname]["q"] + ".__call__": model.call_contract(cname, datatype)}
        I = tc.interp(stubs=stubs)
        hints = {"cls": cname, "datatype": datatype, "op": op, "case": case, "arg": arg}
        tc.native = ("history", hints)

        def thunk(I):
            o, sh = build_pre(I, dom, cname, datatype, case)
            I.st = dict(o=o)
            apply_op(I, dom, o, cname, datatype, op, arg)
            return None

        def post(P):
            P.hints = hints
            st = P.interp.st
            o = st["o"]
            if P.outcome != "return":
                if op == "get_converted_psd" or op == "sides":
                    # converting complex data to onesided etc. may be rejected; not in this task's cases
                    pass
                P.fail("no-exception", "%s raises %s" % (op, P.value.exc), replay=("history", hints))
                return
            eff = datatype
            if "assigned_data" in st:
                # setter postcondition: the object holds the value that was assigned (by value and by dtype)
                new, eff = st["assigned_data"]
                a_ = o.attrs
                got = a_["_Spectrum__data"]
                if not isinstance(got, Arr):
                    P.fail("setter.data:stores-assigned-value", "data attribute is %r" % type(got).__name__, replay=("history", hints))
                else:
                    i = P.skolem("di", 0, new.n)
                    P.prove("setter.data:stores-assigned-value", V.b_and(V.s_eq(got.n, new.n), V.s_eq(got.at(i), new.at(i))), replay=("history", hints))
                    P.prove("setter.data:N=len(assigned)", V.s_eq(a_["_Spectrum__N"], new.n), replay=("history", hints))
                dt_attr = a_["_Spectrum__datatype"]
                if dt_attr == eff:
                    P.ok("setter.data:datatype-follows-assigned-dtype")
                else:
                    P.fail("setter.data:datatype-follows-assigned-dtype", "datatype attribute is %r after assigning %s samples" % (dt_attr, eff),
                           replay=("history", hints))
            check_inv(P, o, cname, eff)
            if op == "read":
                a = o.attrs
                x = st["read"]
                nfft = a["_Spectrum__NFFT"]
                sd = a["_Spectrum__sides"]
                if not isinstance(x, Arr) or sd not in sides_for(datatype):
                    P.fail("read.value", "psd read returned %r with sides=%r" % (type(x).__name__, sd), replay=("history", hints))
                    return
                want = specs.convert(model.est_array(P.interp, o, cname, datatype), default_sides(datatype), sd, nfft)
                P.prove_arr_eq("read.value=estimate(final attributes)", x, want, replay=("history", hints))
                P.prove("read.len(frequencies)=len(psd)", V.s_eq(st["freq"].n, x.n), replay=("history", hints))
                P.prove("read.df=sampling/NFFT", V.s_eq(st["df"], V.s_div(a["_Spectrum__sampling"], V.to_float(nfft))),
                        replay=("history", hints))
            if op == "frequencies" and o.attrs["_Spectrum__psd"] is not None and o.attrs["modified"] is False:
                P.prove("frequencies.len=len(cache)", V.s_eq(st["freq"].n, o.attrs["_Spectrum__psd"].n), replay=("history", hints))
        tc.run_paths(I, thunk, post)
    return Task(name, run, functions=[CLASSES[cname]["q"]])


# ---------------------------------------------------------------------------------
# D. constructors establish the invariant


CTOR_ARGS = {
    "Periodogram": lambda d, s: dict(data=s["data"], sampling=s["fs"], NFFT=s["nfft"], window="hann"),
    "pcorrelogram": lambda d, s: dict(data=s["data"], sampling=s["fs"], NFFT=s["nfft"], lag=s["lag"]),
    "pburg": lambda d, s: dict(data=s["data"], order=s["p"], sampling=s["fs"], NFFT=s["nfft"]),
    "pyule": lambda d, s: dict(data=s["data"], order=s["p"], sampling=s["fs"], NFFT=s["nfft"]),
    "pcovar": lambda d, s: dict(data=s["data"], order=s["p"], sampling=s["fs"], NFFT=s["nfft"]),
    "pmodcovar": lambda d, s: dict(data=s["data"], order=s["p"], sampling=s["fs"], NFFT=s["nfft"]),
    "parma": lambda d, s: dict(data=s["data"], P=s["p"], Q=s["q"], lag=s["lag"], sampling=s["fs"], NFFT=s["nfft"]),
    "pma": lambda d, s: dict(data=s["data"], Q=s["q"], M=s["p"], sampling=s["fs"], NFFT=s["nfft"]),
    "pminvar": lambda d, s: dict(data=s["data"], order=s["p"], sampling=s["fs"], NFFT=s["nfft"]),
    "pmusic": lambda d, s: dict(data=s["data"], IP=s["p"], NSIG=s["q"], sampling=s["fs"], NFFT=s["nfft"]),
    "pev": lambda d, s: dict(data=s["data"], IP=s["p"], NSIG=s["q"], sampling=s["fs"], NFFT=s["nfft"]),
    "MultiTapering": lambda d, s: dict(data=s["data"], NW=Fraction(5, 2), sampling=s["fs"], NFFT=s["nfft"]),
}


def init_task(cname, datatype, nfft_mode):
    def run(tc):
        dom = tc.smt()
        I = tc.interp()
        hints = {"cls": cname, "datatype": datatype, "op": "init", "case": nfft_mode}
        tc.native = ("history", hints)

        def thunk(I):
            N = dom.input_int("N")
            I.assume(V.s_cmp(">=", N, 1))
            data = dom.input_array("data", N, "complex" if datatype == "complex" else "float")
            fs = dom.input_real("sampling")
            I.assume(V.s_cmp(">", fs, 0))
            if nfft_mode == "int":
                nfft = dom.input_int("NFFT")
                I.assume(V.s_cmp(">=", nfft, 1))
            else:
                nfft = None
            s = dict(data=data, fs=fs, nfft=nfft, lag=dom.input_int("lag"), p=dom.input_int("p"), q=dom.input_int("q"))
            I.assume(V.s_cmp(">=", s["p"], 1))
            I.assume(V.s_cmp(">=", s["q"], 1))
            kw = CTOR_ARGS[cname](dom, s)
            o = I.call(I.class_ref(CLASSES[cname]["q"]), [], kw)
            I.st = dict(o=o, N=N, nfft=nfft)
            return o

        def post(P):
            P.hints = hints
            if P.outcome != "return":
                P.fail("no-exception", "constructor raises %s" % P.value.exc, replay=("history", hints))
                return
            o = P.interp.st["o"]
            a = o.attrs
            exp = P.interp.st["nfft"] if nfft_mode == "int" else P.interp.st["N"]
            P.prove("init.NFFT", V.s_eq(a["_Spectrum__NFFT"], exp), replay=("history", hints))
            rng = a["_range"].attrs
            fs = a["_Spectrum__sampling"]
            P.prove("init.I1", V.b_and(V.s_eq(rng["_Range__N"], a["_Spectrum__NFFT"]), V.b_and(
                V.s_eq(rng["_Range__sampling"], fs), V.s_eq(rng["_Range__df"], V.s_div(fs, V.to_float(a["_Spectrum__NFFT"]))))),
                replay=("history", hints))
            if a["_Spectrum__psd"] is None or a["modified"] is True:
                P.ok("init.I2")
            else:
                P.fail("init.I2", "fresh object has a cache that is not flagged", replay=("history", hints))
            if a["_Spectrum__sides"] == default_sides(datatype):
                P.ok("init.sides")
            else:
                P.fail("init.sides", "sides=%r" % (a["_Spectrum__sides"],), replay=("history", hints))
        tc.run_paths(I, thunk, post)
    return Task("init.%s.%s.NFFT-%s" % (cname, datatype, nfft_mode), run, functions=[CLASSES[cname]["q"] + ".__init__"])


def tasks(tier):
    ts = []
    for cname in CLASSES:
        for dt in ("real", "complex"):
            ts.append(call_task(cname, dt))
            for mode in ("int", "None"):
                ts.append(init_task(cname, dt, mode))
            for case in pre_cases(dt):
                ts.append(op_task(cname, dt, "read", case))
                for op in ops_for(cname):
                    if op == "sides":
                        for s in sides_for(dt):
                            ts.append(op_task(cname, dt, "sides", case, s))
                    elif op == "get_converted_psd":
                        if case.startswith("valid"):
                            for s in sides_for(dt):
                                ts.append(op_task(cname, dt, op, case, s))
                    else:
                        ts.append(op_task(cname, dt, op, case))
    return ts
