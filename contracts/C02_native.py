"""native oracles for C02 replays (shared implementations)"""
from .native_common import Skip
from .native_funcs import NATIVE, SEARCH

# C02 reuses C08's arma2psd contract task: its replays need C08's direct-formula oracle (rho/T * |B(f)|^2 / |A(f)|^2 by numpy
# polynomial evaluation, not the library's own routine)
from .C08_native import NATIVE as _N8, SEARCH as _S8
NATIVE = dict(NATIVE)
SEARCH = dict(SEARCH)
NATIVE["arma2psd"] = _N8["arma2psd"]
SEARCH["arma2psd"] = _S8["arma2psd"]
