"""C09  Correlation estimates match their definition and are consistent.

 CORRELATION.*   r[k] = sum_{n=0}^{N-k-1} x~[n+k] conj(y~[n]) / d(k), d = N | N-k | 1 | N*rms(x)*rms(y) (1 at lag 0 for coeff),
                 x~, y~ zero-padded to N = max(len x, len y); length maxlags+1  -- symbolic N, maxlags, all four norms,
                 real/complex, auto / cross / unequal lengths (nested loops summarised: unbounded)
 xcorr.*         length 2*maxlags+1, lags -maxlags..maxlags, entry at lag k >= 0 = the CORRELATION value, entry at -k =
                 conj(r_yx[k]); four normalisations (scipy.signal.correlate by its contract)
 corrmtx.*       shape and entries x[i-j+offset] (zero outside 0..N-1) per method; conjugated reversed rows for 'modified'
 Gram identity / PSD-ness / r[0] >= |r[k]|: see level_note.
"""
from fractions import Fraction
from pyvc import values as V
from pyvc.values import Arr, Arr2, Cx
from pyvc.harness import Task

META = {
    "level": "proof",
    "functions": ["spectrum.correlation.CORRELATION", "spectrum.correlation.xcorr", "spectrum.correlation.pylab_rms_flat",
                  "spectrum.linalg.corrmtx"],
    "assumptions": ["A-REAL; A-PY", "scipy.signal.correlate(x, y, 'full')[m] = sum_n x[n+m-(N-1)] conj(y[n]) (assumed, probed)",
                    "scipy.linalg.toeplitz(c, r)[i,j] = c[i-j] (i>=j) else r[j-i] (assumed, probed)",
                    "sqrt is uninterpreted with sqrt(t)^2 = t, sqrt(t) >= 0",
                    "Gram identity C^H C = N*Toeplitz(r_biased): bounded exact algebra (C09 thorough / E3); positive "
                    "semi-definiteness and r[0] >= |r[k]| follow from it (a Gram matrix is PSD): textbook lemma, not re-proved"],
    "bounded_note": "coeff-unit.* tasks are bounded in N (3, 4; 2..5 thorough), all data values; everything else is unbounded",
    "trusted_base": ["sympy.polys (bounded exact-algebra tasks only)"],
}

NORMS = ["biased", "unbiased", None, "coeff"]


def zext(a, N, dt):
    s = a.snap()
    n = a.n
    zero = Cx(Fraction(0), Fraction(0)) if dt == "complex" else Fraction(0)
    return lambda j: V.s_ite(V.b_and(V.s_cmp(">=", j, 0), V.s_cmp("<", j, n)), V.cast_to(s(j), dt), zero)


def rms2(dom, a, N):
    """mean |a|^2"""
    s = a.snap()
    return V.s_div(dom.sum(0, a.n, lambda j: V.s_abs2(s(j))), V.to_float(a.n))


def corr_spec(dom, x, y, N, maxlags, norm, dt, conj_inside=False):
    """r_xy[k]; with conj_inside the complex conjugate conj(r_xy[k]) = sum conj(x[n+k]) y[n] / d"""
    xz, yz = zext(x, N, dt), zext(y, N, dt)

    def lagsum(k):
        if conj_inside:
            return dom.sum(0, N - k, lambda n: V.s_conj(xz(n + k)) * yz(n))
        return dom.sum(0, N - k, lambda n: xz(n + k) * V.s_conj(yz(n)))

    def f(k):
        s = lagsum(k)
        if norm == "biased":
            return V.s_div(s, V.to_float(N))
        if norm == "unbiased":
            return V.s_div(s, V.to_float(N - k))
        if norm is None:
            return s
        den = dom.sqrt(rms2(dom, x, N)) * dom.sqrt(rms2(dom, y, N))
        return V.s_ite(V.s_eq(k, 0), Cx(Fraction(1), Fraction(0)) if dt == "complex" else Fraction(1),
                       V.s_div(V.s_div(s, den), V.to_float(N)))
    return Arr(maxlags + 1, fn=f, dtype=dt)


def correlation_task(datatype, norm, shape):
    """shape: auto | cross | x-shorter | y-shorter"""
    def run(tc):
        dom = tc.smt()
        I = tc.interp()
        hints = {"datatype": datatype, "norm": norm, "shape": shape}
        tc.native = ("correlation", hints)
        dt = "complex" if datatype == "complex" else "float"

        def thunk(I):
            N = dom.input_int("N")
            I.assume(V.s_cmp(">=", N, 1))
            L = dom.input_int("maxlags")
            I.assume(V.s_cmp(">=", L, 0))
            I.assume(V.s_cmp("<", L, N))
            if shape == "auto":
                x = dom.input_array("x", N, dt)
                y = None
            elif shape == "cross":
                x = dom.input_array("x", N, dt)
                y = dom.input_array("y", N, dt)
            else:
                M = dom.input_int("M")
                I.assume(V.s_cmp(">=", M, 1))
                I.assume(V.s_cmp("<", M, N))
                x = dom.input_array("x", M if shape == "x-shorter" else N, dt)
                y = dom.input_array("y", N if shape == "x-shorter" else M, dt)
            I.st = dict(x=x, y=y, N=N, L=L, x0=x.snap(), xn=x.n, y0=(y.snap() if y is not None else None))
            return I.call_qual("spectrum.correlation.CORRELATION", x, y, L, norm)

        def post(P):
            st = P.interp.st
            if P.outcome != "return":
                P.fail("no-exception", "CORRELATION raises %s" % P.value.exc, replay=("correlation", hints))
                return
            x, y, N, L = st["x"], st["y"], st["N"], st["L"]
            x_in = Arr(st["xn"], fn=st["x0"], dtype=dt)
            y_in = x_in if y is None else Arr(y.n, fn=st["y0"], dtype=dt)
            want = corr_spec(dom, x_in, y_in, N, L, norm, dt)
            got = P.value
            if not isinstance(got, Arr):
                P.fail("1d", "result is not 1-D", replay=("correlation", hints))
                return
            P.prove_arr_eq("lag-sum/normalisation", got, want, replay=("correlation", hints))
        tc.run_paths(I, thunk, post)
    return Task("CORRELATION.%s.%s.%s" % (datatype, norm, shape), run, functions=["spectrum.correlation.CORRELATION"])


def xcorr_task(datatype, norm, cross, maxlags_given=True):
    def run(tc):
        dom = tc.smt()
        I = tc.interp()
        hints = {"datatype": datatype, "norm": norm, "cross": cross, "maxlags_given": maxlags_given}
        tc.native = ("xcorr", hints)
        dt = "complex" if datatype == "complex" else "float"

        def thunk(I):
            N = dom.input_int("N")
            I.assume(V.s_cmp(">=", N, 1))
            x = dom.input_array("x", N, dt)
            y = dom.input_array("y", N, dt) if cross else None
            if maxlags_given:
                L = dom.input_int("maxlags")
                I.assume(V.s_cmp(">=", L, 0))
                I.assume(V.s_cmp("<", L, N))
            else:
                L = None
            I.st = dict(x=x, y=y, N=N, L=L if L is not None else N - 1)
            return I.call_qual("spectrum.correlation.xcorr", x, y, L, norm)

        def post(P):
            st = P.interp.st
            if P.outcome != "return":
                P.fail("no-exception", "xcorr raises %s" % P.value.exc, replay=("xcorr", hints))
                return
            x, y, N, L = st["x"], st["y"], st["N"], st["L"]
            yy = y if y is not None else x
            res, lags = P.value
            P.prove("len=2*maxlags+1", V.b_and(V.s_eq(res.n, 2 * L + 1), V.s_eq(lags.n, 2 * L + 1)), replay=("xcorr", hints))
            i = P.skolem("li", 0, 2 * L + 1)
            P.prove("lags=-maxlags..maxlags", V.s_eq(lags.at(i), i - L), replay=("xcorr", hints))
            pos = corr_spec(dom, x, yy, N, L, norm, dt)
            neg = corr_spec(dom, yy, x, N, L, norm, dt, conj_inside=True)
            k = P.skolem("k", 1 if norm == "coeff" else 0, L + 1)     # coeff: the value 1 at lag 0 is CORRELATION's
            P.prove("nonnegative-lag=CORRELATION", V.s_eq(res.at(L + k), pos.at(k)), replay=("xcorr", hints))
            # conj(r_yx[k]) with the conjugation distributed over the finite lag sum
            P.prove("negative-lag=conj(r_yx)", V.s_eq(res.at(L - k), neg.at(k)), replay=("xcorr", hints))
        tc.run_paths(I, thunk, post)
    return Task("xcorr.%s.%s.%s%s" % (datatype, norm, "cross" if cross else "auto", "" if maxlags_given else ".maxlags-None"),
                run, functions=["spectrum.correlation.xcorr"])


def corrmtx_task(datatype, method, as_list=False):
    def run(tc):
        dom = tc.smt()
        I = tc.interp()
        hints = {"datatype": datatype, "method": method}
        tc.native = ("corrmtx", hints)
        dt = "complex" if datatype == "complex" else "float"

        def thunk(I):
            N = dom.input_int("N")
            m = dom.input_int("m")
            I.assume(V.s_cmp(">=", m, 1))
            I.assume(V.s_cmp(">", N, m))
            x = dom.input_array("x", N, dt)
            I.st = dict(x=x, N=N, m=m)
            return I.call_qual("spectrum.linalg.corrmtx", x, m, method)

        def post(P):
            st = P.interp.st
            if P.outcome != "return":
                P.fail("no-exception", "corrmtx raises %s" % P.value.exc, replay=("corrmtx", hints))
                return
            x, N, m = st["x"], st["N"], st["m"]
            C = P.value
            if not isinstance(C, Arr2):
                P.fail("2d", "result is not a matrix", replay=("corrmtx", hints))
                return
            xz = zext(x, N, dt)
            rows = {"autocorrelation": N + m, "prewindowed": N, "postwindowed": N, "covariance": N - m,
                    "modified": 2 * (N - m)}[method]
            off = {"autocorrelation": 0, "prewindowed": 0, "postwindowed": m, "covariance": m, "modified": m}[method]
            P.prove("shape", V.b_and(V.s_eq(C.r, rows), V.s_eq(C.c, m + 1)), replay=("corrmtx", hints))
            i = P.skolem("ci", 0, rows)
            j = P.skolem("cj", 0, m + 1)
            if method == "modified":
                top = V.s_cmp("<", i, N - m)
                want = V.s_ite(top, xz(i - j + m), V.s_conj(xz(i - (N - m) + j)))
            else:
                want = xz(i - j + off)
            P.prove("entries", V.s_eq(C.at(i, j), want), replay=("corrmtx", hints))
            P.canary("entries-shifted", V.s_eq(C.at(i, j), xz(i - j + off + 1)))
        tc.run_paths(I, thunk, post)
    return Task("corrmtx.%s.%s" % (datatype, method), run, functions=["spectrum.linalg.corrmtx"])


def coeff_unit_task(N, cx):
    """the coeff-normalised autocorrelation is exactly 1 at lag 0 (needs sqrt(m) * sqrt(m) = m for m = mean |x|^2): exact algebra
    on the real CORRELATION and xcorr, bounded in N; also: the two agree at every non-negative lag"""
    def run(tc):
        from .e3 import E3, e3_interp
        from pyvc.values import Arr, Cx
        names = sum((["x%d_r" % j, "x%d_i" % j] if cx else ["x%d" % j] for j in range(N)), [])
        dom, I = e3_interp(tc, names)
        E = E3(tc, dom, "coeff_unit", {"N": N, "complex": cx}, tc.seed)
        x = [dom.csym("x%d" % j) if cx else dom.sym("x%d" % j) for j in range(N)]
        mk = lambda: Arr.from_items(list(x), dtype="complex" if cx else "float")
        L = N - 1
        r = E.run(I, lambda I_: I_.call_qual("spectrum.correlation.CORRELATION", mk(), None, L, "coeff"))
        if r is None:
            return
        rl = r.to_list()
        E.eq("CORRELATION(coeff)[0]=1", V.Cx.of(rl[0]), Cx(Fraction(1), Fraction(0)))
        m2 = sum((V.s_abs2(v) for v in x), 0)                       # N * rms^2
        want = [sum((V.Cx.of(x[n + k]) * V.s_conj(V.Cx.of(x[n])) for n in range(N - k)), Cx(Fraction(0), Fraction(0))) / m2 for k in range(L + 1)]
        E.eq("CORRELATION(coeff)[k]=sum x[n+k]conj(x[n])/(N rms^2)", [V.Cx.of(v) for v in rl], want)
        t = E.run(I, lambda I_: I_.call_qual("spectrum.correlation.xcorr", mk(), None, L, "coeff"))
        if t is None:
            return
        tl = t[0].to_list()
        E.ok("xcorr:2*maxlags+1-values", len(tl) == 2 * L + 1, "length %d" % len(tl))
        if len(tl) == 2 * L + 1:
            E.eq("xcorr(coeff)[lag 0]=1", V.Cx.of(tl[L]), Cx(Fraction(1), Fraction(0)))
            E.eq("xcorr(coeff)[lag k>=0]=CORRELATION(coeff)[k]", [V.Cx.of(v) for v in tl[L:]], [V.Cx.of(v) for v in rl])
            E.eq("xcorr(coeff)[lag -k]=conj(lag k)", [V.Cx.of(v) for v in tl[:L][::-1]], [V.s_conj(V.Cx.of(v)) for v in rl[1:]])
    return Task("coeff-unit.%s.N%d" % ("complex" if cx else "real", N), run, kind="bounded", prerun=True, timeout=150,
                functions=["spectrum.correlation.CORRELATION", "spectrum.correlation.xcorr", "spectrum.correlation.pylab_rms_flat"])


def tasks(tier):
    ts = []
    for cx in (False, True):
        for N in ((3, 4) if tier == "quick" else (2, 3, 4, 5)):
            ts.append(coeff_unit_task(N, cx))
    for dt in ("real", "complex"):
        for norm in NORMS:
            ts.append(correlation_task(dt, norm, "auto"))
            ts.append(xcorr_task(dt, norm, False))
            if norm != "coeff":          # the statement defines the coeff normalisation for the autocorrelation
                ts.append(correlation_task(dt, norm, "cross"))
                ts.append(xcorr_task(dt, norm, True))
        ts.append(correlation_task(dt, "biased", "x-shorter"))
        ts.append(correlation_task(dt, "biased", "y-shorter"))
        ts.append(xcorr_task(dt, "biased", False, maxlags_given=False))
        for method in ("autocorrelation", "prewindowed", "postwindowed", "covariance", "modified"):
            ts.append(corrmtx_task(dt, method))
    return ts
