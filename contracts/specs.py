"""Specification functions shared by several properties.  They are written from the
property statements (DESIGN Appendix B), over the engine's value API, and never look at
the code."""
from fractions import Fraction
from pyvc import values as V
from pyvc.values import Arr, Cx


def half(N):
    return V.s_floordiv(N, 2)


def is_even(N):
    return V.s_eq(V.s_mod(N, 2), 0)


def len_sides(sides, N):
    """number of frequencies reported for `sides` with NFFT = N"""
    if sides == "onesided":
        return half(N) + 1          # N//2+1 (even) == (N+1)//2 (odd)
    return N


def conv_one_two(one, N):
    """two[0]=one[0]; two[h]=one[h] (N even); two[k]=one[min(k,N-k)]/2 otherwise"""
    h = half(N)
    s = one.snap()
    even = is_even(N)

    def f(k):
        m = V.s_min(k, N - k)
        return V.s_ite(V.s_eq(k, 0), V.to_float(s(0)),
                       V.s_ite(V.b_and(even, V.s_eq(k, h)), V.to_float(s(h)), V.s_div(s(m), 2)))
    return Arr(N, fn=f, dtype="float")


def conv_two_one(two, N):
    """one[0]=two[0]; one[h]=two[h] (N even); one[k]=two[k]+two[N-k] otherwise (fold by sign)"""
    h = half(N)
    s = two.snap()
    even = is_even(N)

    def f(k):
        return V.s_ite(V.s_eq(k, 0), s(0),
                       V.s_ite(V.b_and(even, V.s_eq(k, h)), s(h), s(k) + s(N - k)))
    return Arr(h + 1, fn=f, dtype=two.dtype)


def conv_two_center(two, N):
    """center[a] = two[(a - h) mod N]: entry a of the centred axis has frequency (a-h)*df"""
    h = half(N)
    s = two.snap()
    return Arr(N, fn=lambda a: s(V.s_mod(a - h + N, N)), dtype=two.dtype)


def conv_center_two(center, N):
    """two[k] = center[(k + h) mod N]"""
    h = half(N)
    s = center.snap()
    return Arr(N, fn=lambda k: s(V.s_mod(k + h, N)), dtype=center.dtype)


def convert(psd, src, dst, N):
    """the conversion the statement defines, for every ordered pair"""
    if src == dst:
        return psd
    if src == "onesided":
        two = conv_one_two(psd, N)
    elif src == "centerdc":
        two = conv_center_two(psd, N)
    else:
        two = psd
    if dst == "twosided":
        return two
    if dst == "centerdc":
        return conv_two_center(two, N)
    return conv_two_one(two, N)


def freq(sides, i, N, df):
    """frequency reported for entry i"""
    if sides == "centerdc":
        return (i - half(N)) * df
    return i * df


def wrap(x, n):
    """x mod n for -n <= x < 2n, written without a symbolic modulus (keeps queries linear)"""
    return V.s_ite(V.s_cmp("<", x, 0), x + n, V.s_ite(V.s_cmp(">=", x, n), x - n, x))
