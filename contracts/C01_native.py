"""native oracles for C01 replays (shared implementations)"""
from .native_common import Skip
from .native_funcs import NATIVE, SEARCH


def parseval(inp):
    """complex data: mean of the NFFT periodogram values = sum |x w|^2 / N, for named windows and several sizes"""
    import numpy as np
    import spectrum
    from .native_common import close
    rng = np.random.RandomState(3)
    for (N, n, win) in ((int(inp.get("N", 8)), max(int(inp.get("NFFT", 16)), int(inp.get("N", 8))), "hamming"), (12, 12, "hann"), (9, 21, "blackman"), (16, 64, "rectangular")):
        x = rng.randn(N) + 1j * rng.randn(N)
        w = np.asarray(spectrum.create_window(N, win))
        psd = np.asarray(spectrum.speriodogram(x, NFFT=n, detrend=False, sampling=1.0, scale_by_freq=False, window=win))
        if psd.shape != (n,) or not close(np.mean(psd), np.sum(np.abs(x * w) ** 2) / N, 1e-9):
            return False, "Parseval fails for N=%d NFFT=%d window=%s: mean(psd)=%r, sum|xw|^2/N=%r" % (N, n, win, float(np.mean(psd)), float(np.sum(np.abs(x * w) ** 2) / N))
    return True, "Parseval holds"


def wiener_khinchin(inp):
    """rectangular window, lag N-1, biased, NFFT >= 2N-1: correlogram = |DFT_NFFT(x)|^2 / N"""
    import numpy as np
    import spectrum
    from .native_common import close
    rng = np.random.RandomState(5)
    cx = bool(inp.get("complex"))
    N0 = int(inp.get("N", 6))
    for (N, n) in ((N0, max(int(inp.get("NFFT", 2 * N0)), 2 * N0 - 1)), (6, 11), (7, 16), (5, 21)):
        x = rng.randn(N) + (1j * rng.randn(N) if cx else 0)
        want = np.abs(np.fft.fft(x, n)) ** 2 / N
        for method in ("xcorr", "CORRELATION"):
            got = np.asarray(spectrum.CORRELOGRAMPSD(x, None, lag=N - 1, window="rectangular", norm="biased", NFFT=n, correlation_method=method))
            if got.shape != want.shape or not close(got, want, 1e-9):
                return False, "correlogram (%s) != periodogram for N=%d NFFT=%d %s data: max|diff| %.3g" % (
                    method, N, n, "complex" if cx else "real", float(np.max(np.abs(got - want))) if got.shape == want.shape else -1)
    return True, "correlogram reproduces the periodogram"


NATIVE = dict(NATIVE)
SEARCH = dict(SEARCH)
NATIVE.update({"parseval": parseval, "wiener_khinchin": wiener_khinchin})
SEARCH.update({"parseval": (lambda rng, h: dict(h)), "wiener_khinchin": (lambda rng, h: dict(h))})
