"""native oracles for C09 replays"""
import numpy as np
from .native_common import Skip, num, arr, close, rand_arr
from .C07_native import _data


def _xy(inp, dt):
    rng = np.random.RandomState(int(inp.get("seed", 3)))
    N = int(inp.get("Nn", 12))
    shape = inp.get("shape", "auto")
    mk = lambda n: rng.randn(n) + (1j * rng.randn(n) if dt == "complex" else 0)
    if shape == "x-shorter":
        return mk(max(N - 4, 1)), mk(N)
    if shape == "y-shorter":
        return mk(N), mk(max(N - 5, 1))
    x = mk(N)
    return x, (mk(N) if (shape == "cross" or inp.get("cross")) else None)


def _ref(x, y, L, norm):
    N = max(len(x), len(y))
    xz = np.concatenate((x, np.zeros(N - len(x))))
    yz = np.concatenate((y, np.zeros(N - len(y))))
    out = []
    for k in range(L + 1):
        s = np.sum(xz[k:] * np.conj(yz[:N - k]))
        if norm == "biased":
            v = s / N
        elif norm == "unbiased":
            v = s / (N - k)
        elif norm is None:
            v = s
        else:
            v = 1.0 if k == 0 else s / (np.sqrt(np.mean(np.abs(x) ** 2)) * np.sqrt(np.mean(np.abs(y) ** 2))) / N
        out.append(v)
    return np.array(out)


def correlation(inp):
    import spectrum
    dt, norm = inp["datatype"], inp["norm"]
    x, y = _xy(inp, dt)
    N = max(len(x), len(y) if y is not None else 0)
    L = min(int(inp.get("L", 4)), N - 1)
    got = spectrum.CORRELATION(x, y, maxlags=L, norm=norm)
    want = _ref(x, x if y is None else y, L, norm)
    return close(got, want, 1e-10), "CORRELATION(len %d, len %s, maxlags=%d, norm=%s): got %s expected %s" % (
        len(x), len(y) if y is not None else "-", L, norm, np.round(got, 4).tolist()[:4], np.round(want, 4).tolist()[:4])


def xcorr(inp):
    import spectrum
    dt, norm = inp["datatype"], inp["norm"]
    x, y = _xy(dict(inp, shape="cross" if inp.get("cross") else "auto"), dt)
    N = len(x)
    L = min(int(inp.get("L", 4)), N - 1) if inp.get("maxlags_given", True) else None
    res, lags = spectrum.xcorr(x, y, maxlags=L, norm=norm)
    LL = L if L is not None else N - 1
    yy = x if y is None else y
    pos = _ref(x, yy, LL, norm)
    neg = np.conj(_ref(yy, x, LL, norm))
    ok = len(res) == 2 * LL + 1 and list(lags) == list(range(-LL, LL + 1))
    k0 = 1 if norm == "coeff" else 0
    if ok:
        ok = close(res[LL + k0:], pos[k0:], 1e-10) and close(res[:LL + 1 - k0][::-1], neg[k0:], 1e-10)
    return ok, "xcorr N=%d maxlags=%s norm=%s" % (N, L, norm)


def corrmtx(inp):
    import spectrum
    dt, method = inp["datatype"], inp["method"]
    x, _ = _xy(inp, dt)
    N = len(x)
    m = min(int(inp.get("m", 3)), N - 1)
    C = spectrum.corrmtx(x, m, method)
    xz = lambda i: x[i] if 0 <= i < N else 0.0
    rows = {"autocorrelation": N + m, "prewindowed": N, "postwindowed": N, "covariance": N - m, "modified": 2 * (N - m)}[method]
    off = {"autocorrelation": 0, "prewindowed": 0, "postwindowed": m, "covariance": m, "modified": m}[method]
    W = np.zeros((rows, m + 1), dtype=complex)
    for i in range(rows):
        for j in range(m + 1):
            if method == "modified" and i >= N - m:
                W[i, j] = np.conj(xz(i - (N - m) + j))
            else:
                W[i, j] = xz(i - j + off)
    return C.shape == W.shape and close(np.asarray(C, dtype=complex), W, 1e-12), "corrmtx(%s) N=%d m=%d shape %s" % (method, N, m, C.shape)


NATIVE = {"correlation": correlation, "xcorr": xcorr, "corrmtx": corrmtx}


def _s(rng, hints):
    d = dict(hints)
    d["seed"] = rng.randint(1, 999)
    d["Nn"] = rng.choice([6, 9, 12, 15])
    d["L"] = rng.choice([0, 1, 3, 5])
    d["m"] = rng.choice([1, 2, 4])
    return d


SEARCH = {k: _s for k in NATIVE}


def coeff_unit(inp):
    """coeff normalisation: 1 at lag 0, CORRELATION and xcorr agree, negative lags are conjugates"""
    import numpy as np
    import spectrum
    from spectrum.correlation import CORRELATION, xcorr
    from .native_common import close
    rng = np.random.RandomState(2)
    cx = bool(inp.get("complex"))
    for N in (int(inp.get("N", 7)), 5, 12, 33):
        x = rng.randn(N) + (1j * rng.randn(N) if cx else 0)
        L = N - 1
        r = np.asarray(CORRELATION(x, maxlags=L, norm="coeff"))
        t, lags = xcorr(x, maxlags=L, norm="coeff")
        t = np.asarray(t)
        want = np.array([np.sum(x[k:] * np.conj(x[:N - k])) for k in range(N)]) / np.sum(np.abs(x) ** 2)
        if abs(r[0] - 1) > 1e-12 or not close(r, want, 1e-10):
            return False, "CORRELATION(coeff) N=%d: r[0]=%r, max|diff to definition| %.3g" % (N, r[0], float(np.max(np.abs(r - want))))
        if len(t) != 2 * L + 1 or abs(t[L] - 1) > 1e-12 or not close(t[L:], r, 1e-10) or not close(t[:L][::-1], np.conj(r[1:]), 1e-10):
            return False, "xcorr(coeff) N=%d: lag 0 = %r; disagrees with CORRELATION or is not Hermitian" % (N, t[L] if len(t) > L else None)
    return True, "coeff normalisation: unit at lag 0, consistent, Hermitian"


NATIVE = dict(NATIVE)
SEARCH = dict(SEARCH)
NATIVE["coeff_unit"] = coeff_unit
SEARCH["coeff_unit"] = lambda rng, h: dict(h)
