"""native oracles for C04 replays: the relations of the statement checked on the real functions / classes with numpy"""
import numpy as np
from .native_common import Skip, close
from .C13_native import _x
from .native_funcs import NATIVE as _N, SEARCH as _S


def _est(name):
    import spectrum
    from spectrum.correlation import CORRELATION
    return {
        "CORRELATION.biased": lambda x, p: (np.asarray(CORRELATION(x, maxlags=p, norm="biased")),),
        "CORRELATION.unbiased": lambda x, p: (np.asarray(CORRELATION(x, maxlags=p, norm="unbiased")),),
        "CORRELATION.coeff": lambda x, p: (np.asarray(CORRELATION(x, maxlags=p, norm="coeff")),),
        "aryule": lambda x, p: spectrum.aryule(x, p),
        "arburg": lambda x, p: spectrum.arburg(x, p),
        "arcovar": lambda x, p: spectrum.arcovar(x, p),
        "modcovar": lambda x, p: spectrum.modcovar(x, p),
    }[name]


KINDS = {"CORRELATION.biased": ("seq0",), "CORRELATION.unbiased": ("seq0",), "CORRELATION.coeff": ("seq0",), "aryule": ("seq1", "inv", "seq1"),
         "arburg": ("seq1", "inv", "seq1"), "arcovar": ("seq1", "inv"), "modcovar": ("seq1", "inv")}


def c04core(inp):
    est, tr = inp.get("est", "arburg"), inp.get("transform", "mod")
    f = _est(est)
    for (N, p, seed) in ((int(inp.get("N", 12)), int(inp.get("p", 2)), 1), (16, 3, 2), (9, 2, 3)):
        if N - p < p + 1:
            continue
        x = _x(N, tr != "declared", seed)
        n = np.arange(N)
        for theta in (0.7, 2.1, -1.3):
            u = np.exp(1j * theta)
            if tr == "mod":
                x2 = x * u ** n
            elif tr == "conj":
                x2 = np.conj(x)
            elif tr == "declared":
                x2 = x.astype(complex)
            else:
                x2 = np.conj(x[::-1])
            b, c = f(x.copy(), p), f(x2.copy(), p)
            for kind, vb, vc in zip(KINDS[est], b, c):
                vb, vc = np.atleast_1d(np.asarray(vb)), np.atleast_1d(np.asarray(vc))
                if kind == "inv" or tr in ("rev", "declared"):
                    want = vb
                elif tr == "mod":
                    off = 1 if kind == "seq1" else 0
                    want = vb * u ** (np.arange(len(vb)) + off)
                else:
                    want = np.conj(vb)
                if not close(vc, want, 1e-8):
                    return False, "%s, %s (N=%d, p=%d, theta=%.1f): outputs of the transformed data are not the transformed outputs, max|diff| = %.3g" % (
                        est, tr, N, p, theta, float(np.max(np.abs(vc - want))))
            if tr != "mod":
                break
    return True, "%s transforms covariantly under %s" % (est, tr)


def _cls(name, data, p, NFFT):
    import spectrum
    if name == "Periodogram":
        o = spectrum.Periodogram(data, NFFT=NFFT, window="rectangular")
    elif name == "pcorrelogram":
        o = spectrum.pcorrelogram(data, lag=p, NFFT=NFFT, window="rectangular")
    else:
        o = getattr(spectrum, name)(data, p, NFFT=NFFT)
    o()
    return np.asarray(o.psd)


REV = {"pyule", "pburg", "pmodcovar", "pminvar", "pcorrelogram", "Periodogram"}


def c04psd(inp):
    cls, tr = inp.get("cls", "pburg"), inp.get("transform", "mod")
    p0, nf0 = int(inp.get("p", 2)), int(inp.get("NFFT", 16))
    for (N, p, NFFT, seed) in ((12, p0, nf0, 1), (20, 3, 32, 2), (15, 2, 21, 3)):
        if cls != "Periodogram" and p >= NFFT:
            continue
        if cls == "Periodogram" and NFFT < N:
            N = NFFT
        if N - p < p + 2:
            continue
        if tr == "real":
            x = _x(N, False, seed)
            one, two = _cls(cls, x.copy(), p, NFFT), _cls(cls, x.astype(complex), p, NFFT)
            want_len = NFFT // 2 + 1 if NFFT % 2 == 0 else (NFFT + 1) // 2
            if len(one) != want_len or len(two) != NFFT:
                return False, "%s (N=%d, p=%d, NFFT=%d): one-sided estimate has %d values (expected %d), two-sided %d" % (
                    cls, N, p, NFFT, len(one), want_len, len(two))
            if not close(one, 2 * two[:len(one)], 1e-8):
                return False, "%s (N=%d, p=%d, NFFT=%d): one-sided estimate of real data is not twice the first half of the two-sided one" % (cls, N, p, NFFT)
            continue
        x = _x(N, True, seed)
        base = _cls(cls, x.copy(), p, NFFT)
        if len(base) != NFFT:
            return False, "%s: two-sided estimate has %d values for NFFT=%d" % (cls, len(base), NFFT)
        n = np.arange(N)
        if tr == "mod":
            for m in range(1, NFFT):
                new = _cls(cls, x * np.exp(2j * np.pi * m * n / NFFT), p, NFFT)
                if not close(new, np.roll(base, m), 1e-7):
                    return False, "%s (N=%d, p=%d, NFFT=%d): modulation by %d bins does not rotate the estimate by %d bins" % (cls, N, p, NFFT, m, m)
        elif tr == "conj":
            new = _cls(cls, np.conj(x), p, NFFT)
            if not close(new, base[(-np.arange(NFFT)) % NFFT], 1e-7):
                return False, "%s (N=%d, p=%d, NFFT=%d): conjugating the data does not mirror the estimate" % (cls, N, p, NFFT)
        elif cls in REV:
            new = _cls(cls, np.conj(x[::-1]), p, NFFT)
            if not close(new, base, 1e-7):
                return False, "%s (N=%d, p=%d, NFFT=%d): conjugated, time-reversed data give a different spectrum" % (cls, N, p, NFFT)
    return True, "%s: %s relation holds" % (cls, tr)


NATIVE = dict(_N)
NATIVE.update({"c04core": c04core, "c04psd": c04psd})
SEARCH = dict(_S)
SEARCH.update({k: (lambda rng, h: dict(h)) for k in ("c04core", "c04psd")})
