"""The twelve PSD classes as the contracts see them: attribute lists, estimator stubs
(assumed *shape* contracts of the functional estimators, used where a class method is
verified modularly), helpers to build objects in arbitrary states."""
from fractions import Fraction
from pyvc import values as V
from pyvc.values import Arr, Arr2, Cx, Obj, Enum, Unsupported
from . import specs
from .objs import range_obj

WINDOWS = None   # filled from the real window_names table on first use

CLASSES = {
    "Periodogram": dict(q="spectrum.periodogram.Periodogram", base="Fourier"),
    "pcorrelogram": dict(q="spectrum.correlog.pcorrelogram", base="Fourier"),
    # pburg.__call__ passes B=self.ma to arma2psd: `ma` is an *input* of that class
    "pburg": dict(q="spectrum.burg.pburg", base="Parametric", plain=["criteria", "ma"]),
    "pyule": dict(q="spectrum.yulewalker.pyule", base="Parametric", plain=["_norm_aryule"]),
    "pcovar": dict(q="spectrum.covar.pcovar", base="Parametric"),
    "pmodcovar": dict(q="spectrum.modcovar.pmodcovar", base="Parametric"),
    "parma": dict(q="spectrum.arma.parma", base="Parametric"),
    "pma": dict(q="spectrum.arma.pma", base="Parametric"),
    "pminvar": dict(q="spectrum.minvar.pminvar", base="Parametric"),
    "pmusic": dict(q="spectrum.eigenfre.pmusic", base="Parametric", plain=["NSIG", "threshold", "criteria", "verbose"]),
    "pev": dict(q="spectrum.eigenfre.pev", base="Parametric", plain=["NSIG", "threshold", "criteria", "verbose"]),
    "MultiTapering": dict(q="spectrum.mtm.MultiTapering", base="Spectrum", plain=["NW", "k", "e", "v"]),
}

# alpha: the user-visible attributes, read through the public accessors (the API of the statement)
SPECTRUM_ALPHA = ["data", "data_y", "sampling", "NFFT", "detrend", "scale_by_freq"]
FOURIER_ALPHA = ["window", "lag"]
PARAM_ALPHA = ["ar_order", "ma_order", "lag"]


def alpha_names(cname):
    c = CLASSES[cname]
    names = list(SPECTRUM_ALPHA)
    if c["base"] == "Fourier":
        names += FOURIER_ALPHA
    elif c["base"] == "Parametric":
        names += PARAM_ALPHA
    if cname == "MultiTapering":
        names += ["method"]
    names += c.get("plain", [])
    return names


def alpha_values(I, obj, cname):
    I.in_spec += 1
    try:
        return [(nm, I.getattr(obj, nm)) for nm in alpha_names(cname)]
    finally:
        I.in_spec -= 1


def alpha_keys(I, obj, cname):
    keys = []
    for nm, v in alpha_values(I, obj, cname):
        keys += I.dom.key_terms(v)
    return keys


def default_sides(datatype):
    return "onesided" if datatype == "real" else "twosided"


def make_state(I, dom, cname, datatype, tag="", sides=None, cache="valid", modified=None, fresh=False,
               shared=None):
    """An object of class `cname` in a symbolic state.  `shared` (a dict) carries the
    attribute symbols so that two objects can agree on alpha and differ in hidden state.
    cache: 'none' | 'valid' (= conv(EST(alpha), default -> sides)) | 'arbitrary'"""
    import z3
    from pyvc.z3dom import R
    c = CLASSES[cname]
    cls = I.program.find_class(c["q"])
    o = Obj(cls)
    a = o.attrs
    sh = shared if shared is not None else {}

    def sym(name, mk):
        if name not in sh:
            sh[name] = mk()
        return sh[name]
    N = sym("N", lambda: dom.input_int("N"))
    I.assume(V.s_cmp(">=", N, 1))
    data = sym("data", lambda: dom.input_array("data", N, "complex" if datatype == "complex" else "float"))
    fs = sym("sampling", lambda: dom.input_real("sampling"))
    I.assume(V.s_cmp(">", fs, 0))
    nfft = sym("NFFT", lambda: dom.input_int("NFFT"))
    I.assume(V.s_cmp(">=", nfft, 1))

    def enum(name, choices):
        def mk():
            e, dc = dom.enum(name, choices)
            I.pc.append(dc)
            return e
        return sym(name, mk)
    a["_Spectrum__data"] = data
    a["_Spectrum__data_y"] = None
    a["_Spectrum__sampling"] = fs
    a["_Spectrum__NFFT"] = nfft
    a["_Spectrum__detrend"] = enum("detrend", [None, "mean"])
    a["_Spectrum__scale_by_freq"] = enum("scale_by_freq", [True, False])
    a["_Spectrum__N"] = N
    a["_Spectrum__datatype"] = datatype
    a["_Spectrum__method"] = None
    if c["base"] == "Fourier":
        global WINDOWS
        if WINDOWS is None:
            wn = I.module_attr(I.program.module("spectrum.window"), "window_names")
            WINDOWS = list(wn.keys())
        a["_FourierSpectrum__window"] = enum("window", WINDOWS)
        a["_FourierSpectrum__lag"] = sym("lag", lambda: dom.input_int("lag"))
    if c["base"] == "Parametric":
        a["_ParametricSpectrum__ar_order"] = sym("ar_order", lambda: dom.input_int("ar_order"))
        I.assume(V.s_cmp(">=", a["_ParametricSpectrum__ar_order"], 0))
        a["_ParametricSpectrum__ma_order"] = sym("ma_order", lambda: dom.input_int("ma_order"))
        I.assume(V.s_cmp(">=", a["_ParametricSpectrum__ma_order"], 0))
        a["_ParametricSpectrum__lag"] = sym("plag", lambda: dom.input_int("plag"))
        a["_ParametricSpectrum__ma"] = None
        # outputs of earlier computations: hidden state
        a["_ParametricSpectrum__ar"] = None
        a["_ParametricSpectrum__reflection"] = None
        a["_ParametricSpectrum__rho"] = None
    for nm in c.get("plain", []):
        if nm in ("criteria",):
            a[nm] = enum("criteria", [None, "AIC", "MDL", "aic", "mdl"])
        elif nm == "_norm_aryule":
            a[nm] = enum("norm_aryule", ["biased", "unbiased"])
        elif nm == "verbose":
            a[nm] = False
        elif nm in ("NSIG", "k"):
            a[nm] = sym(nm, lambda nm=nm: dom.input_int(nm))
        elif nm in ("threshold", "NW"):
            a[nm] = sym(nm, lambda nm=nm: dom.input_real(nm))
        elif nm in ("e", "v"):
            a[nm] = None
        elif nm == "ma":
            pass
    if cname == "MultiTapering":
        a["_Spectrum__method"] = enum("mt_method", ["adapt", "eigen", "unity"])
    # ---- hidden state
    ds = default_sides(datatype)
    sd = sides or ds
    a["_Spectrum__sides"] = sd
    a["_Spectrum__df"] = dom.fresh_real("deaddf" + tag)
    a["_range"] = range_obj(I, nfft, fs)
    if cache == "none":
        a["_Spectrum__psd"] = None
        a["modified"] = True if modified is None else modified
    elif cache == "valid":
        est = est_array(I, o, cname, datatype)
        a["_Spectrum__psd"] = specs.convert(est, ds, sd, nfft)
        a["_Spectrum__psd"].ident = None
        a["modified"] = False if modified is None else modified
    else:
        ln = dom.fresh_int("cachelen" + tag)
        I.assume(V.s_cmp(">=", ln, 0))
        a["_Spectrum__psd"] = dom.opaque_array("stale" + tag, [], ln, "float")
        a["modified"] = True if modified is None else modified
    return o, sh


def est_array(I, obj, cname, datatype):
    """EST_K(alpha): the estimate determined by the current attribute values, on the default sides"""
    dom = I.dom
    keys = alpha_keys(I, obj, cname)
    nfft = obj.attrs["_Spectrum__NFFT"]
    n = specs.len_sides(default_sides(datatype), nfft)
    return dom.opaque_array("EST_" + cname, keys, n, "float")


def call_contract(cname, datatype):
    """abstract contract of K.__call__ (proved against the real __call__ by the C07 'call.*' tasks):
    cache := EST_K(alpha) on the default sides, sides := default, modified := False, alpha unchanged"""
    def stub(I, self, *a, **k):
        dom = I.dom
        at = self.attrs
        at["_Spectrum__psd"] = est_array(I, self, cname, datatype)
        at["_Spectrum__psd"].ident = None
        at["_Spectrum__sides"] = default_sides(datatype)
        at["modified"] = False
        return self
    return stub


# ---------------------------------------------------------------------------------
# assumed shape contracts of the functional estimators (each is itself verified against
# the real body in the property that owns it: C01/C02/C09/C13/...)


def _isreal(x):
    return x.dtype != "complex"


def estimator_stubs(dom):
    K = dom.key_terms

    def speriodogram(I, x, NFFT=None, detrend=True, sampling=Fraction(1), scale_by_freq=True, window="hamming", axis=0):
        if NFFT is None:
            NFFT = x.n
        keys = K([x, NFFT, detrend, sampling, scale_by_freq, window])
        n = (V.s_floordiv(NFFT, 2) + 1) if _isreal(x) else NFFT
        return dom.opaque_array("speriodogram", keys, n, "float")

    def CORRELOGRAMPSD(I, X, Y=None, lag=-1, window="hamming", norm="unbiased", NFFT=4096, window_params={},
                       correlation_method="xcorr"):
        if NFFT is None:
            NFFT = X.n
        keys = K([X, Y, lag, window, norm, NFFT, correlation_method])
        return dom.opaque_array("CORRELOGRAMPSD", keys, NFFT, "float")

    def arburg(I, X, order, criteria=None):
        keys = K([X, order, criteria])
        return (dom.opaque_array("arburg_a", keys, order, "complex"), dom.opaque_real("arburg_rho", keys),
                dom.opaque_array("arburg_ref", keys, order, "complex"))

    def aryule(I, X, order, norm="biased", allow_singularity=True):
        keys = K([X, order, norm, allow_singularity])
        dt = "float" if _isreal(X) else "complex"
        return (dom.opaque_array("aryule_a", keys, order, dt), dom.opaque_real("aryule_P", keys),
                dom.opaque_array("aryule_k", keys, order, dt))

    def arcovar(I, x, order):
        keys = K([x, order])
        return (dom.opaque_array("arcovar_a", keys, order, "float" if _isreal(x) else "complex"),
                dom.opaque_real("arcovar_e", keys))

    def modcovar(I, x, order):
        keys = K([x, order])
        return (dom.opaque_array("modcovar_a", keys, order, "float" if _isreal(x) else "complex"),
                dom.opaque_real("modcovar_e", keys))

    def arma_estimate(I, X, P, Q, lag):
        keys = K([X, P, Q, lag])
        return (dom.opaque_array("arma_ar", keys, P, "complex"), dom.opaque_array("arma_ma", keys, Q, "complex"),
                dom.opaque_real("arma_rho", keys))

    def ma(I, X, Q, M):
        keys = K([X, Q, M])
        return (dom.opaque_array("ma_b", keys, Q, "float" if _isreal(X) else "complex"), dom.opaque_real("ma_rho", keys))

    def minvar(I, X, order, sampling=Fraction(1), NFFT=4096):
        keys = K([X, order, sampling, NFFT])
        return (dom.opaque_array("minvar_psd", keys, NFFT, "float"), dom.opaque_array("minvar_A", keys, order, "complex"),
                dom.opaque_array("minvar_k", keys, order - 1, "complex"))

    def eigen(I, X, P, NSIG=None, method="music", threshold=None, NFFT=4096, criteria="aic", verbose=False):
        keys = K([X, P, NSIG, method, threshold, NFFT, criteria])
        return (dom.opaque_array("eigen_psd", keys, NFFT, "float"), dom.opaque_array("eigen_S", keys, P, "float"))

    def pmtm(I, x, NW=None, k=None, NFFT=None, e=None, v=None, method="adapt", show=False):
        keys = K([x, NW, k, NFFT, e, v, method])
        nwin = dom.opaque_int("pmtm_nwin", K([x, NW, k, e, v]))
        I.assume(V.s_cmp(">=", nwin, 1))
        sk = dom.opaque_array2("pmtm_Sk", keys, nwin, NFFT, "complex")
        is_adapt = V.enum_eq(method, "adapt") if isinstance(method, Enum) else (method == "adapt")
        if isinstance(is_adapt, bool):
            ad = is_adapt
        elif I.in_spec:
            ad = V.known(is_adapt)
            if ad is None:
                raise Unsupported("pmtm contract evaluated in a specification with an undetermined method")
        else:
            ad = I.branch(is_adapt)
        if ad:
            w = dom.opaque_array2("pmtm_w_adapt", keys, NFFT, nwin, "float")
        else:
            w = dom.opaque_array2("pmtm_w", keys, nwin, 1, "float")
        return (sk, w, dom.opaque_array("pmtm_eig", K([x, NW, k, e, v]), nwin, "float"))

    return {
        "spectrum.periodogram.speriodogram": speriodogram,
        "spectrum.correlog.CORRELOGRAMPSD": CORRELOGRAMPSD,
        "spectrum.burg.arburg": arburg,
        "spectrum.yulewalker.aryule": aryule,
        "spectrum.covar.arcovar": arcovar,
        "spectrum.modcovar.modcovar": modcovar,
        "spectrum.arma.arma_estimate": arma_estimate,
        "spectrum.arma.ma": ma,
        "spectrum.minvar.minvar": minvar,
        "spectrum.eigenfre.eigen": eigen,
        "spectrum.mtm.pmtm": pmtm,
    }
