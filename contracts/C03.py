"""C03  Estimates are quadratic in signal amplitude -- engine E2 (homogeneity types).

Every functional estimator and every class __call__ is executed by the interpreter on the REAL
source with scalars replaced by degree types (data: c^1; see pyvc/degdom.py).  Obligations per run:
  well-typed        no sum / comparison / branch mixes quantities that scale differently with c
                    (each type error names the source line: un-conjugated product, constant added to a
                    power, unscaled tolerance, data-scale dependent order decision ...)
  degree(<output>)  every returned value / exposed attribute has the degree the statement requires:
                    coefficients, reflection coefficients, weights 0; variances and PSDs |c|^2; MUSIC 0; EV |c|
Each run covers all data vectors and all scalars c of the given shape ("bounded in shape"); shapes
are varied over several lengths and orders (the loop structure does not depend on the data).
"""
from fractions import Fraction
from pyvc import values as V
from pyvc.values import Arr, Arr2, Cx, Obj
from pyvc.harness import Task
from pyvc.degdom import DegDom, Dg, dg_of
from . import model

META = {
    "level": "other",
    "functions": ["spectrum.burg.arburg", "spectrum.yulewalker.aryule", "spectrum.levinson.LEVINSON", "spectrum.correlation.CORRELATION",
                  "spectrum.correlation.xcorr", "spectrum.covar.arcovar", "spectrum.covar.arcovar_marple", "spectrum.modcovar.modcovar",
                  "spectrum.modcovar.modcovar_marple", "spectrum.arma.ma", "spectrum.arma.arma_estimate", "spectrum.arma.arma2psd",
                  "spectrum.minvar.minvar", "spectrum.eigenfre.eigen", "spectrum.mtm.pmtm", "spectrum.periodogram.speriodogram",
                  "spectrum.correlog.CORRELOGRAMPSD", "spectrum.criteria.*"] + [c["q"] + ".{__init__,__call__}" for c in model.CLASSES.values()],
    "assumptions": ["A-REAL", "library degree rules: fft linear; lstsq(A,b): deg b - deg A row-wise; svd: singular values |deg A|, "
                    "singular vectors degree 0 up to a unit phase; windows and tapers are constants",
                    "data dependent branches are followed on the generic path (non-raising arm; a criterion stop is not taken); "
                    "what every branch condition compares is type-checked, which is the 'decisions unchanged' clause",
                    "assert statements: a tolerance that does not scale with the data is recorded as a robustness note, not as "
                    "a violation (the asserted quantity is exactly 0 in exact arithmetic)",
                    "dpss (C routine) is a constant (independent of the data)"],
    "trusted_base": [],
    "explanation": "Deductive, bounded in shape: homogeneity typing of the real code proves estimate(c*x) = |c|^k estimate(x) for all "
                   "data values and all scalars c at the array shapes listed in coverage.samples; shapes do not influence the typing "
                   "rules (loop structure is data independent), but no induction over the shape is claimed.",
    "bounded_note": "all obligations are bounded in shape (N, order, NFFT concrete), unbounded in the data values and in c",
}

F = Fraction
DATA = (1, 0)
ZERO = (0, 0)
PWR = (1, 1)
HALF = (F(1, 2), F(1, 2))


def deg_ok(dom, v, want):
    """does value v (scalar / array) have degree `want` = (a, b)?"""
    vals = v.to_list() if isinstance(v, Arr) else ([v.at(i, j) for i in range(v.r) for j in range(v.c)] if isinstance(v, Arr2) else [v])
    w = Dg(*want)
    bad = []
    for x in vals:
        d = dg_of(x)
        if d.zero:
            continue
        if d.part is not None or not dom.same(d, w):
            bad.append(d)
    return bad


def dpss_stub(dom):
    def dpss(I, N, NW=None, k=None):
        if k is None:
            k = max(1, min(int(round(2 * NW)), N))
        tap = Arr2(N, k, rows=[[Dg(0, 0) for _ in range(k)] for _ in range(N)], dtype="float")
        return [tap, Arr(k, items=[Dg(0, 0) for _ in range(k)], dtype="float")]
    return {"spectrum.mtm.dpss": dpss}


def e2_task(name, call, outputs, complex_, shape_desc, native=None):
    """call(I, dom) -> value ; outputs(value) -> list of (label, value, expected degree)"""
    def run(tc):
        dom = DegDom(real_mode=not complex_)
        tc.dom = dom
        from pyvc.interp import Interp
        I = Interp(tc.program, dom, tc.lib, stubs=dpss_stub(dom))
        hints = dict(native or {})
        tc.native = ("scaling", hints)
        hints.update({"complex": complex_, "shape": shape_desc})

        def post(P):
            if P.outcome != "return":
                P.fail("no-exception", "raises %s on the generic path" % P.value.exc, replay=("scaling", hints))
                return
            if dom.errors:
                for e in dom.errors:
                    r = tc.add_result("well-typed[%s]" % e.where, "refuted", detail=e.what + " @ " + e.where,
                                      model={"shape": shape_desc})
                    r.clause = "well-typed[%s]" % e.where
                    r.replay = ("scaling", hints)
            else:
                P.ok("well-typed", "no degree mismatch in %s" % name)
            for label, v, want in outputs(P.value):
                bad = deg_ok(dom, v, want)
                if bad:
                    P.fail("degree(%s)" % label, "%s has degree %s, required c^%s cbar^%s" % (label, bad[0], want[0], want[1]),
                           replay=("scaling", hints), model={"shape": shape_desc})
                else:
                    P.ok("degree(%s)" % label)
            for e in dom.assert_notes:
                tc.notes.append("robustness note (not a violation): %s @ %s" % (e.what, e.where))
            if len(tc.samples) < 2:
                tc.samples.append({"obligation": "%s/%s" % (tc.prop, name), "shape": shape_desc, "complex": complex_,
                                   "outputs": [(l, str(dg_of((v.to_list() or [0])[0] if isinstance(v, Arr) else (v.at(0, 0) if isinstance(v, Arr2) else v))))
                                               for l, v, w in outputs(P.value)]})
        tc.run_paths(I, lambda I_: call(I_, dom), post)
    return Task(name, run, kind="bounded", timeout=300)


def data(dom, n, cx):
    return dom.data_array(n, cx)


def fn_tasks(N, p, cx):
    tag = "%s.N%d.p%d" % ("complex" if cx else "real", N, p)
    sd = {"N": N, "order": p}
    ts = []

    def add(name, call, outs, native=None):
        ts.append(e2_task("%s.%s" % (name, tag), call, outs, cx, sd, dict(fn=name, **(native or {}))))
    add("arburg", lambda I, d: I.call_qual("spectrum.burg.arburg", data(d, N, cx), p),
        lambda r: [("a", r[0], ZERO), ("rho", r[1], PWR), ("reflection", r[2], ZERO)])
    for crit in ("AIC", "MDL", "FPE", "AICc", "KIC", "AKICc"):
        add("arburg+" + crit, lambda I, d, crit=crit: I.call_qual("spectrum.burg.arburg", data(d, N, cx), p, crit),
            lambda r: [("a", r[0], ZERO), ("rho", r[1], PWR), ("reflection", r[2], ZERO)], {"criteria": crit})
    add("aryule", lambda I, d: I.call_qual("spectrum.yulewalker.aryule", data(d, N, cx), p),
        lambda r: [("a", r[0], ZERO), ("P", r[1], PWR), ("reflection", r[2], ZERO)])
    add("CORRELATION", lambda I, d: I.call_qual("spectrum.correlation.CORRELATION", data(d, N, cx), None, p, "biased"),
        lambda r: [("r", r, PWR)])
    add("xcorr", lambda I, d: I.call_qual("spectrum.correlation.xcorr", data(d, N, cx), None, p, "unbiased"),
        lambda r: [("r", r[0], PWR)])
    add("arcovar", lambda I, d: I.call_qual("spectrum.covar.arcovar", data(d, N, cx), p),
        lambda r: [("a", r[0], ZERO), ("e", r[1], PWR)])
    add("modcovar", lambda I, d: I.call_qual("spectrum.modcovar.modcovar", data(d, N, cx), p),
        lambda r: [("a", r[0], ZERO), ("e", r[1], PWR)])
    add("arcovar_marple", lambda I, d: I.call_qual("spectrum.covar.arcovar_marple", data(d, N, cx), p),
        lambda r: [("af", r[0], ZERO), ("pf", r[1], PWR), ("ab", r[2], ZERO), ("pb", r[3], PWR)])
    add("modcovar_marple", lambda I, d: I.call_qual("spectrum.modcovar.modcovar_marple", data(d, N, cx), p),
        lambda r: [("a", r[0], ZERO), ("p", r[1], PWR)])
    add("ma", lambda I, d: I.call_qual("spectrum.arma.ma", data(d, N, cx), p, 2 * p),
        lambda r: [("ma", r[0], ZERO), ("rho", r[1], PWR)])
    if N >= 4 * p + 4:
        add("arma_estimate", lambda I, d: I.call_qual("spectrum.arma.arma_estimate", data(d, N, cx), p, max(p - 1, 1), 2 * p),
            lambda r: [("ar", r[0], ZERO), ("ma", r[1], ZERO), ("rho", r[2], PWR)])
    add("minvar", lambda I, d: I.call_qual("spectrum.minvar.minvar", data(d, N, cx), p + 1, F(1), 4 * p + 4),
        lambda r: [("PSD", r[0], PWR), ("A", r[1], ZERO), ("reflection", r[2], ZERO)])
    add("eigen.music", lambda I, d: I.call_qual("spectrum.eigenfre.eigen", data(d, N, cx), p + 1, 1, "music", None, 4 * p + 4),
        lambda r: [("pseudo-spectrum", r[0], ZERO), ("singular values", r[1], HALF)], {"method": "music"})
    add("eigen.ev", lambda I, d: I.call_qual("spectrum.eigenfre.eigen", data(d, N, cx), p + 1, 1, "ev", None, 4 * p + 4),
        lambda r: [("pseudo-spectrum", r[0], HALF), ("singular values", r[1], HALF)], {"method": "ev"})
    # order selection inside eigen (NSIG=None): the selected dimension must not depend on the amplitude, i.e. every entry of the
    # criterion vector carries the same additive offset in log|c| (argmin over mixed offsets is a degree error)
    for crit in ("aic", "mdl"):
        add("eigen.music+" + crit, lambda I, d, crit=crit: I.call_qual("spectrum.eigenfre.eigen", data(d, N, cx), p + 2, None, "music", None, 4 * p + 4, crit),
            lambda r: [("pseudo-spectrum", r[0], ZERO), ("singular values", r[1], HALF)], {"method": "music", "criteria": crit})
    add("speriodogram", lambda I, d: I.call_qual("spectrum.periodogram.speriodogram", data(d, N, cx), 2 * N, False, F(1), True, "hann"),
        lambda r: [("psd", r, PWR)])
    add("CORRELOGRAMPSD", lambda I, d: I.call_qual("spectrum.correlog.CORRELOGRAMPSD", data(d, N, cx), None, p, "hamming", "unbiased", 2 * N),
        lambda r: [("psd", r, PWR)])
    for method in ("unity", "eigen", "adapt"):
        add("pmtm." + method, lambda I, d, method=method: I.call_qual("spectrum.mtm.pmtm", data(d, N, cx), F(5, 2), None, 2 * N, None, None, method),
            lambda r: [("eigenspectra", r[0], DATA), ("weights", r[1], ZERO), ("eigenvalues", r[2], ZERO)], {"method": method})
    return ts


CLS_ARGS = {
    "Periodogram": lambda x, p, n: dict(data=x, NFFT=n),
    "pcorrelogram": lambda x, p, n: dict(data=x, lag=p, NFFT=n),
    "pburg": lambda x, p, n: dict(data=x, order=p, NFFT=n),
    "pyule": lambda x, p, n: dict(data=x, order=p, NFFT=n),
    "pcovar": lambda x, p, n: dict(data=x, order=p, NFFT=n),
    "pmodcovar": lambda x, p, n: dict(data=x, order=p, NFFT=n),
    "parma": lambda x, p, n: dict(data=x, P=p, Q=max(p - 1, 1), lag=2 * p, NFFT=n),
    "pma": lambda x, p, n: dict(data=x, Q=p, M=2 * p, NFFT=n),
    "pminvar": lambda x, p, n: dict(data=x, order=p + 1, NFFT=n),
    "pmusic": lambda x, p, n: dict(data=x, IP=p + 1, NSIG=1, NFFT=n),
    "pev": lambda x, p, n: dict(data=x, IP=p + 1, NSIG=1, NFFT=n),
    "MultiTapering": lambda x, p, n: dict(data=x, NW=F(5, 2), NFFT=n, method="adapt"),
}
PSD_DEG = {"pmusic": ZERO, "pev": HALF}
EXPOSED = {"pburg": [("ar", ZERO), ("rho", PWR), ("reflection", ZERO)], "pyule": [("ar", ZERO), ("reflection", ZERO)],
           "pcovar": [("ar", ZERO), ("rho", PWR)], "pmodcovar": [("ar", ZERO), ("rho", PWR)], "parma": [("ar", ZERO), ("ma", ZERO), ("rho", PWR)],
           "pma": [("ma", ZERO), ("rho", PWR)], "pminvar": [("ar", ZERO), ("reflection", ZERO)],
           "pmusic": [("eigenvalues", HALF)], "pev": [("eigenvalues", HALF)], "MultiTapering": [("weights", ZERO), ("eigenvalues", ZERO)]}


def cls_tasks(N, p, cx):
    ts = []
    for cname, mk in CLS_ARGS.items():
        if cname == "parma" and N < 4 * p + 4:
            continue

        def call(I, d, cname=cname, mk=mk):
            x = data(d, N, cx)
            o = I.call(I.class_ref(model.CLASSES[cname]["q"]), [], mk(x, p, 2 * N))
            I.call(o, [], {})
            out = {"psd": I.getattr(o, "psd")}
            for nm, _ in EXPOSED.get(cname, []):
                out[nm] = I.getattr(o, nm)
            return out

        def outs(r, cname=cname):
            o = [("psd", r["psd"], PSD_DEG.get(cname, PWR))]
            for nm, deg in EXPOSED.get(cname, []):
                o.append((nm, r[nm], deg))
            return o
        ts.append(e2_task("class.%s.%s.N%d.p%d" % (cname, "complex" if cx else "real", N, p), call, outs, cx,
                          {"N": N, "order": p}, dict(fn="class", cls=cname)))
    return ts


def tasks(tier):
    shapes = [(12, 2), (17, 3)] if tier == "quick" else [(12, 2), (17, 3), (24, 5), (33, 4), (40, 8)]
    ts = []
    for (N, p) in shapes:
        for cx in (False, True):
            ts += fn_tasks(N, p, cx)
            ts += cls_tasks(N, p, cx)
    return ts
