"""native oracles for C16 replays (shared implementations)"""
from .native_common import Skip
from .native_funcs import NATIVE, SEARCH
