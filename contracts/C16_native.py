"""native oracles for C16 replays (shared implementations)"""
from .native_common import Skip
from .native_funcs import NATIVE, SEARCH
import numpy as np
from .native_common import close


def musicus(inp):
    """minvar(x, m, T, NFFT)[k] = T / (e_k^H R^-1 e_k), R the m x m Toeplitz autocorrelation matrix of the order m-1 Burg model;
    R^-1 by the Gohberg-Semencul formula (independent of the library's psi sequence)"""
    import spectrum
    cx = bool(inp.get("complex"))
    rng = np.random.RandomState(11)
    m0 = int(inp.get("m", 3))
    for (N, m, n, T) in ((24, m0, max(int(inp.get("NFFT", 16)), 2 * m0), 1.0), (32, 4, 16, 2.5), (20, 2, 9, 0.5), (40, 6, 33, 1.0)):
        x = rng.randn(N) + (1j * rng.randn(N) if cx else 0)
        psd, A, k = spectrum.minvar(x, m, T, n)
        a, P, ref = spectrum.arburg(x, m - 1)
        c = np.concatenate(([1.0], np.asarray(a)))
        if not (close(np.asarray(A), c, 1e-10) and close(np.asarray(k), np.asarray(ref), 1e-10)):
            return False, "minvar(m=%d) does not return [1, a_burg] / the Burg reflection coefficients of order m-1" % m
        L1 = np.array([[c[i - j] if i >= j else 0 for j in range(m)] for i in range(m)])
        d = np.concatenate(([0.0], np.conj(c[:0:-1])))
        L2 = np.array([[d[i - j] if i >= j else 0 for j in range(m)] for i in range(m)])
        Rinv = (L1 @ L1.conj().T - L2 @ L2.conj().T) / P
        idx = np.arange(m)
        want = np.array([T / np.real(np.exp(-2j * np.pi * kk * idx / n) @ Rinv @ np.exp(2j * np.pi * kk * idx / n)) for kk in range(n)])
        if not close(np.asarray(psd), want, 1e-7):
            return False, "minvar(N=%d, m=%d, NFFT=%d, T=%g): PSD is not T/(e^H R^-1 e); max rel diff %.3g" % (
                N, m, n, T, float(np.max(np.abs(np.asarray(psd) - want) / np.abs(want))))
    return True, "minimum-variance spectrum equals T/(e^H R^-1 e) (Gohberg-Semencul inverse of the Burg model's Toeplitz matrix)"


NATIVE = dict(NATIVE)
SEARCH = dict(SEARCH)
NATIVE["musicus"] = musicus
SEARCH["musicus"] = lambda rng, h: dict(h)
