"""native oracles for C10 replays: numeric versions of the same equations on the real functions"""
import numpy as np
from fractions import Fraction
from .native_common import Skip, close


def _pt(inp):
    pt = inp.get("point") or {}
    return {k: float(Fraction(v)) for k, v in pt.items()}


def _rc(inp, p, cx, rng):
    pt = _pt(inp)
    if pt and "r0" in pt:
        r0 = pt["r0"]
        ks = [complex(pt.get("k%d_r" % i, 0.0), pt.get("k%d_i" % i, 0.0)) if cx else pt.get("k%d" % i, 0.0) for i in range(p)]
    else:
        r0 = 2.5
        ks = [(rng.uniform(-.7, .7) + 1j * rng.uniform(-.5, .5)) if cx else rng.uniform(-.8, .8) for _ in range(p)]
    return r0, ks


def ac_from_rc(r0, ks):
    r = [r0]
    P = r0
    a = []
    for m, k in enumerate(ks, 1):
        acc = k * P + sum(a[j] * r[m - 1 - j] for j in range(len(a)))
        r.append(-acc)
        a = [a[j] + k * np.conj(a[len(a) - 1 - j]) for j in range(len(a))] + [k]
        P = P * (1 - abs(k) ** 2)
    return np.array(r), np.array(a), P


def levinson(inp):
    import spectrum
    rng = np.random.RandomState(3)
    if inp.get("mode") == "raise":
        allow = bool(inp.get("allow"))
        for r in ([1.0, 0.5, 0.2], [1.0, 1.5, 0.2], [1.0, 0.5, 3.0], [1.0, -0.99, 0.99]):
            r0, r1, r2 = r
            k1 = -r1 / r0
            P1 = r0 * (1 - k1 ** 2)
            bad = P1 <= 0
            if not bad:
                k2 = -(r2 + k1 * r1) / P1
                bad = P1 * (1 - k2 ** 2) <= 0
            try:
                spectrum.LEVINSON(np.array(r), allow_singularity=allow)
                raised = False
            except ValueError:
                raised = True
            if raised != (bad and not allow):
                return False, "LEVINSON(%s, allow_singularity=%s): raised=%s but some P<=0 is %s" % (r, allow, raised, bad)
        return True, "singularity test as stated"
    p, cx = int(inp["p"]), bool(inp.get("complex"))
    if inp.get("mode") == "generic":
        pt = _pt(inp)
        r = [pt.get("r0", 3.0)] + [(complex(pt.get("r%d_r" % i, 0.3 / i), pt.get("r%d_i" % i, 0.1)) if cx else pt.get("r%d" % i, 0.4 / i)) for i in range(1, p + 1)]
        r = np.array(r)
    else:
        r0, ks = _rc(inp, p, cx, rng)
        r, a_want, P_want = ac_from_rc(r0, ks)
    A, P, ref = spectrum.LEVINSON(np.array(r, dtype=complex if cx else float))
    T = np.array([[r[i - j] if i >= j else np.conj(r[j - i]) for j in range(p + 1)] for i in range(p + 1)])
    lhs = T @ np.concatenate(([1.0], A))
    ok = close(lhs, np.concatenate(([P], np.zeros(p))), 1e-9)
    if inp.get("mode") == "stable":
        roots = np.roots(np.concatenate(([1.0], A)))
        mx = float(np.max(np.abs(roots))) if len(roots) else 0.0
        if all(abs(k) < 1 for k in ks) and mx >= 1 - 1e-12:
            return False, "LEVINSON order %d: |k| = %s all < 1 but the returned polynomial has a root of modulus %.6g" % (p, [round(abs(k), 6) for k in ks], mx)
    if inp.get("mode") != "generic":
        ok = ok and close(ref, np.array(ks), 1e-9) and close(A, a_want, 1e-9) and abs(P - P_want) < 1e-9 * max(1, abs(P_want))
        for q in range(1, p):
            A2, P2, ref2 = spectrum.LEVINSON(np.array(r, dtype=complex if cx else float), q)
            ok = ok and close(ref2, np.array(ks[:q]), 1e-9)
    return ok, "LEVINSON order %d (%s): T[1,a]-[P,0..] max %.3g" % (p, "complex" if cx else "real", float(np.max(np.abs(lhs - np.concatenate(([P], np.zeros(p)))))))


def hermtoep(inp):
    from spectrum.toeplitz import HERMTOEP
    M = int(inp["M"])
    rng = np.random.RandomState(5)
    T0 = 4.0
    T = 0.6 * (rng.randn(M) + 1j * rng.randn(M))
    Z = rng.randn(M + 1) + 1j * rng.randn(M + 1)
    X = HERMTOEP(T0, T, Z)
    r = np.concatenate(([T0], T))
    A = np.array([[r[i - j] if i >= j else np.conj(r[j - i]) for j in range(M + 1)] for i in range(M + 1)])
    return close(A @ X, Z, 1e-9), "HERMTOEP M=%d residual %.3g" % (M, float(np.max(np.abs(A @ X - Z))))


def toeplitz(inp):
    from spectrum.toeplitz import TOEPLITZ
    M = int(inp["M"])
    rng = np.random.RandomState(6)
    T0 = 5.0 + 0j
    TC = 0.5 * (rng.randn(M) + 1j * rng.randn(M))
    TR = 0.5 * (rng.randn(M) + 1j * rng.randn(M))
    Z = rng.randn(M + 1) + 1j * rng.randn(M + 1)
    X = TOEPLITZ(T0, TC, TR, Z)
    A = np.array([[T0 if i == j else (TC[i - j - 1] if i > j else TR[j - i - 1]) for j in range(M + 1)] for i in range(M + 1)])
    return close(A @ X, Z, 1e-9), "TOEPLITZ M=%d residual %.3g" % (M, float(np.max(np.abs(A @ X - Z))))


def cholesky(inp):
    import spectrum
    n, method = int(inp["n"]), inp["method"]
    rng = np.random.RandomState(7)
    U = np.triu(rng.randn(n, n) + 1j * rng.randn(n, n)) + 3 * np.eye(n)
    A = U.conj().T @ U
    B = rng.randn(n) + 1j * rng.randn(n)
    X = spectrum.CHOLESKY(A, B, method)
    return close(A @ X, B, 1e-9), "CHOLESKY(%s) n=%d residual %.3g" % (method, n, float(np.max(np.abs(A @ X - B))))


NATIVE = {"levinson": levinson, "hermtoep": hermtoep, "toeplitz": toeplitz, "cholesky": cholesky}
SEARCH = {k: (lambda rng, h: dict(h)) for k in NATIVE}
