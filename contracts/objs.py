"""Building objects of the repository's classes in an arbitrary (symbolic) state, so
that one method can be verified from *every* state that satisfies the class invariant
and not only from states a constructor happens to produce."""
from pyvc.values import Obj
from pyvc import values as V


def range_obj(I, N, sampling):
    cls = I.program.find_class("spectrum.psd.Range")
    r = Obj(cls)
    r.attrs["_Range__N"] = N
    r.attrs["_Range__sampling"] = sampling
    r.attrs["_Range__df"] = V.s_div(sampling, V.to_float(N))
    return r


def spectrum_obj(I, clsname="spectrum.psd.Spectrum", **f):
    """fields: data, datatype, sampling, NFFT, sides, psd, modified, scale_by_freq, detrend,
    range_N, range_sampling (default: consistent with NFFT / sampling), extra=dict of raw attrs"""
    cls = I.program.find_class(clsname)
    o = Obj(cls)
    a = o.attrs
    data = f.get("data")
    a["_Spectrum__data"] = data
    a["_Spectrum__data_y"] = f.get("data_y")
    a["_Spectrum__sampling"] = f.get("sampling", 1)
    a["_Spectrum__detrend"] = f.get("detrend")
    a["_Spectrum__scale_by_freq"] = f.get("scale_by_freq", False)
    a["_Spectrum__sides"] = f.get("sides")
    a["_Spectrum__N"] = data.n if data is not None else f.get("N")
    a["_Spectrum__NFFT"] = f.get("NFFT")
    a["_Spectrum__df"] = f.get("dead_df")
    a["_Spectrum__datatype"] = f.get("datatype", "real")
    a["_Spectrum__psd"] = f.get("psd")
    a["_Spectrum__method"] = None
    a["modified"] = f.get("modified", False)
    a["_range"] = range_obj(I, f.get("range_N", f.get("NFFT")), f.get("range_sampling", f.get("sampling", 1)))
    for k, v in f.get("extra", {}).items():
        a[k] = v
    return o
