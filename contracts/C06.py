"""C06  Side conversions are lossless, length-consistent and axis-aligned.

Contracts (post-conditions are the statement's conversion, DESIGN Appendix B) on
tools.twosided_2_onesided / onesided_2_twosided / twosided_2_centerdc / centerdc_2_twosided /
cshift, Spectrum.get_converted_psd (six ordered pairs), Spectrum._setSides,
Range.{onesided,twosided,centerdc} and lemmas over the spec functions.
All obligations are unbounded: symbolic NFFT (both parities), symbolic PSD values, skolem index.
"""
from fractions import Fraction
from pyvc import values as V
from pyvc.values import Arr
from pyvc.harness import Task
from . import specs
from .objs import spectrum_obj

META = {
    "level": "proof",
    "functions": ["spectrum.tools.twosided_2_onesided", "spectrum.tools.onesided_2_twosided",
                  "spectrum.tools.twosided_2_centerdc", "spectrum.tools.centerdc_2_twosided", "spectrum.tools.cshift",
                  "spectrum.psd.Spectrum.get_converted_psd", "spectrum.psd.Spectrum._setSides",
                  "spectrum.psd.Spectrum.frequencies", "spectrum.psd.Range.onesided", "spectrum.psd.Range.twosided",
                  "spectrum.psd.Range.centerdc", "spectrum.arma.arma2psd (sides='centerdc' tail)"],
    "assumptions": ["A-REAL: floats are exact reals", "A-PY: encoded core-Python semantics (pyvc/interp.py)",
                    "'-> onesided' is only defined for real data, whose stored two-sided/centred PSD is symmetric "
                    "(two[k] = two[N-k]); assumed at the skolem index as a precondition"],
    "trusted_base": [],
    "explanation": "",
}

SIDES = ["onesided", "twosided", "centerdc"]


def tool_task(fname, mk_pre, mk_spec, native, hints=None):
    def run(tc):
        dom = tc.smt()
        I = tc.interp()

        def thunk(I):
            st = {}
            args = mk_pre(I, dom, st)
            I.st = st
            return I.call_qual("spectrum.tools." + fname, *args)

        def post(P):
            st = P.interp.st
            if P.outcome != "return":
                P.fail("no-exception", "raises %s on an admissible input" % P.value.exc, replay=(native, hints))
                return
            want = mk_spec(P, st)
            got = P.value
            if not isinstance(got, Arr):
                P.fail("type", "result is not a 1-D array")
                return
            P.prove_arr_eq("conv", got, want, replay=(native, hints))
        tc.run_paths(I, thunk, post)
    return Task("tools." + fname, run, functions=["spectrum.tools." + fname])


def pre_two_one(I, dom, st):
    N = dom.input_int("N")
    I.assume(V.s_cmp(">=", N, 2))
    I.assume(V.s_eq(V.s_mod(N, 2), 0))
    x = dom.input_array("x", N, "float")
    st.update(N=N, x=x)
    return [x]


def spec_two_one(P, st):
    N, x = st["N"], st["x"]
    want = specs.conv_two_one(x, N)
    # real data: the stored two-sided PSD is symmetric (instantiated where the spec reads it)
    return _sym_wrap(P, want, x, N)


def _sym_wrap(P, want, x, N):
    s = x.snap()
    inner = want.snap()

    def f(k):
        P.assume(V.b_or(V.b_or(V.s_cmp("<=", k, 0), V.s_cmp(">=", k, N)), V.s_eq(s(k), s(N - k))))
        return inner(k)
    return Arr(want.n, fn=f, dtype=want.dtype)


def pre_one_two(I, dom, st):
    L = dom.input_int("L")
    I.assume(V.s_cmp(">=", L, 2))
    x = dom.input_array("x", L, "float")
    st.update(N=2 * (L - 1), x=x)
    return [x]


def pre_any(I, dom, st):
    N = dom.input_int("N")
    I.assume(V.s_cmp(">=", N, 1))
    x = dom.input_array("x", N, "float")
    st.update(N=N, x=x)
    return [x]


def pre_cshift(I, dom, st):
    N = dom.input_int("N")
    k = dom.input_int("k")
    I.assume(V.s_cmp(">=", N, 1))
    x = dom.input_array("x", N, "float")
    st.update(N=N, x=x, k=k)
    return [x, k]


def spec_cshift(P, st):
    s = st["x"].snap()
    N, k = st["N"], st["k"]
    return Arr(N, fn=lambda i: s(V.s_mod(i - k, N)), dtype="float")


# ---------------------------------------------------------------------------------
# Spectrum.get_converted_psd / _setSides


def conv_task(src, dst, datatype, via_setter=False):
    name = "%s.%s_to_%s.%s" % ("setSides" if via_setter else "get_converted_psd", src, dst, datatype)

    def run(tc):
        dom = tc.smt()
        I = tc.interp()

        def thunk(I):
            N = dom.input_int("NFFT")
            I.assume(V.s_cmp(">=", N, 2 if "onesided" in (src, dst) else 1))
            psd = dom.input_array("psd", specs.len_sides(src, N), "float")
            fs = dom.input_real("sampling")
            I.assume(V.s_cmp(">", fs, 0))
            obj = spectrum_obj(I, NFFT=N, sides=src, psd=psd, datatype=datatype, sampling=fs, modified=False)
            I.st = dict(N=N, psd=psd, obj=obj, before=psd.snap(), fs=fs)
            if via_setter:
                I.setattr(obj, "sides", dst)
                res = obj.attrs["_Spectrum__psd"]
            else:
                res = I.call_qual("spectrum.psd.Spectrum.get_converted_psd", obj, dst)
            I.st["cache_after"] = obj.attrs["_Spectrum__psd"]
            I.st["sides_after"] = obj.attrs["_Spectrum__sides"]
            I.st["freq"] = I.call_qual("spectrum.psd.Spectrum.frequencies", obj, dst)
            return res

        def post(P):
            st = P.interp.st
            N, psd = st["N"], st["psd"]
            native = "convert"
            hints = {"src": src, "dst": dst, "datatype": datatype, "setter": via_setter}
            if P.outcome != "return":
                P.fail("no-exception", "raises %s" % P.value.exc, replay=(native, hints))
                return
            got = P.value
            if not isinstance(got, Arr):
                P.fail("type", "result is %r, not an array" % type(got).__name__, replay=(native, hints))
                return
            src_arr = Arr(psd.n, fn=st["before"], dtype="float")
            want = specs.convert(src_arr, src, dst, N)
            if dst == "onesided" and src != "onesided":
                two = specs.convert(src_arr, src, "twosided", N)
                want = _sym_wrap(P, want, two, N)
            P.prove_arr_eq("conv", got, want, replay=(native, hints))
            # same length as the frequency axis the object reports for the target
            fr = st["freq"]
            P.prove("len=frequencies", V.s_eq(got.n, fr.n), replay=(native, hints))
            # frame: the cache is not mutated by get_converted_psd
            if not via_setter:
                i = P.skolem("fi", 0, psd.n)
                P.prove("frame.cache-unchanged", V.b_and(V.s_eq(st["cache_after"].n, psd.n),
                                                          V.s_eq(st["cache_after"].at(i), st["before"](i))))
            else:
                P.prove("setter.sides", st["sides_after"] == dst)
        # if the code leaves the supported subset (e.g. writes through a slice view), the oracle of this conversion is searched
        tc.native = ("convert", {"src": src, "dst": dst, "datatype": datatype, "setter": via_setter})
        tc.run_paths(I, thunk, post)
    return Task(name, run, functions=["spectrum.psd.Spectrum.get_converted_psd"])


def refuse_task(src, via_setter=False):
    """complex data: a one-sided vector has fewer entries than the two-sided / centred one it would come from, so no conversion
    to 'onesided' can be lossless (the statement: returning to the original sides restores the original values exactly).
    Contract taken from the statement: the request is refused and the object is left as it was -- if it returns, it is lossy."""
    name = "%s.%s_to_onesided.complex.refused" % ("setSides" if via_setter else "get_converted_psd", src)

    def run(tc):
        dom = tc.smt()
        I = tc.interp()
        hints = {"src": src, "setter": via_setter}
        tc.native = ("refuse", hints)

        def thunk(I):
            N = dom.input_int("NFFT")
            I.assume(V.s_cmp(">=", N, 3))
            psd = dom.input_array("psd", specs.len_sides(src, N), "float")
            fs = dom.input_real("sampling")
            I.assume(V.s_cmp(">", fs, 0))
            obj = spectrum_obj(I, NFFT=N, sides=src, psd=psd, datatype="complex", sampling=fs, modified=False)
            I.st = dict(N=N, psd=psd, obj=obj, before=psd.snap())
            if via_setter:
                I.setattr(obj, "sides", "onesided")
                return obj.attrs["_Spectrum__psd"]
            return I.call_qual("spectrum.psd.Spectrum.get_converted_psd", obj, "onesided")

        def post(P):
            st = P.interp.st
            obj, psd = st["obj"], st["psd"]
            if P.outcome == "return":
                got = P.value
                n = got.n if isinstance(got, Arr) else None
                P.fail("complex-data:onesided-request-refused",
                       "a complex-data object returned a 'onesided' PSD (%s values for %s stored ones): the negative-frequency "
                       "content cannot be restored, the conversion is lossy" % (n, psd.n), replay=("refuse", hints))
                return
            P.ok("complex-data:onesided-request-refused", "raises %s" % P.value.exc)
            P.prove("refused:sides-unchanged", obj.attrs["_Spectrum__sides"] == src, replay=("refuse", hints))
            cache = obj.attrs["_Spectrum__psd"]
            i = P.skolem("fi", 0, psd.n)
            P.prove("refused:stored-psd-unchanged", V.b_and(V.s_eq(cache.n, psd.n), V.s_eq(cache.at(i), st["before"](i))), replay=("refuse", hints))
        tc.run_paths(I, thunk, post)
    return Task(name, run, functions=["spectrum.psd.Spectrum.get_converted_psd", "spectrum.psd.Spectrum._setSides"])


# ---------------------------------------------------------------------------------
# frequency axes


def axis_task(sides, after_set=False):
    """after_set: the object was built with another sampling frequency fs0 and `obj.sampling = fs` was assigned afterwards (through
    the real setter): the axis must follow the value the object now reports"""
    def run(tc):
        dom = tc.smt()
        I = tc.interp()

        def thunk(I):
            N = dom.input_int("NFFT")
            I.assume(V.s_cmp(">=", N, 1))
            fs = dom.input_real("sampling")
            I.assume(V.s_cmp(">", fs, 0))
            if after_set:
                fs0 = dom.input_real("sampling0")
                I.assume(V.s_cmp(">", fs0, 0))
                Nd = dom.input_int("Ndata")
                I.assume(V.s_cmp(">=", Nd, 1))
                obj = spectrum_obj(I, NFFT=N, sides=sides, datatype="real", sampling=fs0, N=Nd)
                I.setattr(obj, "sampling", fs)
            else:
                obj = spectrum_obj(I, NFFT=N, sides=sides, datatype="real", sampling=fs)
            I.st = dict(N=N, fs=fs)
            return I.call_qual("spectrum.psd.Spectrum.frequencies", obj, sides)

        def post(P):
            st = P.interp.st
            N, fs = st["N"], st["fs"]
            hints = dict({"sides": sides}, **({"after_set": True} if after_set else {}))
            tc.native = ("axis", hints)
            if P.outcome != "return" or not isinstance(P.value, Arr):
                P.fail("no-exception", "frequencies() failed", replay=("axis", hints))
                return
            df = V.s_div(fs, V.to_float(N))
            want = Arr(specs.len_sides(sides, N), fn=lambda i: specs.freq(sides, i, N, df), dtype="float")
            P.prove_arr_eq("axis", P.value, want, replay=("axis", hints))
        tc.run_paths(I, thunk, post)
    return Task("frequencies.%s%s" % (sides, ".after-sampling-assignment" if after_set else ""), run,
                functions=["spectrum.psd.Spectrum.frequencies", "spectrum.psd.Range.%s" % sides] + (["spectrum.psd.Spectrum._setSampling"] if after_set else []))


# ---------------------------------------------------------------------------------
# lemmas over the spec functions (code independent): composition, round trip, power


def lemma_task():
    def run(tc):
        dom = tc.smt()
        I = tc.interp()
        import itertools

        def thunk(I):
            N = dom.input_int("NFFT")
            I.assume(V.s_cmp(">=", N, 2))
            I.st = dict(N=N)
            return None

        def post(P):
            N = P.interp.st["N"]
            for s1, s2, s3 in itertools.product(SIDES, SIDES, SIDES):
                if s1 == s2 or s2 == s3:
                    continue
                # a stored PSD in representation s1: for real data it is the image of a one-sided vector
                one = dom.input_array("one", specs.len_sides("onesided", N), "float")
                two_c = dom.input_array("twoc", N, "float")
                for datatype in ("real", "complex"):
                    if datatype == "complex" and "onesided" in (s1, s2, s3):
                        continue
                    base = specs.convert(one, "onesided", s1, N) if datatype == "real" else \
                        specs.convert(two_c, "twosided", s1, N)
                    lhs = specs.convert(specs.convert(base, s1, s2, N), s2, s3, N)
                    rhs = specs.convert(base, s1, s3, N)
                    i = P.skolem("li", 0, specs.len_sides(s3, N))
                    P.prove("compose.%s.%s.%s.%s" % (datatype, s1, s2, s3), V.s_eq(lhs.at(i), rhs.at(i)))
        tc.run_paths(I, thunk, post)
    return Task("lemma.compose", run, functions=[])


def power_task(maxN):
    """sum(result) = sum(source): expanded sums at concrete N (bounded lemma over the spec only)"""
    def run(tc):
        dom = tc.smt()
        dom.materialise_limit = 0
        I = tc.interp()

        def thunk(I):
            return None

        def post(P):
            for N in range(2, maxN + 1):
                one = dom.input_array("one%d" % N, N // 2 + 1, "float")
                two = specs.convert(one, "onesided", "twosided", N)
                cen = specs.convert(one, "onesided", "centerdc", N)
                tot = lambda a, n: sum((a.at(i) for i in range(n)), Fraction(0))
                P.prove("power.one-two.N%d" % N, V.s_eq(tot(two, N), tot(one, N // 2 + 1)))
                P.prove("power.one-center.N%d" % N, V.s_eq(tot(cen, N), tot(one, N // 2 + 1)))
        tc.run_paths(I, thunk, post)
    return Task("lemma.power", run, kind="bounded", functions=[])


def tasks(tier):
    ts = [
        tool_task("twosided_2_onesided", pre_two_one, spec_two_one, "tool", {"fn": "twosided_2_onesided"}),
        tool_task("onesided_2_twosided", pre_one_two, lambda P, st: specs.conv_one_two(st["x"], st["N"]), "tool",
                  {"fn": "onesided_2_twosided"}),
        tool_task("twosided_2_centerdc", pre_any, lambda P, st: specs.conv_two_center(st["x"], st["N"]), "tool",
                  {"fn": "twosided_2_centerdc"}),
        tool_task("centerdc_2_twosided", pre_any, lambda P, st: specs.conv_center_two(st["x"], st["N"]), "tool",
                  {"fn": "centerdc_2_twosided"}),
        tool_task("cshift", pre_cshift, spec_cshift, "tool", {"fn": "cshift"}),
    ]
    for src in SIDES:
        for dst in SIDES:
            if src == dst:
                continue
            for dt in ("real", "complex"):
                if dt == "complex" and "onesided" in (src, dst):
                    continue
                ts.append(conv_task(src, dst, dt))
                ts.append(conv_task(src, dst, dt, via_setter=True))
    for src in ("twosided", "centerdc"):
        ts.append(refuse_task(src))
        ts.append(refuse_task(src, via_setter=True))
    for s in SIDES:
        ts.append(axis_task(s))
    ts.append(lemma_task())
    ts.append(power_task(16 if tier == "quick" else 64))
    return ts
