"""Shared pieces for the function-level contracts: window stub, DTFT-based spec
functions (arma2psd, ...), refined estimator stubs."""
from fractions import Fraction
from pyvc import values as V
from pyvc.values import Arr, Arr2, Cx, Obj, Enum
from . import specs, model


def window_stub(dom):
    """assumed contract of Window(N, name, **kargs): .data is a real array of length N that
    depends on (N, name, parameters) only (proved for every window by C20)"""
    def Window(I, N, name=None, norm=True, **kargs):
        cls = I.program.find_class("spectrum.window.Window")
        o = Obj(cls)
        keys = dom.key_terms([N, name] + [kargs[k] for k in sorted(kargs)])
        o.attrs["_Window__N"] = N
        o.attrs["_Window__name"] = name
        o.attrs["_Window__norm"] = norm
        d = dom.opaque_array("WINDOW", keys, N, "float")
        d.ident = None
        o.attrs["_Window__data"] = d
        return o
    return {"spectrum.window.Window": Window}


def window_array(dom, N, name):
    keys = dom.key_terms([N, name])
    return dom.opaque_array("WINDOW", keys, N, "float")


def poly_seq(coefs):
    """the sequence [1, c_0, c_1, ...] zero-extended"""
    s = coefs.snap()
    n = coefs.n
    cx = coefs.dtype == "complex"
    one = Cx(Fraction(1), Fraction(0)) if cx else Fraction(1)
    zero = Cx(Fraction(0), Fraction(0)) if cx else Fraction(0)
    return lambda j: V.s_ite(V.s_eq(j, 0), one, V.s_ite(V.b_and(V.s_cmp(">=", j, 1), V.s_cmp("<=", j, n)), s(j - 1), zero))


def abs2(z):
    return V.s_abs2(z)


def spec_arma2psd(dom, A, B, rho, T, NFFT):
    """(rho/T) |B(f)|^2 / |A(f)|^2 on the grid f = k/NFFT, with A(f) = DTFT([1, a], f)"""
    nf = V.to_float(NFFT)
    c = V.s_div(rho, T)
    sa = poly_seq(A) if A is not None else None
    sb = poly_seq(B) if B is not None else None

    def f(k):
        fr = V.s_div(k, nf)
        v = c
        if sb is not None:
            v = v * abs2(dom.dtft(sb, NFFT, fr))
        if sa is not None:
            v = V.s_div(v, abs2(dom.dtft(sa, NFFT, fr)))
        return v
    return Arr(NFFT, fn=f, dtype="float")


def fold_real(two, NFFT, factor=2):
    """one-sided PSD of real data as the AR/MA/ARMA, minimum-variance, subspace and multitaper
    classes define it: `factor` times the first NFFT//2+1 (even) / (NFFT+1)//2 (odd) two-sided values"""
    s = two.snap()
    return Arr(specs.len_sides("onesided", NFFT), fn=lambda i: factor * s(i), dtype=two.dtype)


def refined_stubs(dom):
    """estimator stubs whose dependence on `sampling` / `scale_by_freq` is spelled out (the
    factor is part of the callee's own contract, proved on its body in C01/C08/C16)"""
    st = model.estimator_stubs(dom)
    K = dom.key_terms

    def speriodogram(I, x, NFFT=None, detrend=True, sampling=Fraction(1), scale_by_freq=True, window="hamming", axis=0):
        if NFFT is None:
            NFFT = x.n
        keys = K([x, NFFT, detrend, window])
        n = (V.s_floordiv(NFFT, 2) + 1) if x.dtype != "complex" else NFFT
        base = dom.opaque_array("speriodogram", keys, n, "float")
        is_true = V.enum_eq(scale_by_freq, True) if isinstance(scale_by_freq, Enum) else (scale_by_freq is True)
        fac = V.s_div(2 * dom.pi(), V.s_div(sampling, V.to_float(NFFT)))
        s = base.snap()
        r = Arr(n, fn=lambda i: s(i) * V.s_ite(is_true, fac, Fraction(1)), dtype="float")
        return r

    def minvar(I, X, order, sampling=Fraction(1), NFFT=4096):
        keys = K([X, order, NFFT])
        base = dom.opaque_array("minvar_psd_unit", keys, NFFT, "float")
        s = base.snap()
        return (Arr(NFFT, fn=lambda i: sampling * s(i), dtype="float"),
                dom.opaque_array("minvar_A", K([X, order]), order, "complex"),
                dom.opaque_array("minvar_k", K([X, order]), order - 1, "complex"))
    st["spectrum.periodogram.speriodogram"] = speriodogram
    st["spectrum.minvar.minvar"] = minvar
    return st
