"""Shared pieces for the function-level contracts: window stub, DTFT-based spec
functions (arma2psd, ...), refined estimator stubs."""
from fractions import Fraction
from pyvc import values as V
from pyvc.values import Arr, Arr2, Cx, Obj, Enum
from . import specs, model


def window_stub(dom):
    """assumed contract of Window(N, name, **kargs): .data is a real array of length N that
    depends on (N, name, parameters) only (proved for every window by C20)"""
    def Window(I, N, name=None, norm=True, **kargs):
        cls = I.program.find_class("spectrum.window.Window")
        o = Obj(cls)
        keys = dom.key_terms([N, name] + [kargs[k] for k in sorted(kargs)])
        o.attrs["_Window__N"] = N
        o.attrs["_Window__name"] = name
        o.attrs["_Window__norm"] = norm
        d = dom.opaque_array("WINDOW", keys, N, "float")
        d.ident = None
        o.attrs["_Window__data"] = d
        return o
    return {"spectrum.window.Window": Window}


def window_array(dom, N, name):
    keys = dom.key_terms([N, name])
    return dom.opaque_array("WINDOW", keys, N, "float")


def poly_seq(coefs):
    """the sequence [1, c_0, c_1, ...] zero-extended"""
    s = coefs.snap()
    n = coefs.n
    cx = coefs.dtype == "complex"
    one = Cx(Fraction(1), Fraction(0)) if cx else Fraction(1)
    zero = Cx(Fraction(0), Fraction(0)) if cx else Fraction(0)
    return lambda j: V.s_ite(V.s_eq(j, 0), one, V.s_ite(V.b_and(V.s_cmp(">=", j, 1), V.s_cmp("<=", j, n)), s(j - 1), zero))


def abs2(z):
    return V.s_abs2(z)


def spec_arma2psd(dom, A, B, rho, T, NFFT):
    """(rho/T) |B(f)|^2 / |A(f)|^2 on the grid f = k/NFFT, with A(f) = DTFT([1, a], f)"""
    nf = V.to_float(NFFT)
    c = V.s_div(rho, T)
    sa = poly_seq(A) if A is not None else None
    sb = poly_seq(B) if B is not None else None

    def f(k):
        fr = V.s_div(k, nf)
        v = c
        if sb is not None:
            v = v * abs2(dom.dtft(sb, NFFT, k, NFFT))
        if sa is not None:
            v = V.s_div(v, abs2(dom.dtft(sa, NFFT, k, NFFT)))
        return v
    return Arr(NFFT, fn=f, dtype="float")


def fold_real(two, NFFT, factor=2):
    """one-sided PSD of real data as the AR/MA/ARMA, minimum-variance, subspace and multitaper
    classes define it: `factor` times the first NFFT//2+1 (even) / (NFFT+1)//2 (odd) two-sided values"""
    s = two.snap()
    return Arr(specs.len_sides("onesided", NFFT), fn=lambda i: factor * s(i), dtype=two.dtype)


def refined_stubs(dom):
    """estimator stubs whose dependence on `sampling` / `scale_by_freq` is spelled out (the
    factor is part of the callee's own contract, proved on its body in C01/C08/C16)"""
    st = model.estimator_stubs(dom)
    K = dom.key_terms

    def speriodogram(I, x, NFFT=None, detrend=True, sampling=Fraction(1), scale_by_freq=True, window="hamming", axis=0):
        if NFFT is None:
            NFFT = x.n
        keys = K([x, NFFT, detrend, window])
        n = (V.s_floordiv(NFFT, 2) + 1) if x.dtype != "complex" else NFFT
        base = dom.opaque_array("speriodogram", keys, n, "float")
        is_true = V.enum_eq(scale_by_freq, True) if isinstance(scale_by_freq, Enum) else (scale_by_freq is True)
        fac = V.s_div(2 * dom.pi(), V.s_div(sampling, V.to_float(NFFT)))
        s = base.snap()
        r = Arr(n, fn=lambda i: s(i) * V.s_ite(is_true, fac, Fraction(1)), dtype="float")
        return r

    def minvar(I, X, order, sampling=Fraction(1), NFFT=4096):
        keys = K([X, order, NFFT])
        base = dom.opaque_array("minvar_psd_unit", keys, NFFT, "float")
        s = base.snap()
        return (Arr(NFFT, fn=lambda i: sampling * s(i), dtype="float"),
                dom.opaque_array("minvar_A", K([X, order]), order, "complex"),
                dom.opaque_array("minvar_k", K([X, order]), order - 1, "complex"))
    st["spectrum.periodogram.speriodogram"] = speriodogram
    st["spectrum.minvar.minvar"] = minvar
    return st


# ---------------------------------------------------------------------------------
# function-level contract tasks shared by several properties (each property that depends
# on a function re-proves the function's contract in its own check)

from pyvc.harness import Task  # noqa: E402


def corr_stubs(dom):
    """assumed contracts of CORRELATION / xcorr (proved in C09): lengths and identity only"""
    K = dom.key_terms

    def CORRELATION(I, x, y=None, maxlags=None, norm="unbiased"):
        if maxlags is None:
            maxlags = x.n - 1
        keys = K([x, y if y is not None else x, maxlags, norm])
        dt = "float" if (x.dtype != "complex" and (y is None or y.dtype != "complex")) else "complex"
        return dom.opaque_array("RXY", keys, maxlags + 1, dt)

    def xcorr(I, x, y=None, maxlags=None, norm="biased"):
        # contract (C09): entry maxlags+k equals CORRELATION(x, y, maxlags, norm)[k] for k >= 0
        if maxlags is None:
            maxlags = x.n - 1
        yy = y if y is not None else x
        keys = K([x, yy, maxlags, norm])
        dt = "float" if (x.dtype != "complex" and yy.dtype != "complex") else "complex"
        pos = dom.opaque_array("RXY", keys, maxlags + 1, dt)
        neg = dom.opaque_array("RXY_neg", keys, maxlags, dt)
        sp, sn = pos.snap(), neg.snap()
        r = Arr(2 * maxlags + 1, fn=lambda i: V.s_ite(V.s_cmp(">=", i, maxlags), sp(i - maxlags), sn(i)), dtype=dt)
        lags = Arr(2 * maxlags + 1, fn=lambda i: i - maxlags, dtype="int")
        return (r, lags)
    return {"spectrum.correlation.CORRELATION": CORRELATION, "spectrum.correlation.xcorr": xcorr}


def rxy_array(dom, x, y, lag, norm, dt):
    keys = dom.key_terms([x, y if y is not None else x, lag, norm])
    return dom.opaque_array("RXY", keys, lag + 1, dt)


def spec_correlogram(dom, x, y, lag, n, dt, norm="biased", window="hamming"):
    """Re sum_{|m|<=lag} r[m] w[m] e^{-2 pi i (k/NFFT) m}: two-sided, grid independent"""
    cross = y is not None
    rxy = rxy_array(dom, x, y if cross else x, lag, norm, dt).snap()
    ryx = rxy_array(dom, y, x, lag, norm, dt).snap() if cross else rxy
    w = window_array(dom, 2 * lag + 1, window).snap()
    zero = Cx(Fraction(0), Fraction(0))

    def t(m):
        pos = V.Cx.of(rxy(m) * w(lag + m))
        neg = V.Cx.of(V.s_conj(ryx(-m)) * w(lag - m))
        return V.s_ite(V.s_eq(m, 0), V.Cx.of(rxy(0)),
                       V.s_ite(V.b_and(V.s_cmp(">=", m, 1), V.s_cmp("<=", m, lag)), pos,
                               V.s_ite(V.b_and(V.s_cmp("<=", m, -1), V.s_cmp(">=", m, -lag)), neg, zero)))
    return Arr(n, fn=lambda k: V.Cx.of(dom.dtftz(t, k, n)).re, dtype="float")


def spec_minvar(I, dom, x, m, fs, n):
    a, rho, kref = burg_stub(dom)["spectrum.burg.arburg"](I, x, m - 1)
    A = poly_seq(a)

    def psi(K):
        tot = dom.sum(0, m - K, lambda i: V.to_float(m - K - 2 * i) * V.s_conj(A(i)) * A(i + K))
        return V.Cx.of(tot) / rho
    zero = Cx(Fraction(0), Fraction(0))

    def twosided(j):
        # psi[K] for 0 <= K < m, conj(psi[-K]) for -m < K < 0: the Hermitian lag sequence of e^H R^-1 e
        return V.s_ite(V.b_and(V.s_cmp(">=", j, 0), V.s_cmp("<", j, m)), psi(j),
                       V.s_ite(V.b_and(V.s_cmp("<", j, 0), V.s_cmp(">", j, -m)), V.s_conj(psi(-j)), zero))
    want = Arr(n, fn=lambda k: V.s_div(fs, V.Cx.of(dom.dtftz(twosided, k, n)).re), dtype="float")
    return want, A, kref


def speriodogram_task(prop_hint, datatype, nfft_mode="int", scale=False):
    """speriodogram (1-D) against |DFT_NFFT(x*w)|^2 / N"""
    def run(tc):
        dom = tc.smt()
        I = tc.interp(stubs=window_stub(dom))
        hints = {"datatype": datatype, "nfft_mode": nfft_mode, "scale": scale}
        tc.native = ("speriodogram", hints)

        def thunk(I):
            N = dom.input_int("N")
            I.assume(V.s_cmp(">=", N, 1))
            x = dom.input_array("x", N, "complex" if datatype == "complex" else "float")
            fs = dom.input_real("sampling")
            I.assume(V.s_cmp(">", fs, 0))
            if nfft_mode == "int":
                n = dom.input_int("NFFT")
                I.assume(V.s_cmp(">=", n, N))
            else:
                n = None
            r = I.call_qual("spectrum.periodogram.speriodogram", x, n, False, fs, scale, "hann")
            I.st = dict(x=x, N=N, n=n if n is not None else N, fs=fs)
            return r

        def post(P):
            st = P.interp.st
            if P.outcome != "return":
                P.fail("no-exception", "speriodogram raises %s" % P.value.exc, replay=("speriodogram", hints))
                return
            x, N, n = st["x"], st["N"], st["n"]
            w = window_array(dom, N, "hann")
            sx, sw = x.snap(), w.snap()
            zero = Cx(Fraction(0), Fraction(0)) if datatype == "complex" else Fraction(0)
            seq = lambda j: V.s_ite(V.b_and(V.s_cmp(">=", j, 0), V.s_cmp("<", j, N)), sx(j) * sw(j), zero)
            nf = V.to_float(n)
            fac = V.s_div(2 * dom.pi(), V.s_div(st["fs"], nf)) if scale else 1
            ln = (V.s_floordiv(n, 2) + 1) if datatype == "real" else n
            want = Arr(ln, fn=lambda k: V.s_div(abs2(dom.dtft(seq, n, k, n)), V.to_float(N)) * fac, dtype="float")
            got = P.value
            if not isinstance(got, Arr) or got.dtype == "complex":
                P.fail("real-1d", "result is not a real 1-D array", replay=("speriodogram", hints))
                return
            P.prove_arr_eq("windowed-DFT/N", got, want, replay=("speriodogram", hints))
        tc.run_paths(I, thunk, post)
    return Task("speriodogram.%s.NFFT-%s%s" % (datatype, nfft_mode, ".scaled" if scale else ""), run,
                functions=["spectrum.periodogram.speriodogram"])


def speriodogram2d_task(datatype, ncols):
    """2-D input: column c of the result is the periodogram of column c"""
    def run(tc):
        dom = tc.smt()
        I = tc.interp(stubs=window_stub(dom))
        hints = {"datatype": datatype, "ncols": ncols}
        tc.native = ("speriodogram2d", hints)

        def thunk(I):
            N = dom.input_int("N")
            I.assume(V.s_cmp(">=", N, 1))
            x = dom.input_array2("x", N, ncols, "complex" if datatype == "complex" else "float")
            n = dom.input_int("NFFT")
            I.assume(V.s_cmp(">=", n, N))
            r = I.call_qual("spectrum.periodogram.speriodogram", x, n, False, Fraction(1), False, "hann")
            I.st = dict(x=x, N=N, n=n)
            return r

        def post(P):
            st = P.interp.st
            if P.outcome != "return":
                P.fail("no-exception", "speriodogram raises %s" % P.value.exc, replay=("speriodogram2d", hints))
                return
            x, N, n = st["x"], st["N"], st["n"]
            got = P.value
            if not isinstance(got, Arr2):
                P.fail("2d-result", "result is not 2-D", replay=("speriodogram2d", hints))
                return
            w = window_array(dom, N, "hann")
            sx, sw = x.snap(), w.snap()
            nf = V.to_float(n)
            zero = Cx(Fraction(0), Fraction(0)) if datatype == "complex" else Fraction(0)
            ln = (V.s_floordiv(n, 2) + 1) if datatype == "real" else n
            P.prove("2d.shape", V.b_and(V.s_eq(got.r, ln), V.s_eq(got.c, ncols)), replay=("speriodogram2d", hints))
            k = P.skolem("k", 0, ln)
            for c in range(ncols):
                seq = lambda j, c=c: V.s_ite(V.b_and(V.s_cmp(">=", j, 0), V.s_cmp("<", j, N)), sx(j, c) * sw(j), zero)
                want = V.s_div(abs2(dom.dtft(seq, n, k, n)), V.to_float(N))
                P.prove("2d.column%d=periodogram-of-column" % c, V.s_eq(got.at(k, c), want), replay=("speriodogram2d", hints))
        tc.run_paths(I, thunk, post)
    return Task("speriodogram2d.%s.c%d" % (datatype, ncols), run, functions=["spectrum.periodogram.speriodogram"])


def correlogram_task(datatype, method, cross=False):
    """CORRELOGRAMPSD: Re DTFT of the Hermitian (wrapped) windowed lag sequence, on the grid k/NFFT"""
    def run(tc):
        dom = tc.smt()
        st_ = dict(window_stub(dom))
        st_.update(corr_stubs(dom))
        I = tc.interp(stubs=st_)
        hints = {"datatype": datatype, "method": method, "cross": cross}
        tc.native = ("correlogram", hints)

        def thunk(I):
            N = dom.input_int("N")
            lag = dom.input_int("lag")
            n = dom.input_int("NFFT")
            I.assume(V.s_cmp(">=", lag, 1))
            I.assume(V.s_cmp("<", lag, N))
            I.assume(V.s_cmp(">=", n, 2 * lag + 1))
            dt = "complex" if datatype == "complex" else "float"
            x = dom.input_array("x", N, dt)
            y = dom.input_array("y", N, dt) if cross else None
            I.st = dict(x=x, y=y, N=N, n=n, lag=lag, dt=dt)
            return I.call_qual("spectrum.correlog.CORRELOGRAMPSD", x, y, lag, "hamming", "biased", n, {}, method)

        def post(P):
            st = P.interp.st
            if P.outcome != "return":
                P.fail("no-exception", "CORRELOGRAMPSD raises %s" % P.value.exc, replay=("correlogram", hints))
                return
            x, y, n, lag, dt = st["x"], st["y"], st["n"], st["lag"], st["dt"]
            want = spec_correlogram(dom, x, y if cross else None, lag, n, dt)
            got = P.value
            if not isinstance(got, Arr) or got.dtype == "complex":
                P.fail("real-1d", "result is not a real 1-D array", replay=("correlogram", hints))
                return
            P.prove_arr_eq("Re-DFT-of-hermitian-lag-sequence", got, want, replay=("correlogram", hints))
        tc.run_paths(I, thunk, post)
    return Task("CORRELOGRAMPSD.%s.%s%s" % (datatype, method, ".cross" if cross else ""), run,
                functions=["spectrum.correlog.CORRELOGRAMPSD"])


def burg_stub(dom):
    st = model.estimator_stubs(dom)
    return {"spectrum.burg.arburg": st["spectrum.burg.arburg"]}


def minvar_task(datatype):
    """minvar: PSD[k] = sampling / Re DTFT(psi~, k/NFFT), psi[K] = sum_I (m-K-2I) conj(A[I]) A[I+K] / P,
    psi~ Hermitian-wrapped; returns A = [1, a_burg] and the Burg reflection coefficients"""
    def run(tc):
        dom = tc.smt()
        I = tc.interp(stubs=burg_stub(dom))
        hints = {"datatype": datatype}
        tc.native = ("minvar", hints)

        def thunk(I):
            N = dom.input_int("N")
            m = dom.input_int("order")
            n = dom.input_int("NFFT")
            fs = dom.input_real("sampling")
            I.assume(V.s_cmp(">", fs, 0))
            I.assume(V.s_cmp(">=", m, 2))
            I.assume(V.s_cmp(">=", n, 2 * m))
            I.assume(V.s_cmp(">", N, m))
            x = dom.input_array("x", N, "complex" if datatype == "complex" else "float")
            r = I.call_qual("spectrum.minvar.minvar", x, m, fs, n)
            I.st = dict(x=x, m=m, n=n, fs=fs)
            return r

        def post(P):
            st = P.interp.st
            if P.outcome != "return":
                P.fail("no-exception", "minvar raises %s" % P.value.exc, replay=("minvar", hints))
                return
            x, m, n, fs = st["x"], st["m"], st["n"], st["fs"]
            psd, A_ret, k_ret = P.value
            want, A, kref = spec_minvar(P.interp, dom, x, m, fs, n)
            if not isinstance(psd, Arr) or psd.dtype == "complex":
                P.fail("real-1d", "PSD is not a real 1-D array", replay=("minvar", hints))
                return
            P.prove_arr_eq("T/Re-DFT(psi)", psd, want, replay=("minvar", hints))
            wantA = Arr(m, fn=lambda i: V.Cx.of(A(i)), dtype="complex")
            P.prove_arr_eq("returns-[1,a_burg]", A_ret, wantA, replay=("minvar", hints))
            P.prove_arr_eq("returns-burg-reflection", k_ret, kref, replay=("minvar", hints))
        tc.run_paths(I, thunk, post)
    return Task("minvar.%s" % datatype, run, functions=["spectrum.minvar.minvar"])


def eigen_task(datatype, method, P_, NSIG, nfft_parity=None):
    """eigen(): returned[a] = 1 / sum_{I>=NSIG} |DTFT(z_I, -(a-h)/NFFT)|^2 (/S_I for 'ev') on the CENTRED axis
    (a-h)*df, with z_I = -Vh[I, 0:P] the sequence the code transforms; length NFFT; singular values
    returned unchanged.  (bounded in the order P, unbounded in N, NFFT, data)"""
    def run(tc):
        dom = tc.smt()
        I = tc.interp()
        hints = {"datatype": datatype, "method": method, "P": P_, "NSIG": NSIG}
        tc.native = ("eigen", hints)

        def thunk(I):
            N = dom.input_int("N")
            n = dom.input_int("NFFT")
            I.assume(V.s_cmp(">=", N, 2 * P_))
            I.assume(V.s_cmp(">=", n, P_ + 1))
            x = dom.input_array("x", N, "complex" if datatype == "complex" else "float")
            r = I.call_qual("spectrum.eigenfre.eigen", x, P_, NSIG, method, None, n)
            I.st = dict(x=x, N=N, n=n)
            return r

        def post(P):
            st = P.interp.st
            if P.outcome != "return":
                P.fail("no-exception", "eigen raises %s" % P.value.exc, replay=("eigen", hints))
                return
            psd, S = P.value
            n, N, x = st["n"], st["N"], st["x"]
            h = specs.half(n)
            P.prove("len=NFFT", V.s_eq(psd.n, n), replay=("eigen", hints))
            # the svd results the code used: look them up through the same library contract
            NP = N - P_
            sx = x.snap()
            FB = Arr2(2 * NP, P_, fn=lambda i, k: V.s_ite(V.s_cmp("<", i, NP), V.Cx.of(sx(i - k + P_ - 1)),
                                                            V.s_conj(V.Cx.of(sx(i - NP + k + 1)))), dtype="complex")
            U, S2, Vh = P.interp.lib.get("numpy.linalg.svd")(P.interp, FB)
            P.prove_arr_eq("singular-values-returned", S, S2, replay=("eigen", hints))
            a = P.skolem("a", 0, n)
            nf = V.to_float(n)
            g = specs.wrap(h - a, n)      # bin index: g/NFFT == -(a-h)/NFFT  (mod 1)
            tot = Fraction(0)
            zero = Cx(Fraction(0), Fraction(0))
            vs = Vh.snap()
            for I_ in range(NSIG, P_):
                z = lambda j, I_=I_: V.s_ite(V.b_and(V.s_cmp(">=", j, 0), V.s_cmp("<", j, P_)), -vs(I_, j), zero)
                t = abs2(dom.dtft(z, n, g, n))
                if method == "ev":
                    t = V.s_div(t, S2.at(I_))
                tot = tot + t
            want = V.s_div(1, tot)
            P.prove("pseudo-spectrum-on-centred-axis", V.s_eq(psd.at(a), want), replay=("eigen", hints))
            P.canary("shifted-by-one-bin", V.s_eq(psd.at(a), V.s_div(1, _eig_tot(dom, vs, S2, n, specs.wrap(h - a + 1, n), P_, NSIG, method))))
        tc.run_paths(I, thunk, post)
    return Task("eigen.%s.%s.P%d.NSIG%d" % (datatype, method, P_, NSIG), run, kind="unbounded",
                functions=["spectrum.eigenfre.eigen"])


def _eig_tot(dom, vs, S2, n, g, P_, NSIG, method):
    tot = Fraction(0)
    zero = Cx(Fraction(0), Fraction(0))
    for I_ in range(NSIG, P_):
        z = lambda j, I_=I_: V.s_ite(V.b_and(V.s_cmp(">=", j, 0), V.s_cmp("<", j, P_)), -vs(I_, j), zero)
        t = abs2(dom.dtft(z, n, g, n))
        if method == "ev":
            t = V.s_div(t, S2.at(I_))
        tot = tot + t
    return tot


def grid_task(fname, datatype, extra=None):
    """NFFT only chooses the sampling grid: F(NFFT2 = c*NFFT1)[c*i] = F(NFFT1)[i] for every c >= 2, i"""
    def run(tc):
        dom = tc.smt()
        stubs = dict(window_stub(dom))
        stubs.update(corr_stubs(dom))
        stubs.update(burg_stub(dom))
        if fname == "pmtm":
            from .C19 import dpss_contract
            stubs.update(dpss_contract(dom, 2))
            dom.while_plan = 1
        I = tc.interp(stubs=stubs)
        hints = {"fn": fname, "datatype": datatype}
        tc.native = ("grid", hints)
        hints.update(extra or {})

        def thunk(I):
            if fname == "pmtm":
                dom.while_plan = 1
            N = dom.input_int("N")
            n1 = dom.input_int("NFFT")
            c = dom.input_int("c")
            I.assume(V.s_cmp(">=", c, 2))
            I.assume(V.s_cmp(">=", N, 2))
            I.assume(V.s_cmp(">=", n1, 1))
            n2 = dom.input_int("NFFT2")
            # n2 = c*n1 is handed only to the obligations that need it (non-linear); its linear consequence of n2 = c*n1, c >= 2, n1 >= 1, handed to the (linear) queries; it is
            # itself discharged as the obligation `finer-grid-lemma`
            I.assume(V.s_cmp(">=", n2, 2 * n1))
            dt = "complex" if datatype == "complex" else "float"
            x = dom.input_array("x", N, dt)
            st = dict(n1=n1, n2=n2, c=c, N=N)
            if fname == "arma2psd":
                p = dom.input_int("p")
                q = dom.input_int("q")
                I.assume(V.s_cmp(">=", p, 1))
                I.assume(V.s_cmp(">=", q, 1))
                I.assume(V.s_cmp(">", n1, p))
                I.assume(V.s_cmp(">", n1, q))
                A = dom.input_array("A", p, dt)
                B = dom.input_array("B", q, dt)
                rho, T = dom.input_real("rho"), dom.input_real("T")
                I.assume(V.s_cmp(">", T, 0))
                st["r1"] = I.call_qual("spectrum.arma.arma2psd", A, B, rho, T, n1)
                st["r2"] = I.call_qual("spectrum.arma.arma2psd", A, B, rho, T, n2)
            elif fname == "speriodogram":
                I.assume(V.s_cmp(">=", n1, N))
                st["r1"] = I.call_qual("spectrum.periodogram.speriodogram", x, n1, False, Fraction(1), False, "hann")
                st["r2"] = I.call_qual("spectrum.periodogram.speriodogram", x, n2, False, Fraction(1), False, "hann")
            elif fname == "CORRELOGRAMPSD":
                lag = dom.input_int("lag")
                I.assume(V.s_cmp(">=", lag, 1))
                I.assume(V.s_cmp("<", lag, N))
                I.assume(V.s_cmp(">=", n1, 2 * lag + 1))
                st["r1"] = I.call_qual("spectrum.correlog.CORRELOGRAMPSD", x, None, lag, "hamming", "unbiased", n1)
                st["r2"] = I.call_qual("spectrum.correlog.CORRELOGRAMPSD", x, None, lag, "hamming", "unbiased", n2)
                st["spec"] = lambda n: spec_correlogram(dom, x, None, lag, n, dt, norm="unbiased")
            elif fname == "minvar":
                m = dom.input_int("order")
                I.assume(V.s_cmp(">=", m, 2))
                I.assume(V.s_cmp(">=", n1, 2 * m))
                I.assume(V.s_cmp(">", N, m))
                st["r1"] = I.call_qual("spectrum.minvar.minvar", x, m, Fraction(1), n1)[0]
                st["r2"] = I.call_qual("spectrum.minvar.minvar", x, m, Fraction(1), n2)[0]
                st["spec"] = lambda n: spec_minvar(I, dom, x, m, Fraction(1), n)[0]
            elif fname == "pmtm":
                I.assume(V.s_cmp(">=", n1, N))
                NW = dom.input_real("NW")
                m_ = extra["method"]
                a1 = I.call_qual("spectrum.mtm.pmtm", x, NW, 2, n1, None, None, m_)
                a2 = I.call_qual("spectrum.mtm.pmtm", x, NW, 2, n2, None, None, m_)
                st["mt"] = (a1, a2)
                # eigenspectrum of the first taper / adaptive weight of the first taper, as 1-D arrays over frequency
                if m_ == "adapt":
                    st["r1"] = Arr(n1, fn=lambda f: a1[1].at(f, 0), dtype="float")
                    st["r2"] = Arr(n2, fn=lambda f: a2[1].at(f, 0), dtype="float")
                else:
                    st["r1"] = Arr(n1, fn=lambda f: a1[0].at(1, f), dtype="complex")
                    st["r2"] = Arr(n2, fn=lambda f: a2[0].at(1, f), dtype="complex")
            elif fname == "eigen":
                P_, NSIG, method = extra["P"], extra["NSIG"], extra["method"]
                I.assume(V.s_cmp(">=", N, 2 * P_))
                I.assume(V.s_cmp(">=", n1, P_ + 1))
                e1 = I.call_qual("spectrum.eigenfre.eigen", x, P_, NSIG, method, None, n1)
                e2 = I.call_qual("spectrum.eigenfre.eigen", x, P_, NSIG, method, None, n2)
                st["r1"], st["r2"] = e1[0], e2[0]
                st["S1"], st["S2"] = e1[1], e2[1]
            I.st = st
            return None

        def post(P):
            st = P.interp.st
            if P.outcome != "return":
                P.fail("no-exception", "%s raises %s" % (fname, P.value.exc), replay=("grid", hints))
                return
            r1, r2, c, n1, n2 = st["r1"], st["r2"], st["c"], st["n1"], st["n2"]
            import z3
            from pyvc.oblig import discharge
            cc, nn = z3.Int("lem!c"), z3.Int("lem!n")
            res = discharge(dom, "%s/%s/finer-grid-lemma#%s" % (tc.prop, tc.task.name, P.label),
                            [cc >= 2, nn >= 1], cc * nn >= 2 * nn)
            res.clause = "finer-grid-lemma"
            res.replay = None
            tc.results.append(res)
            i = P.skolem("gi", 0, r1.n)
            j = dom.fresh_int("gj")
            nonlin = V.b_and(V.s_eq(n2, c * n1), V.s_eq(j, (specs.half(n2) + c * (i - specs.half(n1))) if fname == "eigen" else c * i))
            if fname == "eigen":
                P.prove_arr_eq("singular-values-independent-of-NFFT", st["S2"], st["S1"], replay=("grid", hints))
            # the index of the same frequency on the finer grid lies inside the finer result
            with P.case(nonlin):
                P.prove("index-in-range", V.b_and(V.s_cmp(">=", j, 0), V.s_cmp("<", j, r2.n)), replay=("grid", hints))
            P.assume(V.b_and(V.s_cmp(">=", j, 0), V.s_cmp("<", j, r2.n)))
            if "spec" in st:
                # wrapped (Hermitian) sequences: go through the grid-independent two-sided spectrum
                w1, w2 = st["spec"](n1), st["spec"](n2)
                P.prove("coarse-grid=two-sided-spectrum", V.s_eq(r1.at(i), w1.at(i)), replay=("grid", hints))
                P.prove("fine-grid=two-sided-spectrum", V.s_eq(r2.at(j), w2.at(j)), replay=("grid", hints))
                with P.case(nonlin):
                    P.prove("two-sided-spectrum-at-equal-frequencies", V.s_eq(w2.at(j), w1.at(i)), replay=("grid", hints))
            elif fname == "eigen":
                h1 = specs.half(n1)
                for nm, cond in (("positive-frequencies", V.s_cmp(">", i, h1)), ("zero-frequency", V.s_eq(i, h1)),
                                 ("negative-frequencies", V.s_cmp("<", i, h1))):
                    with P.case(V.b_and(nonlin, cond)):
                        P.prove("common-frequencies-agree." + nm, V.s_eq(r2.at(j), r1.at(i)), replay=("grid", hints))
            else:
                with P.case(nonlin):
                    P.prove("common-frequencies-agree", V.s_eq(r2.at(j), r1.at(i)), replay=("grid", hints))
        tc.run_paths(I, thunk, post)
    tag = ("." + ".".join("%s%s" % (k, v) for k, v in sorted((extra or {}).items()))) if extra else ""
    return Task("grid.%s.%s%s" % (fname, datatype, tag), run, functions=["spectrum." + {
        "arma2psd": "arma.arma2psd", "speriodogram": "periodogram.speriodogram", "CORRELOGRAMPSD": "correlog.CORRELOGRAMPSD",
        "minvar": "minvar.minvar", "eigen": "eigenfre.eigen", "pmtm": "mtm.pmtm"}[fname]])
