"""native oracles for C15 replays"""
import numpy as np
from .native_common import Skip, close
from .native_funcs import NATIVE as _N, SEARCH as _S
from .C08_native import NATIVE as _N8, SEARCH as _S8


def _x(N, cx, seed=1):
    rng = np.random.RandomState(seed)
    x = np.cos(0.5 * np.arange(N)) + 0.7 * rng.randn(N)
    return x + 1j * rng.randn(N) if cx else x


def arma_domain(inp):
    import spectrum
    P, Q, lag, N = int(inp["P"]), int(inp["Q"]), int(inp["lag"]), int(inp.get("N", 40))
    x = _x(N, bool(inp.get("complex")))
    try:
        a, b, rho = spectrum.arma_estimate(x, P, Q, lag)
    except Exception as e:
        return False, "arma_estimate(x[%d], P=%d, Q=%d, lag=%d) raises %s: %s  (stated domain: Q<=lag, lag+2P-Q<=N, 2Q<N-P all hold)" % (
            N, P, Q, lag, type(e).__name__, str(e)[:80])
    return len(a) == P and len(b) == Q, "returns len(ar)=%d len(ma)=%d" % (len(a), len(b))


def arma(inp):
    import spectrum
    from spectrum.correlation import CORRELATION
    cx = inp.get("datatype") == "complex" or bool(inp.get("complex"))
    for (N, P, Q, lag) in ((40, 3, 2, 8), (48, 6, 3, 12), (32, 2, 2, 6), (40, 4, 4, 10), (44, 1, 1, 5), (48, 5, 5, 12)):
        x = _x(N, cx)
        a, b, rho = spectrum.arma_estimate(x, P, Q, lag)
        if len(a) != P or len(b) != Q:
            return False, "arma_estimate(N=%d,P=%d,Q=%d,lag=%d): len(ar)=%d len(ma)=%d" % (N, P, Q, lag, len(a), len(b))
        # AR part: forward least-squares (covariance-method) solution on the modified Yule-Walker sequence of unbiased lags;
        # for P = Q that sequence is R[Q+1..lag] and these are the statement's modified Yule-Walker equations
        R = np.asarray(CORRELATION(x, maxlags=lag, norm="unbiased"))
        Y = np.zeros(lag, dtype=complex)
        for K in range(0, lag - Q + P):
            kpq = K + Q - P + 1
            if K < lag:
                Y[K] = np.conj(R[-kpq]) if kpq < 0 else R[kpq]
        rows = np.array([[Y[n - j - 1] for j in range(P)] for n in range(P, lag)])
        rhs = np.array([Y[n] for n in range(P, lag)])
        ls = np.linalg.lstsq(-rows, rhs, rcond=None)[0]
        if not close(np.asarray(a), ls, 1e-6):
            return False, "arma_estimate(N=%d,P=%d,Q=%d,lag=%d): AR part is not the forward least-squares solution of the modified Yule-Walker system (max|diff| %.3g)" % (
                N, P, Q, lag, float(np.max(np.abs(np.asarray(a) - ls))))
        # residual + ma() as stated
        y = np.array([x[k] + sum(a[j] * x[k - j - 1] for j in range(P)) for k in range(P, N)])
        b2, rho2 = spectrum.ma(y, Q, 2 * Q)
        if not (close(b, b2, 1e-9) and close(rho, rho2, 1e-9)):
            return False, "MA part is not ma(residual, Q, 2Q)"
    return True, "arma_estimate as stated on 6 shapes"


def ma(inp):
    import spectrum
    cx = inp.get("datatype") == "complex"
    x = _x(40, cx)
    for (Q, M) in ((2, 6), (3, 10)):
        b, rho = spectrum.ma(x, Q, M)
        a, r1, _ = spectrum.aryule(x, M, "biased")
        if len(b) != Q or not close(rho, r1, 1e-12):
            return False, "ma(Q=%d, M=%d): len %d, rho %r vs long-AR variance %r" % (Q, M, len(b), rho, r1)
    for (Q, M) in ((0, 5), (5, 5), (6, 5)):
        try:
            spectrum.ma(x, Q, M)
            return False, "ma(Q=%d, M=%d) accepted" % (Q, M)
        except ValueError:
            pass
    return True, "ma as stated"


NATIVE = dict(_N)
NATIVE.update(_N8)
NATIVE.update({"arma_domain": arma_domain, "arma": arma, "ma": ma})
SEARCH = dict(_S)
SEARCH.update(_S8)
SEARCH.update({"arma_domain": lambda rng, h: dict(h), "arma": lambda rng, h: dict(h), "ma": lambda rng, h: dict(h)})
