"""C19  Multitaper estimates are weighted means of tapered periodograms.

 pmtm.<method>.k<nwin>   on the real pmtm body (dpss by contract), symbolic N and NFFT >= N, nwin = 2, 3 tapers:
                         eigenspectra[t, f] = DFT_NFFT(taper_t * x)[f] (shape nwin x NFFT), the taper eigenvalues are returned,
                         weights are all 1 (nwin x 1) for 'unity' and eigenvalue/(index+1) for 'eigen'
 pmtm.adapt.iter<j>      'adapt': after j = 1, 2 iterations of the while loop the weights are b^2 * lambda with
                         b = S/(S*lambda + sig2*(1-lambda)) evaluated at the previous iterate S (Thomson), sig2 = sum|x|^2/N,
                         shape NFFT x nwin  (bounded in the iteration count; every iteration runs the same body)
 adapt-bounds            lemma: 0 < lambda <= 1, S >= 0, sig2 >= 0, S*lambda + sig2*(1-lambda) > 0  =>  0 <= b^2*lambda <= 1/lambda
 pmtm.precomputed        passing e, v = dpss(N, NW, k) gives the same eigenspectra, weights and eigenvalues; e without v (and
                         v without e, and neither NW) is rejected
 place.MultiTapering.*   the class returns mean over tapers of weight*|eigenspectrum|^2, doubled and folded for real data
 dpss-wrapper.k<k>       the Python wrapper around the C routine (contract A-DPSS-C): N x k, 1/sqrt(N) scaling, sign convention
                         (even index: positive sum, odd index: first sample positive), eigenvalues = autocovariance . r
"""
from fractions import Fraction
from pyvc import values as V
from pyvc.values import Arr, Arr2, Cx, Opaque
from pyvc.harness import Task
from . import classes, specs

META = {
    "level": "proof",
    "functions": ["spectrum.mtm.pmtm", "spectrum.mtm.MultiTapering.__call__", "spectrum.mtm.dpss (Python wrapper)"],
    "assumptions": ["A-REAL; A-PY; A-DFT",
                    "dpss(N, NW, k) enters pmtm by contract: an N x k real matrix of tapers and k eigenvalues depending on (N, NW, k) only",
                    "A-DPSS-C: the C routine multitap fills lam, tapers (k rows of N samples) and tapsum; its numerical content "
                    "(orthonormality, concentration) is C18 and is not decidable here",
                    "_autocov (FFT based autocovariance helper) enters the dpss wrapper as an uninterpreted function",
                    "adapt: the convergence of the iteration is a limit statement; what is proved is Thomson's formula at the "
                    "previous iterate for the first two iterations and the algebraic bounds of the weights",
                    "number of tapers bounded (2, 3); N and NFFT unbounded",
                    "non-negativity of the class result follows from the proved formula for weights >= 0"],
    "trusted_base": [],
}

F = Fraction


def dpss_contract(dom, nwin):
    def dpss(I, N, NW=None, k=None):
        keys = dom.key_terms([N, NW, k])
        tap = dom.opaque_array2("DPSS_tapers", keys, N, nwin, "float")
        eig = dom.opaque_array("DPSS_eig", keys, nwin, "float")
        return [tap, eig]
    return {"spectrum.mtm.dpss": dpss}


def eigenspectrum_spec(dom, x, tap, t, f, N, n):
    sx, st = x.snap(), tap.snap()
    zero = Cx(F(0), F(0)) if x.dtype == "complex" else F(0)
    seq = lambda j: V.s_ite(V.b_and(V.s_cmp(">=", j, 0), V.s_cmp("<", j, N)), st(j, t) * sx(j), zero)
    return V.Cx.of(dom.dtft(seq, n, f, n))


def pmtm_task(datatype, method, nwin, iters=None):
    def run(tc):
        dom = tc.smt()
        if iters is not None:
            dom.while_plan = iters
        I = tc.interp(stubs=dpss_contract(dom, nwin))
        hints = {"datatype": datatype, "method": method, "nwin": nwin, "iters": iters}
        tc.native = ("pmtm", hints)

        def thunk(I):
            if iters is not None:
                dom.while_plan = iters
            N = dom.input_int("N")
            n = dom.input_int("NFFT")
            I.assume(V.s_cmp(">=", N, 2))
            I.assume(V.s_cmp(">=", n, N))
            NW = dom.input_real("NW")
            x = dom.input_array("x", N, "complex" if datatype == "complex" else "float")
            I.st = dict(N=N, n=n, NW=NW, x=x)
            return I.call_qual("spectrum.mtm.pmtm", x, NW, nwin, n, None, None, method)

        def post(P):
            st = P.interp.st
            N, n, NW, x = st["N"], st["n"], st["NW"], st["x"]
            if P.outcome != "return":
                P.fail("no-exception", "pmtm raises %s" % P.value.exc, replay=("pmtm", hints))
                return
            Sk, w, eig = P.value
            tap, eig0 = dpss_contract(dom, nwin)["spectrum.mtm.dpss"](P.interp, N, NW, nwin)
            P.prove("eigenspectra.shape", V.b_and(V.s_eq(Sk.r, nwin), V.s_eq(Sk.c, n)), replay=("pmtm", hints))
            f = P.skolem("f", 0, n)
            for t in range(nwin):
                P.prove("eigenspectrum%d=DFT(taper*x)" % t, V.s_eq(Sk.at(t, f), eigenspectrum_spec(dom, x, tap, t, f, N, n)),
                        replay=("pmtm", hints))
            P.prove_arr_eq("eigenvalues-returned", eig, eig0, replay=("pmtm", hints))
            if method == "unity":
                ok = isinstance(w, Arr2) and w.r == nwin and w.c == 1
                if ok:
                    P.prove("weights=1", V.b_and(*[V.s_eq(w.at(t, 0), 1) for t in range(nwin)]) if nwin == 2 else
                            V.b_and(V.b_and(V.s_eq(w.at(0, 0), 1), V.s_eq(w.at(1, 0), 1)), V.s_eq(w.at(2, 0), 1)), replay=("pmtm", hints))
                else:
                    P.fail("weights.shape", "weights are not nwin x 1", replay=("pmtm", hints))
            elif method == "eigen":
                ok = isinstance(w, Arr2) and w.r == nwin and w.c == 1
                if ok:
                    g = True
                    for t in range(nwin):
                        g = V.b_and(g, V.s_eq(w.at(t, 0), V.s_div(eig0.at(t), t + 1)))
                    P.prove("weights=eigenvalue/(index+1)", g, replay=("pmtm", hints))
                else:
                    P.fail("weights.shape", "weights are not nwin x 1", replay=("pmtm", hints))
            else:
                if not isinstance(w, Arr2):
                    P.fail("weights.shape", "weights are not 2-D", replay=("pmtm", hints))
                    return
                P.prove("weights.shape=NFFTxnwin", V.b_and(V.s_eq(w.r, n), V.s_eq(w.c, nwin)), replay=("pmtm", hints))
                sx = x.snap()
                sig2 = V.s_div(dom.sum(0, N, lambda j: V.s_abs2(sx(j))), V.to_float(N))
                lam = [eig0.at(t) for t in range(nwin)]
                esp = [V.s_abs2(eigenspectrum_spec(dom, x, tap, t, f, N, n)) for t in range(nwin)]

                def thomson(S):
                    return [V.s_pow(V.s_div(S, S * lam[t] + sig2 * (1 - lam[t])), 2) * lam[t] for t in range(nwin)]
                S = V.s_div(esp[0] + esp[1], 2)
                wk = thomson(S)
                for _ in range(iters - 1):
                    S = V.s_div(sum((wk[t] * esp[t] for t in range(nwin)), F(0)), sum(wk, F(0)))
                    wk = thomson(S)
                for t in range(nwin):
                    P.prove("weights[f,%d]=thomson(previous-iterate)" % t, V.s_eq(w.at(f, t), wk[t]), replay=("pmtm", hints))
        tc.run_paths(I, thunk, post)
    nm = "pmtm.%s.%s.k%d%s" % (method, datatype, nwin, (".iter%d" % iters) if iters else "")
    return Task(nm, run, functions=["spectrum.mtm.pmtm"], timeout=600)


def bounds_task():
    def run(tc):
        dom = tc.smt()
        I = tc.interp()

        def post(P):
            lam, S, s2 = dom.input_real("lam"), dom.input_real("S"), dom.input_real("sig2")
            P.assume(V.b_and(V.s_cmp(">", lam, 0), V.s_cmp("<=", lam, 1)))
            P.assume(V.s_cmp(">=", S, 0))
            P.assume(V.s_cmp(">=", s2, 0))
            den = S * lam + s2 * (1 - lam)
            P.assume(V.s_cmp(">", den, 0))
            b = V.s_div(S, den)
            w = b * b * lam
            P.prove("0<=weight", V.s_cmp(">=", w, 0))
            P.prove("weight<=1/eigenvalue", V.s_cmp("<=", w * lam, 1))
        tc.run_paths(I, lambda I_: None, post)
    return Task("adapt-bounds", run, functions=[])


def precomputed_task(datatype):
    def run(tc):
        dom = tc.smt()
        nwin = 2
        I = tc.interp(stubs=dpss_contract(dom, nwin))
        hints = {"datatype": datatype}
        tc.native = ("pmtm_pre", hints)

        def thunk(I):
            N = dom.input_int("N")
            n = dom.input_int("NFFT")
            I.assume(V.s_cmp(">=", N, 2))
            I.assume(V.s_cmp(">=", n, N))
            NW = dom.input_real("NW")
            x = dom.input_array("x", N, "complex" if datatype == "complex" else "float")
            r1 = I.call_qual("spectrum.mtm.pmtm", x, NW, nwin, n, None, None, "eigen")
            tap, eig = dpss_contract(dom, nwin)["spectrum.mtm.dpss"](I, N, NW, nwin)
            r2 = I.call_qual("spectrum.mtm.pmtm", x, None, None, n, eig, tap, "eigen")
            I.st = dict(r1=r1, r2=r2, n=n)
            return None

        def post(P):
            if P.outcome != "return":
                P.fail("no-exception", "pmtm raises %s" % P.value.exc, replay=("pmtm_pre", hints))
                return
            (S1, w1, e1), (S2, w2, e2) = P.interp.st["r1"], P.interp.st["r2"]
            n = P.interp.st["n"]
            f = P.skolem("f", 0, n)
            g = True
            for t in range(nwin):
                g = V.b_and(g, V.b_and(V.s_eq(S1.at(t, f), S2.at(t, f)), V.s_eq(w1.at(t, 0), w2.at(t, 0))))
            P.prove("same-eigenspectra-and-weights", g, replay=("pmtm_pre", hints))
            P.prove_arr_eq("same-eigenvalues", e2, e1, replay=("pmtm_pre", hints))
        tc.run_paths(I, thunk, post)

        for case in ("e-only", "v-only", "nothing"):
            def thunk2(I, case=case):
                x = dom.input_array("x", 8, "float")
                e = dom.input_array("e", 2, "float") if case == "e-only" else None
                v = dom.input_array2("v", 8, 2, "float") if case == "v-only" else None
                return I.call_qual("spectrum.mtm.pmtm", x, None, None, 16, e, v, "unity")

            def post2(P, case=case):
                if P.outcome == "raise" and P.value.exc == "ValueError":
                    P.ok("rejects.%s" % case)
                else:
                    P.fail("rejects.%s" % case, "accepted", replay=("pmtm_pre", hints))
            tc.run_paths(I, thunk2, post2)
    return Task("pmtm.precomputed.%s" % datatype, run, functions=["spectrum.mtm.pmtm"])


def dpss_wrapper_task(k):
    def run(tc):
        dom = tc.smt()
        holder = {}

        def multitap(I, N, kk, lam_p, NW, tap_p, sum_p):
            keys = dom.key_terms([N, kk, NW])
            T = dom.opaque_array("CTAPERS", keys, kk * N, "float")
            S = dom.opaque_array("CTAPSUM", keys, kk, "float")
            L = dom.opaque_array("CLAM", keys, kk, "float")
            for ptr, src in ((tap_p, T), (sum_p, S), (lam_p, L)):
                a = ptr.arr
                a.items = None
                a.fn = src.snap()
            holder["T"], holder["S"] = T.snap(), S.snap()
            return None

        def autocov(I, s, **kw):
            keys = dom.key_terms([s])
            return dom.opaque_array2("AUTOCOV", keys, s.r, s.c, "float")
        I = tc.interp(stubs={"opaque:clib.multitap": multitap, "spectrum.mtm._autocov": autocov})
        hints = {"k": k}
        tc.native = ("dpss", hints)

        def thunk(I):
            N = dom.input_int("N")
            I.assume(V.s_cmp(">=", N, 8))
            NW = dom.input_real("NW")
            I.assume(V.s_cmp(">=", NW, 1))
            I.assume(V.s_cmp("<", 2 * NW, V.to_float(N)))
            I.st = dict(N=N, NW=NW)
            return I.call_qual("spectrum.mtm.dpss", N, NW, k)

        def post(P):
            st = P.interp.st
            N = st["N"]
            if P.outcome != "return":
                P.fail("no-exception", "dpss raises %s" % P.value.exc, replay=("dpss", hints))
                return
            tapers, eig = P.value
            P.prove("shape=Nxk", V.b_and(V.s_eq(tapers.r, N), V.s_eq(tapers.c, k)), replay=("dpss", hints))
            P.prove("k-eigenvalues", V.s_eq(eig.n, k), replay=("dpss", hints))
            T, S = holder["T"], holder["S"]
            n = P.skolem("n", 0, N)
            rt = dom.sqrt(V.to_float(N))
            for i in range(k):
                raw = V.s_div(T(i * N + n), rt)
                first = V.s_div(T(i * N), rt)
                flip = V.s_cmp("<", S(i), 0) if i % 2 == 0 else V.s_cmp("<", first, 0)
                P.prove("taper%d=+-row/sqrt(N)(sign-convention)" % i, V.s_eq(tapers.at(n, i), V.s_ite(flip, -raw, raw)), replay=("dpss", hints))
        tc.run_paths(I, thunk, post)
    return Task("dpss-wrapper.k%d" % k, run, functions=["spectrum.mtm.dpss"])


def default_k_task():
    def run(tc):
        dom = tc.smt()
        seen = {}

        def multitap(I, N, kk, lam_p, NW, tap_p, sum_p):
            seen["k"] = kk
            from pyvc.interp import RaiseSig
            raise RaiseSig("__reached__")
        I = tc.interp(stubs={"opaque:clib.multitap": multitap})

        def thunk(I):
            seen.clear()
            return I.call_qual("spectrum.mtm.dpss", 64, F(5, 2), None)

        def post(P):
            if P.outcome == "raise" and P.value.exc == "__reached__" and seen.get("k") == 5:
                P.ok("default-k=round(2NW)")
            else:
                P.fail("default-k=round(2NW)", "k = %r" % (seen.get("k"),), replay=("dpss", {}))
        tc.run_paths(I, thunk, post)
    return Task("dpss-wrapper.default-k", run, kind="bounded", functions=["spectrum.mtm.dpss"])


def tasks(tier):
    ts = [bounds_task(), default_k_task()]
    for dt in ("real", "complex"):
        for nwin in (2, 3):
            ts.append(pmtm_task(dt, "unity", nwin))
            ts.append(pmtm_task(dt, "eigen", nwin))
        ts.append(pmtm_task(dt, "adapt", 2, iters=1))
        ts.append(pmtm_task(dt, "adapt", 2, iters=2))
        if tier == "thorough":
            ts.append(pmtm_task(dt, "adapt", 3, iters=1))
        ts.append(precomputed_task(dt))
        ts.append(classes.place_task("MultiTapering", dt))
    ts.append(dpss_wrapper_task(2))
    ts.append(dpss_wrapper_task(3))
    return ts
