"""C16  Minimum-variance spectrum equals T / (e^H R^-1 e)   -- code half.

 minvar.*         the real minvar body (Burg by contract): PSD[k] = sampling / Re sum_{|K|<m} psi~[K] e^{-2 pi i k K/NFFT}
                  with psi[K] = (1/P) sum_I (m-K-2I) conj(A[I]) A[I+K], psi~ Hermitian, for every order m >= 2,
                  every NFFT >= 2m (both parities); returns A = [1, a_burg] and the Burg reflection coefficients
 place.pminvar.*  the class folds it onto the reported axis
 musicus.*        (exact algebra, bounded) the statement's own definition: with the order m-1 Burg model parametrised by
                  (r0, k_1..k_{m-1}) and handed to the real minvar through arburg's contract, and R the m x m Hermitian Toeplitz
                  matrix of the autocorrelation that model implies, PSD[k] * (e(f_k)^H R^-1 e(f_k)) = sampling at every bin of an exact
                  NFFT-point DFT -- i.e. the psi sequence the code builds IS the diagonal-sum sequence of R^-1 (Musicus)
"""
from fractions import Fraction
from pyvc import values as V
from pyvc.values import Arr, Cx
from pyvc.harness import Task
from . import funcs, classes
from .e3 import E3, e3_interp, ac_from_rc, names_for, ksyms

META = {
    "level": "proof",
    "functions": ["spectrum.minvar.minvar", "spectrum.minvar.pminvar.__call__"],
    "assumptions": ["A-REAL; A-PY; A-DFT (periodisation identity, premises proved)",
                    "arburg enters by its contract (C13): (a, rho, ref) of order m-1",
                    "the identity PSD = T/(e^H R^-1 e) (Musicus: psi is the diagonal-sum sequence of R^-1 for the Toeplitz R implied by the "
                    "Burg model) is decided by exact algebra at bounded sizes only (musicus.*: m <= 3 quick / 4 thorough, NFFT in {4, 6, 8, 12}); "
                    "for larger m it remains mathematics over the specification. Positivity of the quadratic form (R positive definite "
                    "for |k_i| < 1): not decided",
                    "L-PARAM for musicus.*: the Burg model is parametrised by r0 > 0 and reflection coefficients; identities of Q(r0, k, T)"],
    "trusted_base": ["sympy.polys (musicus.* only)"],
    "bounded_note": "musicus.* tasks are bounded in m and NFFT; everything else is unbounded",
}


def _solve(Mx, b):
    """exact solution of Mx y = b (generic path: non-zero pivots), entries Cx over the field"""
    n = len(b)
    A = [[V.Cx.of(v) for v in row] for row in Mx]
    y = [V.Cx.of(v) for v in b]
    for c in range(n):
        for r in range(c + 1, n):
            f = A[r][c] / A[c][c]
            A[r] = [A[r][j] - f * A[c][j] for j in range(n)]
            y[r] = y[r] - f * y[c]
    x = [None] * n
    for c in reversed(range(n)):
        acc = y[c]
        for j in range(c + 1, n):
            acc = acc - A[c][j] * x[j]
        x[c] = acc / A[c][c]
    return x


def musicus_task(cx, m, NFFT):
    def run(tc):
        p = m - 1
        names = names_for(p, cx, extra=("T",)) + (["sqrt3"] if NFFT in (3, 6, 12) else []) + (["sqrt2"] if NFFT == 8 else []) + ["d0", "d1", "d2", "d3", "d4"]
        seen = {}

        def arburg_stub(I_, X, order, *rest, **kw):
            seen["order"] = order
            return (Arr.from_items([V.Cx.of(v) if cx else v for v in a], dtype="complex" if cx else "float"), P,
                    Arr.from_items([V.Cx.of(v) if cx else v for v in ks], dtype="complex" if cx else "float"))
        dom, I = e3_interp(tc, names, stubs={"spectrum.burg.arburg": arburg_stub})
        E = E3(tc, dom, "musicus", {"m": m, "NFFT": NFFT, "complex": cx}, tc.seed)
        ks = ksyms(dom, p, cx)
        r0, T = dom.sym("r0"), dom.sym("T")
        r, a, P = ac_from_rc(r0, ks)
        data = Arr.from_items([dom.sym("d%d" % j) for j in range(5)], dtype="float")        # only handed on to arburg
        v = E.run(I, lambda I_: I_.call_qual("spectrum.minvar.minvar", data, m, T, NFFT))
        if v is None:
            return
        E.ok("uses-the-Burg-model-of-order-m-1", V.is_conc(seen.get("order")) and int(seen["order"]) == p, "arburg called with order %r" % (seen.get("order"),))
        psd = v[0].to_list()
        E.ok("NFFT-values", len(psd) == NFFT, "length %d" % len(psd))
        if len(psd) != NFFT:
            return
        # R[i][j] = r[i-j] (i >= j), conj(r[j-i]) otherwise;  e_k[n] = exp(+2 pi i k n / NFFT)
        R = [[V.Cx.of(r[i - j]) if i >= j else V.s_conj(V.Cx.of(r[j - i])) for j in range(m)] for i in range(m)]
        for k in range(NFFT):
            e = [dom.cis(k * n, NFFT) for n in range(m)]
            y = _solve(R, e)
            q = sum((V.s_conj(e[i]) * y[i] for i in range(m)), Cx(Fraction(0), Fraction(0)))
            E.eq("PSD[%d]*(e^H R^-1 e)=sampling" % k, V.Cx.of(psd[k]) * q, Cx(T, Fraction(0)))
        E.eq("returns-[1,a_burg]", [V.Cx.of(x) for x in v[1].to_list()], [Cx(Fraction(1), Fraction(0))] + [V.Cx.of(x) for x in a])
        E.eq("returns-burg-reflection-coefficients", [V.Cx.of(x) for x in v[2].to_list()], [V.Cx.of(x) for x in ks])
    return Task("musicus.%s.m%d.NFFT%d" % ("complex" if cx else "real", m, NFFT), run, kind="bounded", prerun=True, timeout=200,
                functions=["spectrum.minvar.minvar"])


def tasks(tier):
    ts = []
    for dt in ("real", "complex"):
        ts.append(funcs.minvar_task(dt))
        ts.append(classes.place_task("pminvar", dt))
        ts.append(funcs.grid_task("minvar", dt))
    sizes = [(2, 4), (2, 6), (3, 6), (3, 8)] if tier == "quick" else [(2, 4), (2, 6), (2, 8), (3, 6), (3, 8), (3, 12), (4, 8), (4, 12)]
    for cx in (False, True):
        for (m, n) in sizes:
            ts.append(musicus_task(cx, m, n))
    return ts
