"""C16  Minimum-variance spectrum equals T / (e^H R^-1 e)   -- code half.

 minvar.*         the real minvar body (Burg by contract): PSD[k] = sampling / Re sum_{|K|<m} psi~[K] e^{-2 pi i k K/NFFT}
                  with psi[K] = (1/P) sum_I (m-K-2I) conj(A[I]) A[I+K], psi~ Hermitian, for every order m >= 2,
                  every NFFT >= 2m (both parities); returns A = [1, a_burg] and the Burg reflection coefficients
 place.pminvar.*  the class folds it onto the reported axis
 The Musicus identity psi[K] = sum_i (R^-1)[i+K, i] (bounded exact algebra) is checked by the E3 engine when built.
"""
from . import funcs, classes

META = {
    "level": "proof",
    "functions": ["spectrum.minvar.minvar", "spectrum.minvar.pminvar.__call__"],
    "assumptions": ["A-REAL; A-PY; A-DFT (periodisation identity, premises proved)",
                    "arburg enters by its contract (C13): (a, rho, ref) of order m-1",
                    "Musicus identity (psi is the diagonal-sum sequence of R^-1 for the Toeplitz R implied by the Burg model) and "
                    "positivity of the quadratic form: mathematics over the specification, not decided by this check"],
    "trusted_base": [],
}


def tasks(tier):
    ts = []
    for dt in ("real", "complex"):
        ts.append(funcs.minvar_task(dt))
        ts.append(classes.place_task("pminvar", dt))
        ts.append(funcs.grid_task("minvar", dt))
    return ts
