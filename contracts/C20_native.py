"""native oracles for C20 replays"""
import numpy as np
from .native_common import Skip, num, close


def closed(name, N, params):
    n = np.arange(N, dtype=float)
    if N == 1:
        return None
    N1 = N - 1.0
    t = 2 * np.pi * n / N1
    cen = -N / 2.0 + n * N / N1
    if name == "rectangle":
        return np.ones(N)
    if name == "blackman":
        a = params.get("alpha", 0.16)
        return (1 - a) / 2 - 0.5 * np.cos(t) + a / 2 * np.cos(2 * t)
    if name == "bartlett_hann":
        return 0.62 - 0.48 * np.abs(n / N1 - 0.5) - 0.38 * np.cos(t)
    co = {"nuttall": (0.355768, 0.487396, 0.144232, 0.012604), "blackman_nuttall": (0.3635819, 0.4891775, 0.1365995, 0.0106411),
          "blackman_harris": (0.35875, 0.48829, 0.14128, 0.01168)}
    if name in co:
        a = co[name]
        return a[0] - a[1] * np.cos(t) + a[2] * np.cos(2 * t) - a[3] * np.cos(3 * t)
    if name == "flattop":
        a = (0.21557895, 0.41663158, 0.277263158, 0.083578947, 0.006947368)
        return a[0] - a[1] * np.cos(t) + a[2] * np.cos(2 * t) - a[3] * np.cos(3 * t) + a[4] * np.cos(4 * t)
    if name == "cosine":
        return np.sin(np.pi * n / N1)
    if name == "gaussian":
        a = params.get("alpha", 2.5)
        return np.exp(-0.5 * (a * (n - N1 / 2) / (N / 2.0)) ** 2)
    if name == "bohman":
        x = np.abs(-1 + 2 * n / N1)
        return (1 - x) * np.cos(np.pi * x) + np.sin(np.pi * x) / np.pi
    if name == "riesz":
        return 1 - np.abs(cen / (N / 2.0)) ** 2
    if name == "riemann":
        return np.sinc(2 * cen / N)
    if name == "poisson":
        return np.exp(-params.get("alpha", 2) * np.abs(cen) / (N / 2.0))
    if name == "poisson_hanning":
        return np.hanning(N) * np.exp(-params.get("alpha", 2) * np.abs(cen) / (N / 2.0))
    if name == "cauchy":
        return 1.0 / (1 + (params.get("alpha", 3) * cen / (N / 2.0)) ** 2)
    return None


def window(inp):
    import spectrum.window as W
    name = inp["window"]
    f = getattr(W, "window_" + name)
    params = {}
    for k, v in inp.items():
        if k.startswith("param_"):
            try:
                params[k[6:]] = num(v)
            except Exception:
                pass
    Ns = [int(inp["N"])] if str(inp.get("N", "")).isdigit() and int(inp["N"]) >= 1 else []
    if "m" in inp and str(inp["m"]).isdigit():
        Ns.append(2 * int(inp["m"]) + 1)
    Ns += [1, 2, 3, 4, 5, 8, 9, 16, 17, 33, 64]
    if not params and name in ("poisson_hanning", "poisson", "gaussian", "cauchy", "blackman"):
        params = {"alpha": 0.7}
    for N in Ns:
        if N > 4096:
            continue
        w = np.asarray(f(N, **params) if params else f(N))
        if w.shape != (N,) or np.iscomplexobj(w) or not np.all(np.isfinite(w)):
            return False, "window_%s(%d%s): shape %s, finite=%s -> %s" % (name, N, params or "", w.shape, bool(np.all(np.isfinite(w))), w[:5])
        if name not in ("kaiser", "chebwin", "taylor") and not close(w, w[::-1], 1e-12):
            return False, "window_%s(%d) is not symmetric: %s" % (name, N, w)
        c = closed(name, N, params)
        if c is not None and not close(w, c, 1e-12):
            return False, "window_%s(%d) differs from its closed form: %s vs %s" % (name, N, w[:4], c[:4])
        if N % 2 == 1 and N >= 3 and name not in ("taylor", "flattop") and abs(w[N // 2] - 1) > 1e-9:
            return False, "window_%s(%d): centre sample %r != 1" % (name, N, w[N // 2])
    return True, "window_%s well formed on %s" % (name, Ns)


def factory(inp):
    import spectrum.window as W
    name = inp["name"]
    N = 16
    w = W.create_window(N, name)
    g = getattr(W, W.window_names[name])(N)
    if not close(w, g, 0):
        return False, "create_window(%d, %r) != %s(%d)" % (N, name, W.window_names[name], N)
    docs = {"kaiser": {"beta": 3.3}, "blackman": {"alpha": 0.2}, "cauchy": {"alpha": 2.0}, "flattop": {"mode": "periodic"},
            "gaussian": {"alpha": 1.5}, "chebwin": {"attenuation": 70}, "tukey": {"r": 0.3}, "poisson": {"alpha": 1.0},
            "poisson_hanning": {"alpha": 1.0}, "taylor": {"nbar": 5, "sll": -40}}
    if name in docs:
        w = W.create_window(N, name, **docs[name])
        g = getattr(W, W.window_names[name])(N, **docs[name])
        if not close(w, g, 0):
            return False, "create_window(%d, %r, %s) does not forward the parameter" % (N, name, docs[name])
    try:
        W.create_window(N, name, bogus_parameter=1.0)
        return False, "create_window(%d, %r, bogus_parameter=1.0) accepted" % (N, name)
    except ValueError:
        pass
    return True, "factory routes %r correctly" % name


def alias(inp):
    import spectrum.window as W
    for a, b in [("hann", "hanning"), ("rectangular", "rectangle"), ("bartlett", "triangular"), ("cosine", "sine"), ("lanczos", "sinc")]:
        if not close(W.create_window(11, a), W.create_window(11, b), 0):
            return False, "%s and %s differ" % (a, b)
    return len(W.window_names) == 29, "%d names" % len(W.window_names)


def window_class(inp):
    import spectrum.window as W
    ok = True
    # includes windows with NEGATIVE samples (flat-top, Lanczos / sinc at short lengths): sum(w)^2 and sum(|w|)^2 differ there
    for (n, name) in ((12, "hamming"), (64, "flattop"), (3, "lanczos"), (5, "lanczos"), (33, "flattop"), (16, "blackman_harris"),
                      (9, "tukey"), (21, "kaiser")):
        try:
            w = W.Window(n, name)
            d = np.asarray(W.create_window(n, name))
        except Exception:
            continue            # a name this version does not offer
        want = n * np.sum(d ** 2) / np.sum(d) ** 2
        if not (close(w.data, d, 0) and w.N == n):
            return False, "Window(%d, %r): samples / length differ from create_window" % (n, name)
        if abs(w.enbw - want) > 1e-9 * max(1.0, abs(want)):
            return False, "Window(%d, %r).enbw = %r, N*sum(w^2)/sum(w)^2 = %r" % (n, name, w.enbw, want)
    for bad in ((0, "hamming"), (-3, "hamming"), (8, "no_such_window")):
        try:
            W.Window(*bad)
            return False, "Window%r accepted" % (bad,)
        except (AssertionError, ValueError):
            pass
    return ok, "Window class"


NATIVE = {"window": window, "factory": factory, "alias": alias, "window_class": window_class}
SEARCH = {k: (lambda rng, h: dict(h)) for k in NATIVE}
