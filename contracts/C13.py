"""C13  Burg models: stage-wise exact algebra on the real arburg loop body (E3), plus frame facts.

 stage.<data>.N<N>.k<k>   the real loop body of arburg is executed from a SYMBOLIC loop-head state of stage k that satisfies the
                          invariant  ef[j] = sum_i a_i x[j-i], eb[j] = sum_i conj(a_i) x[j-k+i] (j >= k), temp*den = sum_{j>=k}(|ef_j|^2+|eb_j|^2)
                          (fresh symbols for x, a, temp, rho; the reflection coefficient kp is kept as a free symbol with the recorded
                          relation h = kp*den' + 2*num = 0).  Proved as polynomial identities / certificates:
                            quotient     kp is -2*num/den' with num = sum ef_j conj(eb_{j-1}) and Marple's den recursion equal to the direct sum
                            step-up      the in-place khalf update of a is the Levinson step-up with kp (both `j != k-j-1` outcomes)
                            errors       the updated ef, eb satisfy the invariant of stage k+1
                            variance     rho' = (1-|kp|^2) rho; temp' = 1-|kp|^2
                            energy       temp'*den' = sum_{j>=k+1}(|ef'_j|^2+|eb'_j|^2)   modulo h   (certificate conj(kp) h + kp conj(h))
                            minimiser    E(kp+d) - E(kp) = den' |d|^2                      modulo h   (certificate conj(d) h + d conj(h))
                            |kp|<=1      den'^2 - |2 num|^2 = (U-V)^2 + 4 sum_{i<j}|u_i v_j - u_j v_i|^2  (Lagrange identity, sum of squares)
 stage.*.k0               the initial state establishes the invariant (whole first iteration, no injection)
 frame.order              the loop body never reads `order`: the first q iterations of an order-p run ARE the order-q run (nesting)
 criterion.*              when the criterion stops at iteration q the returned (a, rho, ref) is the loop-head state = the order-q model
 arburg2.*                the vectorised _arburg2 returns the same reflection coefficients (whole run, tiny sizes)
"""
import ast
from fractions import Fraction
from pyvc import values as V
from pyvc.values import Arr, Arr2, Cx
from pyvc.harness import Task
from .e3 import E3, e3_interp

F = Fraction
META = {
    "level": "other",
    "functions": ["spectrum.burg.arburg", "spectrum.burg._arburg2", "spectrum.criteria.Criteria.__call__ (stop rule, by stub)"],
    "assumptions": ["A-REAL", "bounded in (N, stage): N <= 7, k <= 3 quick; N <= 10, k <= 5 thorough; all values at those sizes",
                    "the stage obligations are an inductive argument: base (k0) + step (k -> k+1 from ANY state satisfying the invariant); "
                    "the induction over k itself is the usual loop-invariant rule, applied by hand",
                    "the relation h = kp*den' + 2 num = 0 is the code's own definition of kp (checked as `quotient`); certificates are "
                    "verified as polynomial identities, they are not trusted",
                    "|kp| <= 1 follows from den'^2 >= |2 num|^2 (sum-of-squares identity) and den' > 0 (non-degenerate prediction error)",
                    "stable polynomial: Schur-Cohn (root location), not claimed"],
    "trusted_base": ["sympy.polys (exact polynomial arithmetic)"],
    "explanation": "Deductive, bounded in size: each iteration of Burg's recursion is verified from an arbitrary symbolic loop-head state "
                   "(loop-invariant style) by exact polynomial identities with explicit certificates, for all data values at the stated N and stage.",
    "bounded_note": "N <= 7, k <= 3 quick; N <= 10, k <= 5 thorough",
}


def spec_errors(x, a, k, N, cx):
    """ef[j], eb[j] (j >= k) implied by the AR vector a (length k)"""
    ef, eb = {}, {}
    for j in range(k, N):
        f = x[j]
        b = x[j - k]
        for i in range(1, k + 1):
            f = f + a[i - 1] * x[j - i]
            b = b + V.s_conj(a[i - 1]) * x[j - k + i]
        ef[j], eb[j] = f, b
    return ef, eb


def stage_task(N, k0, cx):
    def run(tc):
        names = []
        for j in range(N):
            names += ["x%d_r" % j, "x%d_i" % j] if cx else ["x%d" % j]
        for i in range(k0):
            names += ["a%d_r" % i, "a%d_i" % i] if cx else ["a%d" % i]
        names += ["t", "rho", "kp_r", "kp_i", "d_r", "d_i"]
        dom, I = e3_interp(tc, names)
        E = E3(tc, dom, "burg_stage", {"N": N, "k": k0, "complex": cx}, tc.seed)
        sym = (lambda n: dom.csym(n)) if cx else (lambda n: Cx(dom.sym(n), 0))
        x = [sym("x%d" % j) for j in range(N)]
        a = [sym("a%d" % i) for i in range(k0)]
        t, rho_in = dom.sym("t"), dom.sym("rho")
        kp = Cx(dom.sym("kp_r"), dom.sym("kp_i") if cx else 0)
        delta = Cx(dom.sym("d_r"), dom.sym("d_i") if cx else 0)
        ef_in, eb_in = spec_errors(x, a, k0, N, cx)
        S = 0
        for j in range(k0, N):
            S = S + V.s_abs2(ef_in[j]) + V.s_abs2(eb_in[j])
        rec = {"calls": []}
        cap = {}

        def hook(phase, st, frame, k):
            if frame.func is None or frame.func.name != "arburg" or not isinstance(st.target, ast.Name) or st.target.id != "k":
                return None
            if phase == "before":
                if k < k0:
                    return "skip"
                if k == k0 and k0 > 0:
                    zero = Cx(F(0), F(0))
                    frame.locals["a"] = Arr.from_items(list(a), dtype="complex")
                    frame.locals["ref"] = Arr.from_items([zero] * k0, dtype="complex")
                    frame.locals["ef"] = Arr.from_items([ef_in.get(j, zero) for j in range(N)], dtype="complex")
                    frame.locals["eb"] = Arr.from_items([eb_in.get(j, zero) for j in range(N)], dtype="complex")
                    frame.locals["temp"] = t
                    frame.locals["den"] = V.s_div(S, t)
                    frame.locals["rho"] = rho_in
                if k == k0:
                    cap["rho_in"] = frame.locals["rho"]
                    dom.abstract_div = absdiv
                return None
            if k == k0:
                dom.abstract_div = None
                for nm in ("ef", "eb", "den", "temp", "a", "rho"):
                    v = frame.locals[nm]
                    cap[nm] = v.to_list() if isinstance(v, Arr) else v
            return None

        def absdiv(n, d):
            if dom.is_zero(n):
                return F(0)
            i = len(rec["calls"])
            rec["calls"].append((n, d))
            return kp.re if i == 0 else kp.im
        I.loop_hook = hook
        val = E.run(I, lambda I_: I_.call_qual("spectrum.burg.arburg", Arr.from_items(x, dtype="complex" if cx else "float"), k0 + 1))
        dom.abstract_div = None
        if val is None:
            return
        a_out, rho_out, ref_out = val
        if k0 == 0:
            # the real initial state: it must satisfy the invariant of stage 0
            ef_in0 = {j: x[j] for j in range(N)}
            eb_in0 = dict(ef_in0)
            ef_use, eb_use = ef_in0, eb_in0
            rho0 = 0
            for j in range(N):
                rho0 = rho0 + V.s_abs2(x[j])
            rho_prev = V.s_div(rho0, N)
            E.eq("init:rho=mean|x|^2", cap["rho_in"], rho_prev)
        else:
            ef_use, eb_use = ef_in, eb_in
            rho_prev = rho_in
        # 1. the recorded quotient
        num = Cx(F(0), F(0))
        dsum = 0
        for j in range(k0 + 1, N):
            num = num + ef_use[j] * V.s_conj(eb_use[j - 1])
            dsum = dsum + V.s_abs2(ef_use[j]) + V.s_abs2(eb_use[j - 1])
        if not rec["calls"]:
            E.ok("quotient", False, "no division recorded for kp")
            return
        n_r, d = rec["calls"][0]
        n_i = rec["calls"][1][0] if len(rec["calls"]) > 1 else F(0)
        E.eq("quotient:numerator=-2*sum ef_j conj(eb_{j-1})", Cx(n_r, n_i), num * (-2))
        E.eq("quotient:denominator=sum_{j>k}(|ef_j|^2+|eb_{j-1}|^2) (Marple recursion = direct sum)", d, dsum)
        if len(rec["calls"]) > 1:
            E.eq("quotient:same-denominator", rec["calls"][1][1], dsum)
        # 2. step-up
        a_new = [a[i] + kp * V.s_conj(a[k0 - 1 - i]) for i in range(k0)] + [kp]
        E.eq("step-up:a'=levinson-step(a, kp)", a_out, a_new)
        E.eq("reflection[k]=kp", ref_out.to_list()[k0], kp)
        # 3. variance
        E.eq("variance:rho'=(1-|kp|^2) rho", rho_out, (1 - V.s_abs2(kp)) * rho_prev)
        E.eq("variance:temp'=1-|kp|^2", cap["temp"], 1 - V.s_abs2(kp))
        # 4. updated errors satisfy the invariant of the next stage
        ef_sp, eb_sp = spec_errors(x, a_new, k0 + 1, N, cx)
        E.eq("errors:ef'", [cap["ef"][j] for j in range(k0 + 1, N)], [ef_sp[j] for j in range(k0 + 1, N)])
        E.eq("errors:eb'", [cap["eb"][j] for j in range(k0 + 1, N)], [eb_sp[j] for j in range(k0 + 1, N)])
        # 5. energy invariant of the next stage, modulo h = kp*den' + 2 num
        h = kp * dsum + num * 2
        Enext = 0
        for j in range(k0 + 1, N):
            Enext = Enext + V.s_abs2(ef_sp[j]) + V.s_abs2(eb_sp[j])
        cert = V.s_conj(kp) * h + kp * V.s_conj(h)
        E.eq("energy:temp'*den'=sum_{j>=k+1}(|ef'|^2+|eb'|^2) [certificate conj(kp) h + kp conj(h)]",
             Cx.of(Enext - (1 - V.s_abs2(kp)) * dsum), cert)
        # 6. kp minimises the forward+backward energy of the stage
        def energy(kappa):
            tot = 0
            for j in range(k0 + 1, N):
                tot = tot + V.s_abs2(ef_use[j] + kappa * eb_use[j - 1]) + V.s_abs2(eb_use[j - 1] + V.s_conj(kappa) * ef_use[j])
            return tot
        lhs = energy(kp + delta) - energy(kp) - dsum * V.s_abs2(delta)
        E.eq("minimiser:E(kp+d)-E(kp)=den'|d|^2 [certificate conj(d) h + d conj(h)]", Cx.of(lhs), V.s_conj(delta) * h + delta * V.s_conj(h))
        # 7. |kp| <= 1: Lagrange identity (sum of squares)
        u = [ef_use[j] for j in range(k0 + 1, N)]
        v = [eb_use[j - 1] for j in range(k0 + 1, N)]
        U = sum((V.s_abs2(z) for z in u), 0)
        Vv = sum((V.s_abs2(z) for z in v), 0)
        sos = (U - Vv) * (U - Vv)
        for i in range(len(u)):
            for j in range(i + 1, len(u)):
                sos = sos + 4 * V.s_abs2(u[i] * v[j] - u[j] * v[i])
        E.eq("|kp|<=1:den'^2-|2num|^2=(U-V)^2+4*sum|u_i v_j-u_j v_i|^2", dsum * dsum - 4 * V.s_abs2(num), sos)
    return Task("stage.%s.N%d.k%d" % ("complex" if cx else "real", N, k0), run, kind="bounded", timeout=900,
                functions=["spectrum.burg.arburg"])


def frame_task():
    """nesting: the loop body of arburg reads x, N, k and the loop-carried state but never `order`"""
    def run(tc):
        f = tc.program.find_function("spectrum.burg.arburg").node
        loops = [n for n in ast.walk(f) if isinstance(n, ast.For) and isinstance(n.target, ast.Name) and n.target.id == "k"]
        ok = len(loops) == 1
        reads = []
        if ok:
            for n in ast.walk(loops[0]):
                if n is loops[0].iter:
                    continue
            body_names = [n.id for st in loops[0].body for n in ast.walk(st) if isinstance(n, ast.Name) and isinstance(n.ctx, ast.Load)]
            reads = [n for n in body_names if n in ("order",)]
            it = loops[0].iter
            iter_ok = isinstance(it, ast.Call) and getattr(it.func, "id", "") == "range" and any(
                isinstance(a_, ast.Name) and a_.id == "order" for a_ in it.args)
        r = tc.add_result("frame:loop-body-does-not-read-order", "proved" if ok and not reads and iter_ok else "refuted",
                          backend="AST frame check", detail="" if ok and not reads else "loop body reads %r" % reads, model={})
        r.clause = "frame:loop-body-does-not-read-order"
        r.replay = ("burg_nesting", {})
    return Task("frame.order", run, functions=["spectrum.burg.arburg"])


def criterion_task(N, k0, cx):
    """the criterion stops at iteration k0: the returned (a, rho, ref) is the loop-head state of that iteration,
    i.e. the order-k0 Burg model (none of the statements after the test has been executed)"""
    def run(tc):
        names = []
        for j in range(N):
            names += ["x%d_r" % j, "x%d_i" % j] if cx else ["x%d" % j]
        for i in range(k0):
            names += ["a%d_r" % i, "a%d_i" % i, "q%d_r" % i, "q%d_i" % i] if cx else ["a%d" % i, "q%d" % i]
        names += ["t", "rho", "dd", "kp_r", "kp_i"]
        dom, _ = e3_interp(tc, names)
        from pyvc.interp import Interp
        cnt = {"n": 0}

        def absdiv(n_, d_):
            # the reflection coefficient of the interrupted iteration is irrelevant here: keep it symbolic
            if dom.is_zero(n_):
                return F(0)
            cnt["n"] += 1
            return dom.sym("kp_r") if cnt["n"] % 2 == 1 else dom.sym("kp_i")

        def crit_call(I_, self_, rho=None, k=None, N=None, norm=True):
            return not (k == k0 + 1)
        I = Interp(tc.program, dom, tc.lib, stubs={"spectrum.criteria.Criteria.__call__": crit_call})
        E = E3(tc, dom, "burg_criterion", {"N": N, "stop_at": k0, "complex": cx}, tc.seed)
        sym = (lambda n: dom.csym(n)) if cx else (lambda n: Cx(dom.sym(n), 0))
        x = [sym("x%d" % j) for j in range(N)]
        a = [sym("a%d" % i) for i in range(k0)]
        refs = [sym("q%d" % i) for i in range(k0)]
        rho_in = dom.sym("rho")
        ef_in, eb_in = spec_errors(x, a, k0, N, cx)

        def hook(phase, st, frame, k):
            if frame.func is None or frame.func.name != "arburg" or not isinstance(st.target, ast.Name) or st.target.id != "k":
                return None
            if phase == "before":
                if k < k0:
                    return "skip"
                if k == k0 and k0 > 0:
                    zero = Cx(F(0), F(0))
                    frame.locals["a"] = Arr.from_items(list(a), dtype="complex")
                    frame.locals["ref"] = Arr.from_items(list(refs), dtype="complex")
                    frame.locals["ef"] = Arr.from_items([ef_in.get(j, zero) for j in range(N)], dtype="complex")
                    frame.locals["eb"] = Arr.from_items([eb_in.get(j, zero) for j in range(N)], dtype="complex")
                    frame.locals["temp"] = dom.sym("t")
                    frame.locals["den"] = dom.sym("dd")
                    frame.locals["rho"] = rho_in
                if k == k0:
                    dom.abstract_div = absdiv
            return None
        I.loop_hook = hook
        v = E.run(I, lambda I_: I_.call_qual("spectrum.burg.arburg", Arr.from_items(x, dtype="complex" if cx else "float"), k0 + 2, "AIC"))
        dom.abstract_div = None
        if v is None:
            return
        if k0 == 0:
            E.ok("criterion-stop:order-0-model", len(v[0].to_list()) == 0 and len(v[2].to_list()) == 0)
            tot = 0
            for j in range(N):
                tot = tot + V.s_abs2(x[j])
            E.eq("criterion-stop:rho=mean|x|^2", v[1], V.s_div(tot, N))
        else:
            E.eq("criterion-stop:a=loop-head-model", v[0], a)
            E.eq("criterion-stop:rho=loop-head-variance", v[1], rho_in)
            E.eq("criterion-stop:reflection=loop-head", v[2], refs)
    return Task("criterion.%s.N%d.stop%d" % ("complex" if cx else "real", N, k0), run, kind="bounded", functions=["spectrum.burg.arburg"])


def arburg2_task(N, p, cx):
    """_arburg2 (the vectorised second implementation) against arburg on the same symbolic samples: same polynomial (with its
    leading 1), same final error, same reflection coefficients"""
    def run(tc):
        names = sum((["x%d_r" % j, "x%d_i" % j] if cx else ["x%d" % j] for j in range(N)), [])
        dom, I = e3_interp(tc, names)
        E = E3(tc, dom, "arburg2", {"N": N, "p": p, "complex": cx}, tc.seed)
        x = [dom.csym("x%d" % j) if cx else dom.sym("x%d" % j) for j in range(N)]
        dt = "complex" if cx else "float"
        ref = E.run(I, lambda I_: I_.call_qual("spectrum.burg.arburg", Arr.from_items(list(x), dtype=dt), p))
        if ref is None:
            return
        alt = E.run(I, lambda I_: I_.call_qual("spectrum.burg._arburg2", Arr.from_items(list(x), dtype=dt), p))
        if alt is None:
            return
        a2 = alt[0].to_list()
        E.ok("_arburg2:polynomial-length=p+1", len(a2) == p + 1, "length %d" % len(a2))
        if len(a2) != p + 1:
            return
        one = Cx(Fraction(1), Fraction(0))
        E.eq("_arburg2:polynomial=[1, arburg coefficients]", [V.Cx.of(v) for v in a2], [one] + [V.Cx.of(v) for v in ref[0].to_list()])
        E.eq("_arburg2:final-error=arburg variance", alt[1], ref[1])
        E.eq("_arburg2:reflection=arburg reflection", [V.Cx.of(v) for v in alt[2].to_list()], [V.Cx.of(v) for v in ref[2].to_list()])
    return Task("arburg2.%s.N%d.p%d" % ("complex" if cx else "real", N, p), run, kind="bounded", prerun=True, timeout=150,
                functions=["spectrum.burg._arburg2"])


def tasks(tier):
    ts = [frame_task()]
    # whole runs: complex data beyond (4, 1) and real data beyond order 2 give no result within 120 s (the reason arburg itself is verified stage-wise)
    for (N, p, cx) in ([(4, 1, False), (5, 1, False), (3, 2, False), (4, 1, True)] if tier == "quick" else
                       [(4, 1, False), (5, 1, False), (6, 1, False), (3, 2, False), (4, 2, False), (4, 1, True)]):
        ts.append(arburg2_task(N, p, cx))
    Ns, ks = ((5, 7), (0, 1, 2, 3)) if tier == "quick" else ((5, 7, 10), (0, 1, 2, 3, 4, 5))
    for cx in (False, True):
        for N in Ns:
            for k in ks:
                if k + 2 <= N - 1:
                    ts.append(stage_task(N, k, cx))
        for q in (0, 1, 2):
            ts.append(criterion_task(6, q, cx))
    return ts
