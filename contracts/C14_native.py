"""native oracles for C14 replays: the statement's clauses checked on the real functions with numpy"""
import numpy as np
from .native_common import Skip, close
from .C13_native import _x
from .native_funcs import NATIVE as _N, SEARCH as _S


def _matrix(x, p, method):
    N = len(x)
    rows = [[x[n - j] for j in range(p + 1)] for n in range(p, N)]
    if method == "modified":
        rows += [[np.conj(x[n + j]) for j in range(p + 1)] for n in range(0, N - p)]
    return np.array(rows)


def _sizes(inp):
    N, p = int(inp.get("N", 16)), int(inp.get("p", inp.get("order", 3)))
    out = [(N, p, 1)] if N - p >= p and p >= 1 else []
    return out + [(24, 4, 2), (9, 2, 3), (7, 1, 4)]


def lsq(inp):
    import spectrum
    method = inp.get("method", "covariance")
    cx = bool(inp.get("complex")) or inp.get("datatype") == "complex"
    f = spectrum.arcovar if method == "covariance" else spectrum.modcovar
    for (N, p, seed) in _sizes(inp):
        x = _x(N, cx, seed)
        a, e = f(x, p)
        X = _matrix(x, p, method)
        res = X[:, 0] + X[:, 1:] @ a
        h = X[:, 1:].conj().T @ res
        scale = float(np.sum(np.abs(X) ** 2))
        if np.max(np.abs(h)) > 1e-9 * scale:
            return False, "%s N=%d p=%d: residual not orthogonal to the regressors, max|X^H r| = %.3g" % (method, N, p, float(np.max(np.abs(h))))
        emin = float(np.sum(np.abs(res) ** 2))
        if abs(e - emin) > 1e-9 * scale:
            return False, "%s N=%d p=%d: returned error %r, minimum residual energy %r" % (method, N, p, e, emin)
        ref = np.linalg.lstsq(-X[:, 1:], X[:, 0], rcond=None)[0]
        if not close(a, ref, 1e-8):
            return False, "%s N=%d p=%d: coefficients differ from the least-squares solution" % (method, N, p)
    return True, "%s: normal equations hold and the returned error is the minimum" % method


def marple(inp):
    import spectrum
    method = inp.get("method", "covariance")
    cx = bool(inp.get("complex"))
    fast = spectrum.arcovar_marple if method == "covariance" else spectrum.modcovar_marple
    for (N, p, seed) in _sizes(inp):
        x = _x(N, cx, seed)
        out = fast(x, p)
        af, pf = np.asarray(out[0])[:p], out[1]
        X = _matrix(x, p, method)
        res = X[:, 0] + X[:, 1:] @ af
        h = X[:, 1:].conj().T @ res
        scale = float(np.sum(np.abs(X) ** 2))
        if np.max(np.abs(h)) > 1e-8 * scale:
            return False, "%s_marple N=%d p=%d: normal equations violated, max|X^H r| = %.3g" % (method, N, p, float(np.max(np.abs(h))))
        per = float(np.sum(np.abs(res) ** 2)) / X.shape[0]
        if abs(pf - per) > 1e-8 * scale:
            return False, "%s_marple N=%d p=%d: returned %r, minimum per sample %r" % (method, N, p, pf, per)
    return True, "%s_marple: same coefficients and minimum per sample" % method


def recovery(inp):
    """noiseless sum of p complex exponentials: the fitted polynomial has the p poles as its roots, the error is 0"""
    import spectrum
    method, fast = inp.get("method", "covariance"), bool(inp.get("fast"))
    name = ("arcovar" if method == "covariance" else "modcovar") + ("_marple" if fast else "")
    f = getattr(spectrum, name)
    rng = np.random.RandomState(4)
    for (p, N) in ((int(inp.get("p", 2)), max(int(inp.get("N", 8)), 2 * int(inp.get("p", 2)) + 1)), (1, 6), (2, 9), (3, 14), (4, 20)):
        w = np.sort(rng.uniform(-2.8, 2.8, p))
        if p > 1 and np.min(np.diff(w)) < 0.3:
            w = np.linspace(-2.0, 2.2, p)
        c = rng.randn(p) + 1j * rng.randn(p) + 0.5
        n = np.arange(N)
        x = sum(c[j] * np.exp(1j * w[j] * n) for j in range(p))
        out = f(x.copy(), p)
        a = np.asarray(out[0])[:p]
        e = out[1]
        poly = np.concatenate(([1.0], a))
        vals = np.array([np.polyval(poly, np.exp(1j * wj)) for wj in w])
        scale = 1.0 + float(np.sum(np.abs(a)))
        if np.max(np.abs(vals)) > 1e-6 * scale:
            return False, "%s(p=%d, N=%d): polynomial does not vanish at the poles, max|A(z_j)| = %.3g" % (name, p, N, float(np.max(np.abs(vals))))
        if abs(e) > 1e-8 * float(np.sum(np.abs(x) ** 2)):
            return False, "%s(p=%d, N=%d): returned error %r for noiseless data" % (name, p, N, e)
    return True, "%s recovers the frequencies of noiseless exponentials exactly" % name


NATIVE = dict(_N)
NATIVE.update({"lsq": lsq, "marple": marple, "recovery": recovery})
SEARCH = dict(_S)
SEARCH.update({k: (lambda rng, h: dict(h)) for k in ("lsq", "marple", "recovery")})
