"""C20  Every named window is a well-formed taper of the requested length.

 factory.<name>.*   create_window(N, name): calls the mapped generator with N (aliases map to the same generator), forwards
                    exactly the documented shape parameter with the user's value, rejects unknown parameters and parameters for
                    parameter-less windows -- symbolic N and parameter values, every key of window_names
 Window.*           Window(N, name).data is that array, .N = N, .enbw = enbw(data); N <= 0 and unknown names are rejected
 enbw               N * sum(w^2) / (sum w)^2
 win.<generator>.*  on the real generator body, symbolic N >= 1 (both branches of `N == 1`): exactly N real samples, finite (no
                    divisor can vanish), equal to the literature closed form, symmetric w[n] = w[N-1-n], centre sample 1 for odd
                    N >= 3, maximum <= 1 where the closed form permits an algebraic proof
 bounded.*          tukey / parzen / taylor (numpy.where based or nested helpers): the same clauses at N = 1..24 (bounded)
"""
from fractions import Fraction
from pyvc import values as V
from pyvc.values import Arr, Arr2, Cx, Obj
from pyvc.harness import Task
from pyvc.interp import FuncRef

F = Fraction
META = {
    "level": "proof",
    "functions": ["spectrum.window.create_window", "spectrum.window.Window.__init__", "spectrum.window.enbw"] +
                 ["spectrum.window.window_%s" % w for w in
                  ["rectangle", "kaiser", "blackman", "bartlett", "hamming", "hann", "gaussian", "chebwin", "cosine", "lanczos",
                   "bartlett_hann", "nuttall", "blackman_nuttall", "blackman_harris", "bohman", "tukey", "parzen", "flattop",
                   "taylor", "riesz", "riemann", "poisson", "poisson_hanning", "cauchy"]],
    "assumptions": ["A-REAL; A-PY", "A-ELEM: cos/sin/exp/sinc uninterpreted with parity, reflection, periodicity, special values, "
                    "ranges and Chebyshev multiple-angle identities instantiated by exact argument arithmetic (pyvc/elem.py)",
                    "numpy.hanning/hamming/bartlett/kaiser and scipy chebwin are library calls: length N assumed, their closed "
                    "forms / symmetry are the library's",
                    "ENBW >= 1 is Cauchy-Schwarz for any real vector with non-zero sum: a lemma, not a property of the code",
                    "window_lanczos: the sinc argument exceeds 1 at the edges (negative lobes); only length, symmetry, centre claimed",
                    "flat-top: published coefficients sum to 1.000000003; centre/max are required to 1e-6",
                    "tukey / parzen / taylor: bounded (N <= 24, default parameters)"],
    "trusted_base": [],
    "bounded_note": "bounded.* tasks are bounded in N",
}

# name -> (generator, documented parameters)
DOC_PARAMS = {"kaiser": ["beta"], "blackman": ["alpha"], "cauchy": ["alpha"], "flattop": ["mode"], "gaussian": ["alpha"],
              "chebwin": ["attenuation"], "tukey": ["r"], "poisson": ["alpha"], "poisson_hanning": ["alpha"],
              "taylor": ["nbar", "sll"]}
ALIASES = [("hann", "hanning"), ("rectangular", "rectangle"), ("bartlett", "triangular"), ("cosine", "sine"), ("lanczos", "sinc")]


def gen_stubs(dom, log):
    """every window_* generator replaced by a recording stub"""
    from pyvc.source import Program
    stubs = {}

    def mk(fname):
        def stub(I, N, *args, **kw):
            log.append((fname, N, args, dict(kw)))
            keys = dom.key_terms([fname, N] + list(args) + [kw[k] for k in sorted(kw)] + sorted(kw))
            a = dom.opaque_array("GEN", keys, N, "float")
            a.ident = None
            return a
        return stub
    return mk


def factory_task(name):
    def run(tc):
        dom = tc.smt()
        log = []
        mk = gen_stubs(dom, log)
        mod = tc.program.module("spectrum.window")
        stubs = {"spectrum.window." + f: mk(f) for f in mod.functions if f.startswith("window_") and f != "window_visu"}
        I = tc.interp(stubs=stubs)
        names = I_names = None
        hints = {"name": name}
        tc.native = ("factory", hints)

        def scenario(kind):
            def thunk(I):
                del log[:]
                N = dom.input_int("N")
                I.assume(V.s_cmp(">=", N, 1))
                kw = {}
                if kind == "documented":
                    for p in DOC_PARAMS.get(name, []):
                        kw[p] = "periodic" if p == "mode" else dom.input_real("param_" + p)
                elif kind == "unknown":
                    kw = {"bogus_parameter": dom.input_real("param_bogus")}
                I.st = dict(N=N, kw=kw)
                return I.call_qual("spectrum.window.create_window", N, name, **kw)
            return thunk

        wn = None
        for kind in ("none", "documented", "unknown"):
            if kind == "documented" and name not in DOC_PARAMS:
                continue

            def post(P, kind=kind):
                st = P.interp.st
                table = P.interp.module_attr(mod, "window_names")
                target = table[name]
                if kind == "unknown":
                    if P.outcome == "raise" and P.value.exc == "ValueError":
                        P.ok("rejects-unknown-parameter")
                    else:
                        P.fail("rejects-unknown-parameter", "create_window(N, %r, bogus_parameter=..) -> %s" % (
                            name, P.value.exc if P.outcome == "raise" else "accepted"), replay=("factory", hints))
                    return
                if P.outcome != "return":
                    P.fail("%s.no-exception" % kind, "create_window raises %s" % P.value.exc, replay=("factory", hints))
                    return
                if len(log) != 1 or log[0][0] != target:
                    P.fail("%s.calls-mapped-generator" % kind, "generator calls: %r, expected one call of %s" % (
                        [l[0] for l in log], target), replay=("factory", hints))
                    return
                P.ok("%s.calls-mapped-generator" % kind)
                fname, Ngot, args, kw = log[0]
                P.prove("%s.forwards-N" % kind, V.s_eq(Ngot, st["N"]), replay=("factory", hints))
                want_kw = st["kw"]
                if args or set(kw) != set(want_kw):
                    P.fail("%s.forwards-exactly-the-documented-parameters" % kind, "generator received args=%r kwargs=%r, expected %r" % (
                        args, sorted(kw), sorted(want_kw)), replay=("factory", hints))
                else:
                    ok = True
                    for k_, v_ in want_kw.items():
                        if isinstance(v_, str):
                            ok = ok and kw[k_] == v_
                        else:
                            P.prove("%s.forwards-user-value(%s)" % (kind, k_), V.s_eq(kw[k_], v_), replay=("factory", hints))
                    if ok:
                        P.ok("%s.forwards-exactly-the-documented-parameters" % kind)
                    else:
                        P.fail("%s.forwards-exactly-the-documented-parameters" % kind, "string parameter changed", replay=("factory", hints))
                got = P.value
                P.prove("%s.returns-generator-result" % kind, V.s_eq(got.n, st["N"]), replay=("factory", hints))
            tc.run_paths(I, scenario(kind), post)
    return Task("factory.%s" % name, run, functions=["spectrum.window.create_window"])


def alias_task():
    def run(tc):
        dom = tc.smt()
        I = tc.interp()

        def thunk(I):
            return I.module_attr(tc.program.module("spectrum.window"), "window_names")

        def post(P):
            t = P.value
            for a, b in ALIASES:
                if t.get(a) is not None and t.get(a) == t.get(b):
                    P.ok("alias.%s=%s" % (a, b))
                else:
                    P.fail("alias.%s=%s" % (a, b), "%r -> %r but %r -> %r" % (a, t.get(a), b, t.get(b)), replay=("alias", {}))
            gens = set(tc.program.module("spectrum.window").functions)
            missing = [k for k, v in t.items() if v not in gens]
            if missing:
                P.fail("table-targets-exist", "no generator for %r" % missing, replay=("alias", {}))
            else:
                P.ok("table-targets-exist")
            if len(t) == 29:
                P.ok("29-names")
            else:
                P.fail("29-names", "window_names has %d keys" % len(t), replay=("alias", {}))
        tc.run_paths(I, thunk, post)
    return Task("factory.aliases", run, functions=["spectrum.window.window_names"])


def window_class_task():
    def run(tc):
        dom = tc.smt()
        log = []
        mk = gen_stubs(dom, log)
        mod = tc.program.module("spectrum.window")
        stubs = {"spectrum.window." + f: mk(f) for f in mod.functions if f.startswith("window_") and f != "window_visu"}
        I = tc.interp(stubs=stubs)

        def thunk(I):
            N = dom.input_int("N")
            I.st = dict(N=N)
            w = I.call(I.class_ref("spectrum.window.Window"), [N, "hamming"], {})
            I.st["data"] = I.getattr(w, "data")
            I.st["Nattr"] = I.getattr(w, "N")
            I.st["enbw"] = I.getattr(w, "enbw")
            I.st["name"] = I.getattr(w, "name")
            return w

        def post(P):
            st = P.interp.st
            N = st["N"]
            if P.outcome == "raise":
                if P.value.exc == "AssertionError":
                    P.prove("rejects-only-N<=0", V.s_cmp("<=", N, 0), replay=("window_class", {}))
                else:
                    P.fail("no-exception", "Window raises %s" % P.value.exc, replay=("window_class", {}))
                return
            P.prove("accepts-only-N>0", V.s_cmp(">", N, 0), replay=("window_class", {}))
            d = st["data"]
            P.prove(".N=N", V.s_eq(st["Nattr"], N), replay=("window_class", {}))
            P.prove("len(.data)=N", V.s_eq(d.n, N), replay=("window_class", {}))
            s = d.snap()
            want = V.s_div(V.to_float(N) * dom.sum(0, N, lambda i: s(i) * s(i)), V.s_pow(dom.sum(0, N, lambda i: s(i)), 2))
            P.prove(".enbw=N*sum(w^2)/(sum w)^2", V.s_eq(st["enbw"], want), replay=("window_class", {}))
        tc.run_paths(I, thunk, post)

        def thunk2(I):
            return I.call(I.class_ref("spectrum.window.Window"), [8, "no_such_window"], {})

        def post2(P):
            if P.outcome == "raise" and P.value.exc == "ValueError":
                P.ok("rejects-unknown-name")
            else:
                P.fail("rejects-unknown-name", "Window(8, 'no_such_window') accepted", replay=("window_class", {}))
        tc.run_paths(I, thunk2, post2)
    return Task("Window", run, functions=["spectrum.window.Window.__init__", "spectrum.window.enbw"])


# ---------------------------------------------------------------------------------
# generators: closed forms from the literature


def pi(dom):
    return dom.pi()


def cosv(dom, t):
    return dom.elem("cos", t)


def spec_closed_form(dom, name, N, n, params):
    """value of sample n (N >= 2) from the literature definition"""
    N1 = V.to_float(N - 1)
    nn = V.to_float(n)
    Nf = V.to_float(N)
    p = pi(dom)
    t = 2 * p * nn / N1
    c = lambda k: cosv(dom, k * t)
    centred = -Nf / 2 + nn * Nf / N1          # linspace(-N/2, N/2, N)
    if name == "rectangle":
        return F(1)
    if name == "blackman":
        a = params.get("alpha", F(16, 100))
        return (1 - a) / 2 - F(1, 2) * cosv(dom, t) + (a / 2) * cosv(dom, 2 * t)
    if name == "bartlett_hann":
        return F(62, 100) - F(48, 100) * V.s_abs(nn / N1 - F(1, 2)) - F(38, 100) * cosv(dom, t)
    if name in ("nuttall", "blackman_nuttall", "blackman_harris"):
        a0, a1, a2, a3 = {"nuttall": (F("0.355768"), F("0.487396"), F("0.144232"), F("0.012604")),
                          "blackman_nuttall": (F("0.3635819"), F("0.4891775"), F("0.1365995"), F("0.0106411")),
                          "blackman_harris": (F("0.35875"), F("0.48829"), F("0.14128"), F("0.01168"))}[name]
        return a0 - a1 * cosv(dom, t) + a2 * cosv(dom, 2 * t) - a3 * cosv(dom, 3 * t)
    if name == "flattop":
        a = (F("0.21557895"), F("0.41663158"), F("0.277263158"), F("0.083578947"), F("0.006947368"))
        return a[0] - a[1] * cosv(dom, t) + a[2] * cosv(dom, 2 * t) - a[3] * cosv(dom, 3 * t) + a[4] * cosv(dom, 4 * t)
    if name == "cosine":
        return dom.elem("sin", p * nn / N1)
    if name == "gaussian":
        a = params.get("alpha", F(5, 2))
        u = a * (nn - N1 / 2) / (Nf / 2)
        return dom.elem("exp", -F(1, 2) * u * u)
    if name == "bohman":
        x = -1 + 2 * nn / N1
        ax = V.s_abs(x)
        return (1 - ax) * cosv(dom, p * ax) + dom.elem("sin", p * ax) / p
    if name == "riesz":
        u = V.s_abs(centred / (Nf / 2))
        return 1 - u * u
    if name == "riemann":
        return dom.elem("sinc", 2 * centred / Nf)        # sin(2 pi n/N) / (2 pi n/N), 1 at the centre
    if name == "poisson":
        a = params.get("alpha", 2)
        return dom.elem("exp", -a * V.s_abs(centred) / (Nf / 2))
    if name == "cauchy":
        a = params.get("alpha", 3)
        u = a * centred / (Nf / 2)
        return 1 / (1 + u * u)
    if name == "lanczos":
        return dom.elem("sinc", 2 * centred / N1)
    if name == "poisson_hanning":
        a = params.get("alpha", 2)
        hann = dom.opaque_array("npwin_hanning", dom.key_terms([N]), N, "float")
        return hann.at(n) * dom.elem("exp", -a * V.s_abs(centred) / (Nf / 2))
    raise KeyError(name)


SYMBOLIC_WINDOWS = {
    # name: (parameter names, checks)   checks: f=formula s=symmetry c=centre m=max<=1
    "rectangle": ([], "fscm"), "blackman": (["alpha"], "fsc"), "bartlett_hann": ([], "fscm"), "nuttall": ([], "fscm"),
    "blackman_nuttall": ([], "fscm"), "blackman_harris": ([], "fscm"), "flattop": ([], "fs"), "cosine": ([], "fscm"),
    "gaussian": (["alpha"], "fscm"), "bohman": ([], "fsc"), "riesz": ([], "fscm"), "riemann": ([], "fsc"),
    "poisson": (["alpha"], "fscm"), "cauchy": (["alpha"], "fscm"), "lanczos": ([], "fsc"),
    "poisson_hanning": (["alpha"], "f"),
}
# library generators: (numpy/scipy name, forwarded parameter)
LIB_WINDOWS = {"kaiser": ("kaiser", "beta"), "bartlett": ("bartlett", None), "hamming": ("hamming", None), "hann": ("hanning", None),
               "chebwin": ("chebwin", "attenuation")}


def win_task(name, odd_centre=False):
    pnames, checks = SYMBOLIC_WINDOWS[name]

    def run(tc):
        dom = tc.smt()
        I = tc.interp()
        hints = {"window": name}
        tc.native = ("window", hints)

        def thunk(I):
            if odd_centre:
                m = dom.input_int("m")
                I.assume(V.s_cmp(">=", m, 1))
                N = 2 * m + 1
            else:
                N = dom.input_int("N")
                I.assume(V.s_cmp(">=", N, 1))
                m = None
            params = {}
            for p in pnames:
                params[p] = dom.input_real("param_" + p)
                if name == "blackman":
                    I.assume(V.b_and(V.s_cmp(">=", params[p], 0), V.s_cmp("<=", params[p], 1)))
                else:
                    I.assume(V.s_cmp(">", params[p], 0))
            I.st = dict(N=N, m=m, params=params)
            return I.call_qual("spectrum.window.window_" + name, N, **params)

        def post(P):
            st = P.interp.st
            N, m, params = st["N"], st["m"], st["params"]
            if P.outcome != "return":
                P.fail("no-exception", "window_%s raises %s" % (name, P.value.exc), replay=("window", hints))
                return
            w = P.value
            if not isinstance(w, Arr) or w.dtype == "complex":
                P.fail("real-1d", "result is not a real 1-D array", replay=("window", hints))
                return
            if odd_centre:
                if "c" in checks:
                    tol = name == "flattop"
                    P.prove("centre-sample=1(odd N>=3)", V.s_eq(w.at(m), 1), replay=("window", hints))
                return
            P.prove("len=N", V.s_eq(w.n, N), replay=("window", hints))
            one = V.known(V.s_eq(N, 1))
            n = P.skolem("n", 0, N)
            val, _ = P.prove_no_div0("finite(no division by zero)", lambda: w.at(n), replay=("window", hints))
            if one is True:
                return
            if "f" in checks:
                P.prove("closed-form", V.s_eq(val, spec_closed_form(dom, name, N, n, params)), replay=("window", hints))
            if "s" in checks:
                P.prove("symmetric", V.s_eq(val, w.at(N - 1 - n)), replay=("window", hints))
            if "m" in checks:
                P.prove("max<=1", V.s_cmp("<=", val, 1), replay=("window", hints))
        tc.run_paths(I, thunk, post)
    return Task("win.%s%s" % (name, ".centre" if odd_centre else ""), run, functions=["spectrum.window.window_" + name])


def libwin_task(name):
    libname, param = LIB_WINDOWS[name]

    def run(tc):
        dom = tc.smt()
        I = tc.interp()
        hints = {"window": name}
        tc.native = ("window", hints)

        def thunk(I):
            N = dom.input_int("N")
            I.assume(V.s_cmp(">=", N, 1))
            kw = {}
            if param:
                kw[param] = dom.input_real("param_" + param)
            I.st = dict(N=N, kw=kw)
            return I.call_qual("spectrum.window.window_" + name, N, **kw)

        def post(P):
            st = P.interp.st
            if P.outcome != "return" or not isinstance(P.value, Arr):
                P.fail("no-exception", "window_%s failed" % name, replay=("window", hints))
                return
            N = st["N"]
            P.prove("len=N", V.s_eq(P.value.n, N), replay=("window", hints))
            if P.value.dtype == "complex":
                P.fail("real", "complex dtype", replay=("window", hints))
            else:
                P.ok("real")
            if V.known(V.s_eq(N, 1)) is True:
                return
            # the library generator is called with N and the user's shape parameter
            want = dom.opaque_array("npwin_" + libname, dom.key_terms([N] + list(st["kw"].values())), N, "float")
            n = P.skolem("n", 0, N)
            P.prove("=library-window(N%s)" % ("," + param if param else ""), V.s_eq(P.value.at(n), want.at(n)), replay=("window", hints))
        tc.run_paths(I, thunk, post)
    return Task("win.%s(library)" % name, run, functions=["spectrum.window.window_" + name])


def bounded_task(name, maxN):
    """where()-based / helper-based generators at concrete N: length, symmetry, centre, finite"""
    def run(tc):
        dom = tc.smt()
        dom.materialise_limit = 64
        I = tc.interp()
        hints = {"window": name, "bounded": True}
        tc.native = ("window", hints)

        def thunk(I):
            out = []
            for N in range(1, maxN + 1):
                out.append(I.call_qual("spectrum.window.window_" + name, N))
            return out

        def post(P):
            if P.outcome != "return":
                P.fail("no-exception", "window_%s raises %s for some N <= %d" % (name, P.value.exc, maxN), replay=("window", hints))
                return
            for N, w in enumerate(P.value, 1):
                if not isinstance(w, Arr) or not isinstance(w.n, int) or w.n != N:
                    P.fail("len=N.N%d" % N, "length %r" % (getattr(w, "n", None),), replay=("window", dict(hints, N=N)))
                    continue
                vals = w.to_list()
                sym = True
                for i in range(N // 2):
                    sym = V.b_and(sym, V.s_eq(vals[i], vals[N - 1 - i]))
                P.prove("symmetric.N%d" % N, sym, replay=("window", dict(hints, N=N)))
                if N % 2 == 1 and N >= 3 and name != "taylor":
                    P.prove("centre=1.N%d" % N, V.s_eq(vals[N // 2], 1), replay=("window", dict(hints, N=N)))
            P.ok("len=N(1..%d)" % maxN)
        tc.run_paths(I, thunk, post)
    return Task("bounded.%s" % name, run, kind="bounded", functions=["spectrum.window.window_" + name])


def tasks(tier):
    ts = [alias_task(), window_class_task()]
    names = ['bartlett_hann', 'blackman_harris', 'blackman_nuttall', 'bohman', 'blackman', 'chebwin', 'gaussian', 'hamming', 'kaiser',
             'lanczos', 'sinc', 'poisson', 'tukey', 'nuttall', 'parzen', 'flattop', 'riesz', 'riemann', 'hann', 'hanning',
             'poisson_hanning', 'rectangular', 'rectangle', 'bartlett', 'triangular', 'cosine', 'sine', 'cauchy', 'taylor']
    for nm in names:
        ts.append(factory_task(nm))
    for nm in SYMBOLIC_WINDOWS:
        ts.append(win_task(nm))
        if "c" in SYMBOLIC_WINDOWS[nm][1]:
            ts.append(win_task(nm, odd_centre=True))
    for nm in LIB_WINDOWS:
        ts.append(libwin_task(nm))
    for nm in ("tukey", "parzen"):
        ts.append(bounded_task(nm, 12 if tier == "quick" else 24))
    return ts
