"""C12  Yule-Walker models match the data autocorrelation.

 compose.*        (E1, all values) aryule(X, order, norm, allow_singularity) is exactly LEVINSON(CORRELATION(X, maxlags=order, norm),
                  allow_singularity=...) and returns its triple unchanged; with the callee contracts (C09: biased sample autocorrelation,
                  C10: T(r)[1,a]^T = [P,0..0]^T) the result satisfies the Yule-Walker normal equations of the sample autocorrelation --
                  which is 'the first p+1 lags implied by the model equal the sample autocorrelation'
 normal-eq.*      (E3, bounded) the same statement on the REAL bodies end to end: T(r^)[1,a]^T = [P,0..0]^T with r^ the biased
                  autocorrelation written out from the data, symbolic data, N <= 5, p <= 2
 gram.*           (E3, bounded) C^H C = N * Toeplitz(r^) for the 'autocorrelation' data matrix (real corrmtx and CORRELATION):
                  least squares on that matrix has the same normal equations, hence the same coefficients
 place.pyule.*    the class exposes ar / reflection and builds the PSD with rho = P
 lpc, root locations, |k_i| < 1, P > 0: level_note.
"""
from fractions import Fraction
from pyvc import values as V
from pyvc.values import Arr, Arr2, Cx
from pyvc.harness import Task
from . import classes, e3
from .e3 import E3, e3_interp
from .C10 import toeplitz_apply

F = Fraction
META = {
    "level": "other",
    "functions": ["spectrum.lpc.lpc", "spectrum.tools.nextpow2", "spectrum.yulewalker.pyule.__init__", "spectrum.yulewalker.aryule", "spectrum.yulewalker.pyule.__call__", "spectrum.correlation.CORRELATION",
                  "spectrum.levinson.LEVINSON", "spectrum.linalg.corrmtx"],
    "assumptions": ["A-REAL", "stable.real.N*.p1: bounded (N = 3..6, order 1, real data), all data values; z3 nlsat trusted",
                    "normal-eq / gram: bounded in size (N <= 5, p <= 2 quick; N <= 6, p <= 3 thorough), all values",
                    "reflection coefficients of modulus < 1 and P > 0 for non-zero data: r^ is positive definite by the Gram identity "
                    "(a Gram matrix of full column rank) + the sign facts of C10: textbook step, not re-proved",
                    "roots strictly inside the unit circle: Schur-Cohn, not claimed",
                    "lpc(): its FFT-based autocorrelation equals (m/(m-1)) r^ by the Wiener-Khinchin identity (DFT algebra over the "
                    "specification), after which it calls the same LEVINSON; not decided by this check"],
    "trusted_base": ["sympy.polys"],
    "explanation": "aryule's composition is proved for all inputs by the SMT engine (modular: callee contracts from C09/C10); the normal "
                   "equations end-to-end and the Gram identity are decided by exact algebra on the real bodies at bounded sizes.",
    "bounded_note": "N <= 5, p <= 2 quick",
}


def compose_task(datatype):
    def run(tc):
        dom = tc.smt()
        seen = {}

        def CORRELATION(I, x, y=None, maxlags=None, norm="unbiased"):
            seen["corr"] = (x, y, maxlags, norm)
            keys = dom.key_terms([x, maxlags, norm])
            return dom.opaque_array("RHAT", keys, maxlags + 1, "complex" if x.dtype == "complex" else "float")

        def LEVINSON(I, r, order=None, allow_singularity=False):
            seen["lev"] = (r, order, allow_singularity)
            keys = dom.key_terms([r, allow_singularity])
            n = r.n - 1
            return (dom.opaque_array("LEV_A", keys, n, r.dtype), dom.opaque_real("LEV_P", keys), dom.opaque_array("LEV_K", keys, n, r.dtype))
        I = tc.interp(stubs={"spectrum.correlation.CORRELATION": CORRELATION, "spectrum.levinson.LEVINSON": LEVINSON})
        hints = {"datatype": datatype}
        tc.native = ("aryule", hints)

        def thunk(I):
            seen.clear()
            N = dom.input_int("N")
            p = dom.input_int("order")
            I.assume(V.s_cmp(">=", p, 1))
            I.assume(V.s_cmp("<", p, N))
            x = dom.input_array("x", N, "complex" if datatype == "complex" else "float")
            allow, dc = dom.enum("allow", [True, False])
            I.pc.append(dc)
            I.st = dict(x=x, p=p, allow=allow)
            return I.call_qual("spectrum.yulewalker.aryule", x, p, "biased", allow)

        def post(P):
            st = P.interp.st
            if P.outcome != "return":
                P.fail("no-exception", "aryule raises %s" % P.value.exc, replay=("aryule", hints))
                return
            if "corr" not in seen or "lev" not in seen:
                # the code reaches its autocorrelation / recursion by another route: the modular composition over the contracts of
                # CORRELATION (C09) and LEVINSON (C10) does not apply.  That is undecided, not a violation -- the statement itself
                # is decided end to end on the real bodies by normal-eq.* and gram.* (and natively by the fallback below)
                r_ = P.tc.add_result("composition-route", "unsupported",
                                     detail="aryule does not call %s: composition over callee contracts not applicable" %
                                            ("CORRELATION" if "corr" not in seen else "LEVINSON"))
                r_.clause, r_.replay = "composition-route", ("aryule", hints)
                return
            x, y, maxlags, norm = seen["corr"]
            P.prove("CORRELATION(X, maxlags=order)", V.b_and(V.s_eq(maxlags, st["p"]), V.s_eq(x.ident, st["x"].ident)), replay=("aryule", hints))
            if norm == "biased" and y is None:
                P.ok("CORRELATION(norm forwarded, autocorrelation)")
            else:
                P.fail("CORRELATION(norm forwarded, autocorrelation)", "norm=%r y=%r" % (norm, y), replay=("aryule", hints))
            r, order, allow = seen["lev"]
            want_r = CORRELATION(P.interp, st["x"], None, st["p"], "biased")
            P.prove_arr_eq("LEVINSON(r = the sample autocorrelation)", r, want_r, replay=("aryule", hints))
            if order is None and allow is st["allow"]:
                P.ok("LEVINSON(allow_singularity forwarded, full order)")
            else:
                P.fail("LEVINSON(allow_singularity forwarded, full order)", "order=%r" % (order,), replay=("aryule", hints))
            A, Pv, k = P.value
            wa, wp, wk = LEVINSON(P.interp, want_r, None, st["allow"])
            P.prove_arr_eq("returns-LEVINSON-A", A, wa, replay=("aryule", hints))
            P.prove("returns-LEVINSON-P", V.s_eq(Pv, wp), replay=("aryule", hints))
            P.prove_arr_eq("returns-LEVINSON-k", k, wk, replay=("aryule", hints))
        tc.run_paths(I, thunk, post)
    return Task("compose.aryule.%s" % datatype, run, functions=["spectrum.yulewalker.aryule"])


def biased_acf(x, p):
    N = len(x)
    r = []
    for k in range(p + 1):
        s = 0
        for n in range(N - k):
            s = s + x[n + k] * V.s_conj(x[n])
        r.append(V.Cx.of(s) / N if isinstance(s, Cx) else V.s_div(s, N))
    return r


def normal_eq_task(N, p, cx):
    def run(tc):
        names = sum((["x%d_r" % j, "x%d_i" % j] if cx else ["x%d" % j] for j in range(N)), [])
        dom, I = e3_interp(tc, names)
        E = E3(tc, dom, "aryule", {"N": N, "p": p, "complex": cx}, tc.seed)
        x = [dom.csym("x%d" % j) if cx else dom.sym("x%d" % j) for j in range(N)]
        v = E.run(I, lambda I_: I_.call_qual("spectrum.yulewalker.aryule", Arr.from_items(x, dtype="complex" if cx else "float"), p))
        if v is None:
            return
        A, Pv, k = v
        r = biased_acf(x, p)
        E.eq("T(r^)[1,a]=[P,0..0] (model autocorrelation = sample autocorrelation on lags 0..p)",
             toeplitz_apply(r, [1] + A.to_list()), [Pv] + [0] * p)
    return Task("normal-eq.%s.N%d.p%d" % ("complex" if cx else "real", N, p), run, kind="bounded", prerun=True, timeout=600,
                functions=["spectrum.yulewalker.aryule"])


def gram_task(N, m, cx):
    def run(tc):
        names = sum((["x%d_r" % j, "x%d_i" % j] if cx else ["x%d" % j] for j in range(N)), [])
        dom, I = e3_interp(tc, names)
        E = E3(tc, dom, "gram", {"N": N, "m": m, "complex": cx}, tc.seed)
        x = [dom.csym("x%d" % j) if cx else dom.sym("x%d" % j) for j in range(N)]
        mk = lambda: Arr.from_items(list(x), dtype="complex" if cx else "float")
        C = E.run(I, lambda I_: I_.call_qual("spectrum.linalg.corrmtx", mk(), m, "autocorrelation"))
        r = E.run(I, lambda I_: I_.call_qual("spectrum.correlation.CORRELATION", mk(), None, m, "biased"))
        if C is None or r is None:
            return
        rl = r.to_list()
        G = []
        W = []
        for i in range(m + 1):
            for j in range(m + 1):
                g = 0
                for row in range(C.r):
                    g = g + V.s_conj(C.at(row, i)) * C.at(row, j)
                G.append(g)
                # (C^H C)[i,j] = sum_n conj(x[n-i]) x[n-j] = N * r^[i-j]  (r^[-k] = conj r^[k])
                t = rl[i - j] if i >= j else V.s_conj(rl[j - i])
                W.append(t * N)
        E.eq("C^H C = N*Toeplitz(r_biased)", G, W)
    return Task("gram.%s.N%d.m%d" % ("complex" if cx else "real", N, m), run, kind="bounded", prerun=True, functions=["spectrum.linalg.corrmtx", "spectrum.correlation.CORRELATION"])


def lpc_task(m, N):
    """real data: lpc(x, N) returns the Yule-Walker coefficients -- two runs of the real code on the same symbolic samples,
    lpc's FFT route (|FFT|^2 -> inverse FFT) evaluated with an exact 4- / 8-point transform"""
    def run(tc):
        names = ["x%d" % j for j in range(m)] + ["sqrt2"]
        dom, I = e3_interp(tc, names)
        E = E3(tc, dom, "lpc", {"N": m, "p": N}, tc.seed)
        x = [dom.sym("x%d" % j) for j in range(m)]
        yw = E.run(I, lambda I_: I_.call_qual("spectrum.yulewalker.aryule", Arr.from_items(list(x), dtype="float"), N, "biased"))
        if yw is None:
            return
        lp = E.run(I, lambda I_: I_.call_qual("spectrum.lpc.lpc", Arr.from_items(list(x), dtype="float"), N))
        if lp is None:
            return
        a = lp[0].to_list() if isinstance(lp[0], Arr) else list(lp[0])
        E.eq("lpc-coefficients=Yule-Walker-coefficients", [V.Cx.of(v) for v in a], [V.Cx.of(v) for v in yw[0].to_list()])
        # lpc normalises its autocorrelation by m-1 instead of m: the error scales accordingly (not part of the statement; recorded)
        E.eq("lpc-error=m*P over (m-1)", lp[1], yw[1] * Fraction(m, m - 1))
    return Task("lpc.real.N%d.p%d" % (m, N), run, kind="bounded", prerun=True, timeout=120, functions=["spectrum.lpc.lpc", "spectrum.tools.nextpow2"])


def ls_task(N, p, cx):
    """the statement's least-squares clause, directly: with C = corrmtx(x, p, 'autocorrelation') built by the real code, the exact
    least-squares solution of C[:, 1:] a = -C[:, 0] (normal equations, A-LSQ) equals the coefficients the real aryule returns"""
    def run(tc):
        names = sum((["x%d_r" % j, "x%d_i" % j] if cx else ["x%d" % j] for j in range(N)), [])
        dom, I = e3_interp(tc, names)
        E = E3(tc, dom, "ls_autocorr", {"N": N, "p": p, "complex": cx}, tc.seed)
        x = [dom.csym("x%d" % j) if cx else dom.sym("x%d" % j) for j in range(N)]
        mk = lambda: Arr.from_items(list(x), dtype="complex" if cx else "float")
        yw = E.run(I, lambda I_: I_.call_qual("spectrum.yulewalker.aryule", mk(), p, "biased"))
        if yw is None:
            return
        C = E.run(I, lambda I_: I_.call_qual("spectrum.linalg.corrmtx", mk(), p, "autocorrelation"))
        if C is None:
            return
        rows = int(C.r)
        E.ok("corrmtx:(N+p) x (p+1)", rows == N + p and int(C.c) == p + 1, "%d x %d" % (rows, int(C.c)))
        A = [[V.Cx.of(C.at(i, j + 1)) for j in range(p)] for i in range(rows)]
        b = [-V.Cx.of(C.at(i, 0)) for i in range(rows)]
        zero = Cx(Fraction(0), Fraction(0))
        G = [[sum((V.s_conj(A[r][i]) * A[r][j] for r in range(rows)), zero) for j in range(p)] for i in range(p)]
        h = [sum((V.s_conj(A[r][i]) * b[r] for r in range(rows)), zero) for i in range(p)]
        # exact elimination (generic path: the Gram matrix is non-singular)
        for c in range(p):
            for r in range(c + 1, p):
                f = G[r][c] / G[c][c]
                G[r] = [G[r][k] - f * G[c][k] for k in range(p)]
                h[r] = h[r] - f * h[c]
        sol = [None] * p
        for c in reversed(range(p)):
            acc = h[c]
            for k in range(c + 1, p):
                acc = acc - G[c][k] * sol[k]
            sol[c] = acc / G[c][c]
        E.eq("least-squares-on-autocorrelation-matrix=Yule-Walker-coefficients", sol, [V.Cx.of(v) for v in yw[0].to_list()])
    return Task("ls-autocorrelation.%s.N%d.p%d" % ("complex" if cx else "real", N, p), run, kind="bounded", prerun=True, timeout=150,
                functions=["spectrum.linalg.corrmtx", "spectrum.yulewalker.aryule"])


def norm_task():
    """the statement is about the BIASED autocorrelation: a pyule object built without an explicit norm uses it, and whatever
    norm the object holds is the one its __call__ hands to aryule (recording stub; exact domain, tiny concrete sizes)"""
    def run(tc):
        names = ["x%d" % j for j in range(5)] + ["a0", "a1", "P", "k0", "k1", "pi"]
        seen = []

        def aryule_stub(I_, X, order, norm="biased", *rest, **kw):
            seen.append(norm)
            a = Arr.from_items([dom.sym("a0"), dom.sym("a1")], dtype="float")
            k = Arr.from_items([dom.sym("k0"), dom.sym("k1")], dtype="float")
            return (a, dom.sym("P"), k)
        dom, I = e3_interp(tc, names, stubs={"spectrum.yulewalker.aryule": aryule_stub})
        E = E3(tc, dom, "pyule_norm", {}, tc.seed)
        x = Arr.from_items([dom.sym("x%d" % j) for j in range(5)], dtype="float")
        for given in (None, "biased", "unbiased"):
            seen.clear()

            def thunk(I_, given=given):
                kw = {"NFFT": 4}
                if given is not None:
                    kw["norm"] = given
                o = I_.call(I_.class_ref("spectrum.yulewalker.pyule"), [x, 2], kw)
                I_.call(o, [], {})
                return o
            o = E.run(I, thunk)
            if o is None:
                return
            want = given or "biased"
            label = "default" if given is None else given
            E.ok("pyule(norm=%s):aryule-called-once" % label, len(seen) == 1, "%d calls" % len(seen))
            if seen:
                E.ok("pyule(norm=%s):aryule-receives-norm=%s" % (label, want), seen[0] == want, "aryule received norm=%r" % (seen[0],))
    return Task("ctor.pyule.norm", run, kind="bounded", functions=["spectrum.yulewalker.pyule.__init__", "spectrum.yulewalker.pyule.__call__"])


def stable_task(N, p, cx):
    """'a polynomial with all roots strictly inside the unit circle' for ANY non-zero data: the coefficients the real aryule returns
    on symbolic data x[0..N-1] (rational functions of the data, extracted from the exact run) are handed to z3, and
        x != 0,  z^p + a_1 z^(p-1) + ... + a_p = 0   =>   |z| < 1
    is discharged over the reals (all data values at this N and p; bounded in N and p)."""
    def run(tc):
        names = sum((["x%d_r" % j, "x%d_i" % j] if cx else ["x%d" % j] for j in range(N)), [])
        dom, I = e3_interp(tc, names)
        E = E3(tc, dom, "aryule", {"N": N, "p": p, "complex": cx, "mode": "stable"}, tc.seed)
        x = [dom.csym("x%d" % j) if cx else dom.sym("x%d" % j) for j in range(N)]
        v = E.run(I, lambda I_: I_.call_qual("spectrum.yulewalker.aryule", Arr.from_items(x, dtype="complex" if cx else "float"), p))
        if v is None or getattr(tc, "point_mode", False):
            return

        def hyps(zv):
            import z3
            return [z3.Or([zv[n] != 0 for n in names])]
        e3.nra_stable(tc, E, dom, v[0].to_list(), hyps, "stable:x!=0=>roots-of-[1,a]-inside-unit-circle")
    return Task("stable.%s.N%d.p%d" % ("complex" if cx else "real", N, p), run, kind="bounded", timeout=150, functions=["spectrum.yulewalker.aryule"])


# order 1, real data: decided in about a second for N = 3..6.  N >= 7 at order 1, real order 2 (N = 3) and complex order 1
# (N = 3) get no verdict from z3 within 60 s (non-linear arithmetic over 5-9 variables): not attempted, not claimed
STABLE_SIZES = {'quick': [(N, 1, False) for N in range(3, 7)],
                'thorough': [(N, 1, False) for N in range(3, 7)]}


def tasks(tier):
    ts = [norm_task()]
    for (N, p, cx) in STABLE_SIZES[tier if tier in STABLE_SIZES else 'thorough']:
        ts.append(stable_task(N, p, cx))
    # real (6, 3) and complex beyond (4, 1) give no result within 150 s: not attempted
    for (N, p, cx) in ([(4, 1, False), (4, 2, False), (4, 1, True)] if tier == "quick" else
                       [(4, 1, False), (4, 2, False), (5, 2, False), (4, 1, True)]):
        ts.append(ls_task(N, p, cx))
    for (m, N) in ([(3, 1), (3, 2), (4, 1), (4, 2)] if tier == "quick" else [(2, 1), (3, 1), (3, 2), (4, 1), (4, 2), (4, 3)]):
        ts.append(lpc_task(m, N))
    sizes = [(4, 1), (5, 2)] if tier == "quick" else [(4, 1), (5, 2), (6, 3)]
    for dt in ("real", "complex"):
        ts.append(compose_task(dt))
        ts.append(classes.place_task("pyule", dt))
    for cx in (False, True):
        for (N, p) in sizes:
            ts.append(gram_task(N, p, cx))
            if (cx and p > 1) or (N, p) == (6, 3):
                continue            # complex end-to-end expansion beyond order 1, and real N = 6, p = 3 (no result within 150 s), are out of reach of the exact engine
            ts.append(normal_eq_task(N, p, cx))
    return ts
