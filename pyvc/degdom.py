"""Engine E2: homogeneity (degree) types.

Multiplying the data by a non-zero scalar c multiplies a value of degree (a, b) by c^a * conj(c)^b
(|c|^s is (s/2, s/2)).  The real code is executed by the same interpreter with scalars replaced by
their degree; arithmetic type-checks:

  x + y, x - y, comparisons   need equal degrees (the literal 0 is polymorphic)
  x * y, x / y, x ** n         add / subtract / scale degrees;  conj swaps (a, b);  abs -> ((a+b)/2, (a+b)/2)
  .real / .imag, ordering      need a == b (scaling by a positive real); every branch condition must be
                               scale invariant -- that is the "decisions unchanged" clause
  log(|c|^s x)                 an additive offset s*log|c|: type Log(s); two Log types compare only with
                               equal offsets

Array shapes are concrete (the loop structure does not depend on the data), so one run covers
every data vector and every scalar c of that shape: results are proofs for all values at the stated
shapes ("bounded in shape").  A type error names the source line; it is replayed natively by
comparing f(c*x) with the declared power of c times f(x).
"""
from fractions import Fraction

from . import values as V
from .values import Cx, Arr, Arr2, Unsupported, EngineError


class TypeErr:
    def __init__(self, what, where):
        self.what = what
        self.where = where

    def __repr__(self):
        return "%s @ %s" % (self.what, self.where)


ANY = "any"       # the polymorphic zero


class Dg:
    """degree type of a (real or complex) scalar"""
    __slots__ = ("a", "b", "log", "cx", "phase", "zero", "part")

    def __init__(self, a=0, b=0, log=None, cx=False, phase=False, zero=False, part=None):
        self.part = part        # 're' / 'im' / 're2' / 'im2': component of a quantity whose degree is not real-scalable
        self.a = Fraction(a)
        self.b = Fraction(b)
        self.log = log          # None, or the offset s of  s*log|c| + (degree-0 quantity)
        self.cx = cx            # complex valued
        self.phase = phase      # defined up to a unit phase factor (singular vectors)
        self.zero = zero        # the value is identically 0 (polymorphic degree)

    def key(self):
        return (self.a, self.b, self.log)

    def __repr__(self):
        if self.zero:
            return "Dg(0)"
        if self.log is not None:
            return "Dg(log %s)" % self.log
        return "Dg(c^%s cbar^%s%s%s%s)" % (self.a, self.b, " cx" if self.cx else "", " phase" if self.phase else "",
                                           (" " + self.part) if self.part else "")

    # arithmetic ---------------------------------------------------------------
    def _lift(self, o):
        if isinstance(o, Dg):
            return o
        if isinstance(o, Cx):
            return dg_of(o)
        if isinstance(o, bool):
            o = int(o)
        if isinstance(o, (int, Fraction)):
            return Dg(0, 0, zero=(o == 0))
        return None

    def __add__(self, o):
        o2 = self._lift(o)
        if o2 is None:
            return NotImplemented
        return DOM().add(self, o2, "+")

    __radd__ = __add__

    def __sub__(self, o):
        o2 = self._lift(o)
        if o2 is None:
            return NotImplemented
        return DOM().add(self, o2, "-")

    def __rsub__(self, o):
        o2 = self._lift(o)
        if o2 is None:
            return NotImplemented
        return DOM().add(o2, self, "-")

    def __neg__(self):
        return self

    def __pos__(self):
        return self

    def __mul__(self, o):
        o2 = self._lift(o)
        if o2 is None:
            return NotImplemented
        return DOM().mul(self, o2, o)

    __rmul__ = __mul__

    def __truediv__(self, o):
        o2 = self._lift(o)
        if o2 is None:
            return NotImplemented
        return DOM().divide(self, o2)

    def __rtruediv__(self, o):
        o2 = self._lift(o)
        if o2 is None:
            return NotImplemented
        return DOM().divide(o2, self)

    def __pow__(self, n):
        return V.s_pow(self, n)

    def __abs__(self):
        return DOM().abs(self)

    def conjugate(self):
        return Dg(self.b, self.a, self.log, self.cx, self.phase, self.zero)

    conj = conjugate

    @property
    def real(self):
        return DOM().real(self)

    @property
    def imag(self):
        return DOM().imag(self)

    def transpose(self):
        return self

    def copy(self):
        return self

    def __eq__(self, o):
        return V.s_eq(self, o) if V.is_num(o) else False

    def __ne__(self, o):
        return V.b_not(self.__eq__(o))

    def __lt__(self, o):
        return V.s_cmp("<", self, o)

    def __le__(self, o):
        return V.s_cmp("<=", self, o)

    def __gt__(self, o):
        return V.s_cmp(">", self, o)

    def __ge__(self, o):
        return V.s_cmp(">=", self, o)

    def __hash__(self):
        return id(self)

    def __bool__(self):
        raise EngineError("degree value used as a Python bool")


def dg_of(v):
    if isinstance(v, Dg):
        return v
    if isinstance(v, Cx):
        r, i = dg_of(v.re), dg_of(v.im)
        if r.zero and i.zero:
            return Dg(zero=True, cx=True)
        base = i if r.zero else r
        return Dg(base.a, base.b, base.log, True, base.phase)
    if isinstance(v, bool):
        v = int(v)
    if isinstance(v, (int, Fraction)):
        return Dg(0, 0, zero=(v == 0))
    raise EngineError("no degree for %r" % (v,))


class DB:
    """a branch condition in the degree domain; `default` is the generic outcome"""

    def __init__(self, default, desc=""):
        self.e = self
        self.default = default
        self.desc = desc


_DOM = [None]


def DOM():
    return _DOM[0]


class DegDom:
    name = "deg"
    atomic_complex = True
    while_iters = 2
    materialise_limit = 10 ** 6
    expand_limit = 10 ** 6
    while_limit = 3

    def __init__(self, real_mode=False):
        self.real_mode = real_mode      # data and c real: only a+b matters
        self.errors = []
        self.assert_notes = []
        self.in_assert = False
        self.where = "?"
        self.notes = []
        self.stats = {"queries": 0, "solver_s": 0.0}
        self.facts = []
        self.divisors = []
        self.defs = {}
        self.decisions_log = []
        self.while_count = {}
        _DOM[0] = self

    def reset_run(self):
        _DOM[0] = self
        self.pc_getter = lambda: []
        self.brancher = None

    # ---- helpers
    def err(self, what):
        e = TypeErr(what, self.where)
        tgt = self.assert_notes if getattr(self, "in_assert", False) else self.errors
        if not any(x.what == e.what and x.where == e.where for x in tgt):
            tgt.append(e)

    def same(self, x, y):
        if x.zero or y.zero:
            return True
        if (x.log is None) != (y.log is None):
            return False
        if x.log is not None:
            return x.log == y.log
        if self.real_mode:
            return x.a + x.b == y.a + y.b
        return x.a == y.a and x.b == y.b

    def is_scalar(self, v):
        return isinstance(v, Dg)

    def is_int(self, v):
        return False

    def note_cast(self, what):
        pass

    # ---- arithmetic
    def _use(self, x, what):
        if x.part is not None:
            self.err("%s the %s part of a quantity of degree c^%s cbar^%s (not invariant under a complex scalar)" % (
                what, {"re": "real", "im": "imaginary", "re2": "squared real", "im2": "squared imaginary"}.get(
                    x.part, "unbalanced squared real/imaginary"), x.a, x.b))

    @staticmethod
    def _sq(p):
        if p == "re2":
            return (1, 0)
        if p == "im2":
            return (0, 1)
        if isinstance(p, tuple):
            return (p[1], p[2])
        return None

    def add(self, x, y, op):
        sx, sy = self._sq(x.part), self._sq(y.part)
        if (sx is not None or sy is not None) and not x.zero and not y.zero and x.log is None and y.log is None \
                and x.part not in ("re", "im") and y.part not in ("re", "im"):
            # plain + k_r re(z)^2 + k_i im(z)^2 is homogeneous iff k_r == k_i  (re^2 + im^2 = |z|^2)
            if x.a + x.b != y.a + y.b:
                self.err("sum of quantities with different modulus degrees")
            sgn = 1 if op == "+" else -1
            kx = sx or (0, 0)
            ky = sy or (0, 0)
            kr, ki = kx[0] + sgn * ky[0], kx[1] + sgn * ky[1]
            ref = x if sx is not None else y
            if sx is not None and sy is not None and (x.a, x.b) != (y.a, y.b):
                self.err("mixes squared components of quantities with different degrees")
            if kr == ki:
                h = (x.a + x.b) / 2
                return Dg(h, h)
            return Dg(ref.a, ref.b, part=("sq", kr, ki))
        if not x.zero and not y.zero:
            self._use(x, "adds")
            self._use(y, "adds")
        if x.zero:
            return Dg(y.a, y.b, y.log, y.cx or x.cx, y.phase, y.zero)
        if y.zero:
            return Dg(x.a, x.b, x.log, x.cx or y.cx, x.phase, False)
        if x.log is not None or y.log is not None:
            # log-type + degree-0 quantity keeps the offset; log + log adds offsets
            if x.log is not None and y.log is not None:
                return Dg(log=(x.log + y.log) if op == "+" else (x.log - y.log))
            lt, ot = (x, y) if x.log is not None else (y, x)
            if not (ot.a == 0 and ot.b == 0):
                self.err("adds a logarithm to a quantity of degree c^%s cbar^%s" % (ot.a, ot.b))
            return Dg(log=lt.log if (lt is x or op == "+") else -lt.log)
        if not self.same(x, y):
            self.err("%s of quantities with different degrees: c^%s cbar^%s and c^%s cbar^%s" % (
                "sum" if op == "+" else "difference", x.a, x.b, y.a, y.b))
        if x.phase != y.phase:
            self.err("adds a quantity defined up to a phase to one that is not")
        return Dg(x.a, x.b, None, x.cx or y.cx, x.phase)

    def mul(self, x, y, raw=None):
        if x.zero or y.zero:
            return Dg(zero=True, cx=x.cx or y.cx)
        if x.part in ("re", "im") and y.part == x.part and x.a == y.a and x.b == y.b:
            return Dg(x.a * 2, x.b * 2, part=x.part + "2")
        if x.part is not None and y.part is None and y.a == y.b and y.log is None:
            return Dg(x.a + y.a, x.b + y.b, part=x.part)          # times a real-scalable factor
        if y.part is not None and x.part is None and x.a == x.b and x.log is None:
            return Dg(x.a + y.a, x.b + y.b, part=y.part)
        if x.part is not None and y.part is None and y.a == 0 and y.b == 0 and y.log is None:
            return Dg(x.a, x.b, part=x.part)          # times a constant
        if y.part is not None and x.part is None and x.a == 0 and x.b == 0 and x.log is None:
            return Dg(y.a, y.b, part=y.part)
        self._use(x, "multiplies by")
        self._use(y, "multiplies by")
        if x.log is not None or y.log is not None:
            lt, ot = (x, y) if x.log is not None else (y, x)
            if ot.log is not None or not (ot.a == 0 and ot.b == 0):
                self.err("product involving a logarithm of a scaled quantity")
                return Dg()
            # constant * log: the offset scales when the constant is a known number
            k = raw if isinstance(raw, (int, Fraction)) and ot is y else None
            if k is None and lt.log != 0:
                k = getattr(ot, "_const", None)
            if k is None:
                if lt.log != 0:
                    self.err("logarithm of a scaled quantity multiplied by a non-literal factor")
                return Dg(log=lt.log)
            return Dg(log=lt.log * Fraction(k))
        return Dg(x.a + y.a, x.b + y.b, None, x.cx or y.cx, x.phase != y.phase and (x.phase or y.phase) or (x.phase and y.phase and False))

    def divide(self, x, y):
        self._use(x, "divides")
        self._use(y, "divides by")
        if y.zero:
            self.err("division by the constant 0")
            return Dg()
        if x.zero:
            return Dg(zero=True, cx=x.cx or y.cx)
        if x.log is not None or y.log is not None:
            if y.log is None and y.a == 0 and y.b == 0:
                return Dg(log=x.log)      # log / constant: offset scaled by an unknown constant -> only exact when offset 0
            self.err("quotient involving a logarithm of a scaled quantity")
            return Dg()
        return Dg(x.a - y.a, x.b - y.b, None, x.cx or y.cx, x.phase or y.phase)

    def div(self, a, b):
        return self.divide(dg_of(a), dg_of(b))

    def int_power(self, x, k, float_exp=False):
        x = dg_of(x)
        if x.zero:
            return x
        if x.part in ("re", "im") and k == 2:
            return Dg(x.a * 2, x.b * 2, part=x.part + "2")
        self._use(x, "takes a power of")
        if x.log is not None:
            self.err("power of a logarithm of a scaled quantity")
            return Dg()
        return Dg(x.a * k, x.b * k, None, x.cx, x.phase and (k % 2 != 0))

    def power(self, a, n):
        a, n2 = dg_of(a) if not V.is_conc(a) else None, dg_of(n) if not V.is_conc(n) else None
        if n2 is not None and not (n2.a == 0 and n2.b == 0 and n2.log is None):
            self.err("exponent depends on the data scale")
        if a is None:
            return Dg()
        if V.is_conc(n):
            return Dg(a.a * Fraction(n), a.b * Fraction(n), None, a.cx)
        if not (a.a == 0 and a.b == 0):
            self.err("scaled quantity raised to a non-constant power")
        return Dg()

    def sqrt(self, x):
        x = dg_of(x)
        if x.zero:
            return x
        return Dg(x.a / 2, x.b / 2, None, x.cx, x.phase)

    def abs(self, x):
        x = dg_of(x)
        if x.zero:
            return Dg(zero=True)
        self._use(x, "takes abs of")
        if x.log is not None:
            self.err("abs of a logarithm")
            return Dg()
        h = (x.a + x.b) / 2
        return Dg(h, h)

    def conj(self, x):
        return x.conjugate()

    def real(self, x, which="re"):
        if x.zero:
            return Dg(zero=True)
        if x.phase:
            self.err("real/imaginary part of a quantity defined up to a phase")
        if x.cx and x.log is None and not self.same(Dg(x.a, x.b), Dg(x.b, x.a)):
            # only re^2 + im^2 of such a quantity is homogeneous: decided where the part is used
            return Dg(x.a, x.b, part=which)
        return Dg(x.a, x.b, x.log)

    def imag(self, x):
        if x.zero or not x.cx:
            return Dg(zero=True)
        return self.real(x, "im")

    def to_real(self, v):
        return v

    def cast(self, v, dtype):
        """numpy's cast on item assignment"""
        if dtype == "complex":
            return Dg(v.a, v.b, v.log, True, v.phase, v.zero, v.part)
        if dtype in ("float", "int") and v.cx and not v.zero:
            # storing a complex value into a real array keeps the real part
            r = self.real(v)
            return Dg(r.a, r.b, r.log, False, False, r.zero, r.part)
        return v

    def trunc(self, v):
        self.err("int() of a data dependent value")
        return v

    def floordiv(self, a, b):
        self.err("floor division of data dependent values")
        return dg_of(a)

    def mod(self, a, b):
        self.err("modulo of data dependent values")
        return dg_of(a)

    def elem(self, fname, x):
        x = dg_of(x)
        if fname in ("log", "log2", "log10"):
            if x.log is not None:
                self.err("log of a log")
                return Dg()
            if x.zero:
                return Dg()
            if not self.same(Dg(x.a, x.b), Dg(x.b, x.a)):
                self.err("log of a quantity of degree c^%s cbar^%s" % (x.a, x.b))
            return Dg(log=x.a + x.b)
        if not (x.zero or (x.a == 0 and x.b == 0 and x.log is None)):
            self.err("%s of a quantity that scales with the data (degree c^%s cbar^%s)" % (fname, x.a, x.b))
        return Dg(cx=x.cx)

    def pi(self):
        return Dg()

    def out_of_range(self, dtype):
        return Dg(zero=True)

    def ite(self, c, a, b):
        a, b = dg_of(a), dg_of(b)
        if not self.same(a, b):
            self.err("conditional value with different degrees")
        return b if a.zero else a

    # ---- comparisons / decisions
    def cmp(self, op, a, b):
        x, y = dg_of(a), dg_of(b)
        self._use(x, "compares")
        self._use(y, "compares")
        if not self.same(x, y):
            cst = "a constant" if (V.is_conc(b) or V.is_conc(a)) else "a quantity of another degree"
            nz = y if V.is_conc(a) else x
            self.err("comparison (%s) of a quantity of degree c^%s cbar^%s%s with %s: the outcome changes with the data scale"
                     % (op, nz.a, nz.b, (" [log offset %s]" % nz.log) if nz.log is not None else "", cst))
        elif op in ("<", "<=", ">", ">=") and not x.zero and not y.zero or op in ("<", "<=", ">", ">="):
            z = y if x.zero else x
            if z.log is None and not self.same(Dg(z.a, z.b), Dg(z.b, z.a)):
                self.err("ordering comparison of a quantity of degree c^%s cbar^%s" % (z.a, z.b))
        default = {"<": False, "<=": False, "==": False, ">": True, ">=": True, "!=": True}[op]
        # comparisons between two data dependent values have no generic outcome: stay on the main path
        if not V.is_conc(a) and not V.is_conc(b):
            default = {"<": False, "<=": True, "==": False, ">": False, ">=": True, "!=": True}[op]
        return DB(default, "%s" % op)

    def complex_order(self, op, a, b):
        return self.cmp(op, dg_of(a), dg_of(b))

    def b_and(self, a, b):
        da = a.default if isinstance(a, DB) else a
        db = b.default if isinstance(b, DB) else b
        return DB(bool(da) and bool(db))

    def b_or(self, a, b):
        da = a.default if isinstance(a, DB) else a
        db = b.default if isinstance(b, DB) else b
        return DB(bool(da) or bool(db))

    def b_not(self, a):
        return DB(not a.default)

    def decide(self, interp, ce):
        self.decisions_log.append((self.where, ce.default))
        return ce.default

    def known(self, c):
        return None

    def require_eq(self, a, b, msg):
        if V.is_conc(a) and V.is_conc(b):
            if a != b:
                from .interp import RaiseSig
                raise RaiseSig("ValueError", msg)
            return
        raise Unsupported("symbolic shape in the degree domain")

    def require(self, cond, msg, exc=None):
        pass

    # ---- sequence functionals: concrete shapes
    def sum(self, lo, hi, body):
        if not (V.is_conc(lo) and V.is_conc(hi)):
            raise Unsupported("symbolic sum bounds in the degree domain")
        r = Dg(zero=True)
        first = True
        for j in range(int(lo), int(hi)):
            v = body(j)
            r = dg_of(v) if first else (r + v)
            if isinstance(r, Cx):
                r = dg_of(r)
            first = False
        return r

    def dtft(self, seq_fn, length, num, den):
        if not V.is_conc(length):
            raise Unsupported("symbolic FFT length in the degree domain")
        r = Dg(zero=True)
        for j in range(int(length)):
            v = dg_of(seq_fn(j))
            if v.zero:
                continue
            r = v if r.zero else self.add(r, v, "+")
        return Dg(r.a, r.b, r.log, True, r.phase, r.zero)

    dtftz = None

    def code_of(self, v):
        return 0

    def key_terms(self, v):
        return []

    # inputs
    def data_array(self, n, complex_=False):
        return Arr(n, items=[Dg(1, 0, cx=complex_) for _ in range(n)], dtype="complex" if complex_ else "float")

    def const_array(self, n, complex_=False):
        return Arr(n, items=[Dg(0, 0, cx=complex_) for _ in range(n)], dtype="complex" if complex_ else "float")


    # ---- library contracts in the degree domain
    def _join(self, vals):
        r = Dg(zero=True)
        for v in vals:
            v = dg_of(v)
            if v.zero:
                continue
            if r.zero:
                r = v
            elif not self.same(r, v):
                self.err("array with entries of different degrees handed to a library routine")
        return r

    def _row_degrees(self, A):
        """a matrix whose rows are scaled by different unit phases (D*A with D = |c|^k * unitary diagonal) has the
        same singular values and right singular vectors: rows must be uniform, with one common modulus degree"""
        rows = []
        for i in range(A.r):
            rows.append(self._join([A.at(i, j) for j in range(A.c)]))
        mod = None
        for r in rows:
            if r.zero:
                continue
            m = (r.a + r.b)
            if mod is None:
                mod = m
            elif m != mod:
                self.err("matrix rows of different modulus degree handed to a library routine")
        return rows, (mod if mod is not None else Fraction(0))

    def lib_svd(self, I, A):
        """svd(A): S scales with |c|^(deg A); singular vectors have degree 0 up to a unit phase"""
        rows, mod = self._row_degrees(A)
        k = min(A.r, A.c)
        s = Dg(mod / 2, mod / 2)
        cx = A.dtype == "complex"
        U = Arr2(A.r, A.r, rows=[[Dg(0, 0, cx=cx, phase=True) for _ in range(A.r)] for _ in range(A.r)], dtype=A.dtype)
        S = Arr(k, items=[Dg(s.a, s.b) for _ in range(k)], dtype="float")
        Vh = Arr2(A.c, A.c, rows=[[Dg(0, 0, cx=cx, phase=True) for _ in range(A.c)] for _ in range(A.c)], dtype=A.dtype)
        return (U, S, Vh)

    def lib_lstsq(self, I, A, b):
        rows, mod = self._row_degrees(A)
        x = None
        for i, r in enumerate(rows):
            bi = dg_of(b.at(i))
            if r.zero or bi.zero:
                continue
            q = Dg(bi.a - r.a, bi.b - r.b)
            if x is None:
                x = q
            elif not self.same(x, q):
                self.err("least squares: right-hand side and matrix rows scale inconsistently")
        x = x if x is not None else Dg()
        da = Dg(mod / 2, mod / 2)
        cx = A.dtype == "complex" or b.dtype == "complex"
        sol = Arr(A.c, items=[Dg(x.a, x.b, cx=cx) for _ in range(A.c)], dtype="complex" if cx else "float")
        res = Arr(0, items=[], dtype="float")
        sv = self.abs(da)
        return (sol, res, A.c, Arr(A.c, items=[Dg(sv.a, sv.b) for _ in range(A.c)], dtype="float"))
