"""Task runner, obligation bookkeeping, replay, known findings, evidence, exit codes.

exit 0  every obligation proved (or refuted and listed as a still-valid known finding)
exit 1  an unlisted obligation is refuted           -> VIOLATION line
exit 2  nothing refuted but something undecided     (unknown / unsupported / time-out)
exit 3  internal error of the machinery
"""
import hashlib
import json
import multiprocessing as mp
import os
import subprocess
import sys
import time
import traceback

VERIF = os.path.dirname(os.path.dirname(os.path.abspath(__file__)))
NATIVE_PY = os.environ.get("SPECTRUM_NATIVE_PY", "/venv/bin/python")
REPO = os.environ.get("SPECTRUM_REPO", "/repo")


class Task:
    def __init__(self, name, fn, kind="unbounded", timeout=300, functions=(), prerun=False):
        self.name = name
        self.fn = fn
        self.kind = kind
        self.timeout = timeout
        self.prerun = prerun      # exact-algebra tasks whose specification is path independent: try to refute at a rational point first
        self.functions = list(functions)


class TaskCtx:
    def __init__(self, task, prop, tier, seed):
        from .source import Program
        from .libspec import LibTable
        self.task = task
        self.prop = prop
        self.tier = tier
        self.seed = seed
        self.program = Program()
        self.lib = LibTable()
        self.results = []
        self.samples = []
        self.notes = []
        self.assumptions = set()
        self.nclauses = 0
        self.dom = None
        self.canaries = []

    # -- E1
    def smt(self):
        from .z3dom import Z3Dom
        self.dom = Z3Dom()
        return self.dom

    def interp(self, stubs=None, **kw):
        from .interp import Interp
        return Interp(self.program, self.dom, self.lib, stubs=stubs, **kw)

    def run_paths(self, interp, thunk, post, expect_paths=None):
        """explore all paths of ``thunk``; ``post(P)`` states the obligations of a path"""
        from .values import Unsupported
        from .interp import PathLimit
        count = [0]

        def on_path(path):
            count[0] += 1
            P = PathCtx(self, interp, path, count[0])
            interp.in_spec += 1
            try:
                post(P)
            except (AttributeError, KeyError) as e:
                # the real code raised before the contract recorded the state its postcondition reads: that is "raises on an
                # admissible input" (confirmed or not by the native replay), not a reason for the checker to crash
                if path.outcome == "return":
                    raise
                P.fail("no-exception", "raises %s before the contract state was recorded (%s)" % (getattr(path.value, "exc", "?"), e),
                       replay=getattr(self, "native", None))
            except ZeroDivisionError:
                # arrays are lazy: a division by a constant zero inside the code's result surfaces when the
                # result is inspected (numpy would produce inf/nan): the result is not finite
                P.fail("finite(no division by zero)", "the result divides by a constant zero (non-finite value)",
                       replay=getattr(self, "native", None))
            finally:
                interp.in_spec -= 1
        try:
            paths = interp.explore(thunk, on_path=on_path)
        except (Unsupported, PathLimit) as e:
            r = self.add_result("engine", "unsupported", detail="%s: %s" % (type(e).__name__, e))
            r.clause = "engine"
            r.replay = getattr(self, "native", None)
            return []
        if not paths:
            self.add_result("vacuity", "unsupported", detail="no feasible path: contradictory precondition")
        return paths

    def add_result(self, clause, status, **kw):
        from .oblig import Result
        r = Result("%s/%s/%s" % (self.prop, self.task.name, clause), status, kind=self.task.kind, **kw)
        self.results.append(r)
        return r

    def record(self, res):
        self.results.append(res)


class PathCtx:
    def __init__(self, tc, interp, path, k):
        self.tc = tc
        self.interp = interp
        self.path = path
        self.k = k
        self.hyps = list(path.pc)
        self.dom = tc.dom
        self.label = "p%d" % k

    @property
    def outcome(self):
        return self.path.outcome

    @property
    def value(self):
        return self.path.value

    def assume(self, cond):
        from .oblig import to_formula
        if cond is True:
            return
        self.hyps.append(to_formula(cond))

    def case(self, cond):
        """context manager: a case hypothesis visible both to the obligations and to the term
        simplifier (so that index terms are built for this case)"""
        import contextlib
        from .oblig import to_formula

        @contextlib.contextmanager
        def cm():
            f = to_formula(cond)
            nh, npc = len(self.hyps), len(self.interp.pc)
            self.hyps.append(f)
            self.interp.pc.append(f)
            old_label = self.label
            try:
                yield
            finally:
                del self.hyps[nh:]
                del self.interp.pc[npc:]
                self.label = old_label
        return cm()

    def skolem(self, name, lo, hi):
        """an arbitrary index lo <= i < hi"""
        from . import values as V
        i = self.dom.fresh_int(name)
        self.assume(V.s_cmp(">=", i, lo))
        self.assume(V.s_cmp("<", i, hi))
        return i

    def prove(self, clause, goal, replay=None, timeout_ms=None, extra=None):
        from .oblig import discharge
        tc = self.tc
        name = "%s/%s/%s#%s" % (tc.prop, tc.task.name, clause, self.label)
        hyps = self.hyps + list(self.dom.facts)
        # congruence / index reasoning only needs the path condition (linear); the non-linear axiom
        # instances and divisor hypotheses are kept for the final query
        r = discharge(self.dom, name, hyps, goal, timeout_ms=timeout_ms or (20000 if tc.tier == "thorough" else 10000),
                      kind=tc.task.kind, extra=extra, light_hyps=list(self.hyps))
        r.clause = clause
        r.replay = replay
        tc.results.append(r)
        if len(tc.samples) < 3 and r.status == "proved" and r.backend != "trivial":
            from .oblig import to_formula
            s = str(to_formula(goal))
            tc.samples.append({"obligation": name, "goal": s if len(s) < 600 else s[:600] + " ...",
                               "hypotheses": len(hyps), "witness": self.witness()})
        return r.status == "proved"

    def prove_no_div0(self, clause, thunk, replay=None):
        """`finite`: no divisor created while evaluating thunk() can vanish under the hypotheses"""
        import z3
        from .oblig import discharge
        before = len(self.dom.divisors)
        val = thunk()
        new = list(self.dom.divisors[before:])
        tc = self.tc
        ok = True
        if not new:
            self.ok(clause, "no symbolic divisor")
            return val, True
        name = "%s/%s/%s#%s" % (tc.prop, tc.task.name, clause, self.label)
        divf = set(f.get_id() for f in getattr(self.dom, "div_facts", []))
        base = self.hyps + [f for f in self.dom.facts if f.get_id() not in divf]
        r = discharge(self.dom, name, base, z3.And([d != 0 for d in new]),
                      timeout_ms=10000, kind=tc.task.kind, light_hyps=list(self.hyps))
        r.clause = clause
        r.replay = replay
        tc.results.append(r)
        return val, r.status == "proved"

    def canary(self, clause, goal):
        """a deliberately wrong variant of a specification: it must NOT be provable.  A canary that
        is proved means the engine or the encoding is broken (exit 3), not that the code is fine."""
        from .oblig import discharge
        tc = self.tc
        name = "%s/%s/canary:%s#%s" % (tc.prop, tc.task.name, clause, self.label)
        hyps = self.hyps + list(self.dom.facts)
        r = discharge(self.dom, name, hyps, goal, timeout_ms=4000, use_cvc5=False, kind=tc.task.kind)
        tc.canaries.append({"name": name, "outcome": r.status})
        if r.status == "proved":
            raise RuntimeError("canary %s was PROVED: the engine is unsound or the hypotheses are contradictory" % name)

    def check_divisors(self, replay=None):
        """vacuity guard for the no-division-by-zero hypothesis: if some divisor must vanish on this
        path the hypothesis is contradictory -- that is a defect (non-finite result), not a proof"""
        divs = list(getattr(self.dom, "divisors", []))
        n = len(divs)
        if n == getattr(self, "_divs_checked", 0):
            return getattr(self, "_divs_ok", True)
        self._divs_checked = n
        base = self.hyps + list(self.dom.facts)
        r, m = self.dom.check(base + [d != 0 for d in divs], timeout_ms=5000)
        self._divs_ok = True
        if r == "unsat":
            rb, _ = self.dom.check(base, timeout_ms=5000)
            if rb != "unsat":
                self._divs_ok = False
                res = self.tc.add_result("finite(no division by zero)#%s" % self.label, "refuted",
                                         detail="a divisor is zero on every input of this path", model=self.model_inputs())
                res.clause = "finite(no division by zero)"
                res.replay = replay
        return self._divs_ok

    def witness(self):
        """satisfiability witness of the hypotheses (vacuity guard)"""
        from .oblig import concretise
        r, m = self.dom.check(self.hyps + list(self.dom.facts), timeout_ms=3000)
        if r == "sat":
            w = concretise(self.dom, m, limit=8)
            return {k: v for k, v in list(w.items())[:6]}
        return "hypotheses %s" % r

    def fail(self, clause, detail, replay=None, model=None):
        r = self.tc.add_result("%s#%s" % (clause, self.label), "refuted", detail=detail, model=model)
        r.clause = clause
        r.replay = replay
        return r

    def ok(self, clause, detail=""):
        r = self.tc.add_result("%s#%s" % (clause, self.label), "proved", backend="trivial", detail=detail)
        r.clause = clause
        return r

    def model_inputs(self):
        from .oblig import concretise, minimise_model
        hyps = self.hyps + list(self.dom.facts)
        m = minimise_model(self.dom, hyps, 3000)
        if m is None:
            r, m = self.dom.check(hyps, timeout_ms=3000)
            if r != "sat":
                return None
        return concretise(self.dom, m)

    # -- array equality: length + arbitrary element
    def prove_arr_eq(self, clause, got, want, replay=None):
        from . import values as V
        ok = self.prove(clause + ".len", V.s_eq(got.n, want.n), replay=replay)
        i = self.skolem("i", 0, want.n)
        g, w = got.at(i), want.at(i)
        ok2 = self.prove(clause + ".elem", V.s_eq(g, w), replay=replay, extra={"index": i, "got": g, "want": w})
        return ok and ok2


# ---------------------------------------------------------------------------------
# running tasks in a process pool


def _child(task, prop, tier, seed, conn):
    t0 = time.time()
    try:
        sys.setrecursionlimit(20000)
        tc = TaskCtx(task, prop, tier, seed)
        refuted = False
        if getattr(task, "prerun", False):
            tc.point_mode = True
            bad = []
            for attempt in range(4):
                # a random point may leave the generic domain (non positive-definite sample -> the code raises): try another one
                tc.point_try, tc.point_evals = attempt, 0
                tc.results = []
                try:
                    task.fn(tc)
                except Exception:
                    pass             # the pre-run is an accelerator for refutations only
                bad = [r for r in tc.results if r.status == "refuted"]
                if bad or tc.point_evals:
                    break
            tc.point_mode = False
            if bad:
                tc.results = bad
                tc.notes.append("refuted by exact evaluation of the real code at a rational point; symbolic run skipped")
                refuted = True
            else:
                tc.results, tc.samples, tc.canaries, tc.notes, tc.dom = [], [], [], [], None
        if not refuted:
            from .values import Unsupported as _Unsup
            try:
                task.fn(tc)
            except _Unsup as e:
                # a construct the engines do not model, met outside the places that normally record it (inside a stub, a
                # specification or a postcondition): the task is undecided, the checker has not failed
                r = tc.add_result("engine", "unsupported", detail="Unsupported: %s" % e)
                r.clause = "engine"
                r.replay = getattr(tc, "native", None)
        out = {"results": [dict(r.to_dict(), clause=getattr(r, "clause", None), replay=getattr(r, "replay", None))
                           for r in tc.results],
               "samples": tc.samples, "canaries": tc.canaries, "notes": tc.notes + (tc.dom.notes if tc.dom and hasattr(tc.dom, "notes") else []),
               "lib_used": sorted(tc.lib.used), "assumptions": sorted(tc.assumptions),
               "stats": getattr(tc.dom, "stats", {}) if tc.dom else {}, "wall": time.time() - t0}
    except Exception as e:
        out = {"error": "%s: %s" % (type(e).__name__, e), "trace": traceback.format_exc(), "wall": time.time() - t0}
    try:
        conn.send(out)
    except Exception as e:
        conn.send({"error": "cannot send result: %s" % e, "wall": time.time() - t0})
    conn.close()


def run_tasks(tasks, prop, tier, seed, nproc=None):
    nproc = nproc or int(os.environ.get("VERIF_NPROC", "16"))
    ctx = mp.get_context("fork")
    pending = list(tasks)
    running = []
    done = {}
    while pending or running:
        while pending and len(running) < nproc:
            t = pending.pop(0)
            pc, cc = ctx.Pipe(duplex=False)
            p = ctx.Process(target=_child, args=(t, prop, tier, seed, cc))
            p.start()
            cc.close()
            running.append((t, p, pc, time.time()))
        time.sleep(0.02)
        still = []
        for (t, p, pc, st) in running:
            if pc.poll():
                try:
                    done[t.name] = pc.recv()
                except EOFError:
                    done[t.name] = {"error": "worker died", "wall": time.time() - st}
                p.join()
            elif not p.is_alive():
                # the child may have sent its result and exited between the poll above and this test: look once more
                # before declaring it dead (otherwise a passing task becomes an internal error under load)
                got = None
                try:
                    if pc.poll(0.5):
                        got = pc.recv()
                except (EOFError, OSError):
                    got = None
                p.join()
                done[t.name] = got if got is not None else {"error": "worker died without a result (exit %s)" % p.exitcode, "wall": time.time() - st}
            elif time.time() - st > t.timeout * (3 if tier == "thorough" else 1):
                p.kill()
                p.join()
                done[t.name] = {"timeout": True, "wall": time.time() - st}
            else:
                still.append((t, p, pc, st))
        running = still
    return done


# ---------------------------------------------------------------------------------
# replay on the real code


def write_replay(prop, obligation, native_key, inputs, solver_output, extra=None):
    d = os.path.join(os.environ.get("VERIF_REPLAY_DIR") or os.path.join(VERIF, "replays"), prop)
    os.makedirs(d, exist_ok=True)
    body = {"property": prop, "obligation": obligation, "native": native_key, "inputs": inputs,
            "solver_output": solver_output}
    if extra:
        body.update(extra)
    h = hashlib.sha256(json.dumps(body, sort_keys=True, default=str).encode()).hexdigest()[:12]
    # obligation = property/task/clause; the clause text may itself contain "/" (e.g. "N*sum(w^2)/(sum w)^2")
    clause = obligation.split("/", 2)[2] if obligation.count("/") >= 2 else obligation.split("/")[-1]
    clause = clause.split("#")[0].replace(".", "_").replace("/", "_over_").replace(" ", "_")[:90]
    path = os.path.join(d, "%s_%s.json" % (clause, h))
    with open(path, "w") as fh:
        json.dump(body, fh, indent=1, default=str)
    return path


def run_replay(path, timeout=120):
    """exit 0: the real code violates the clause on this input (confirmed);
    exit 4: real code agrees with the specification on this input; other: replay error"""
    env = dict(os.environ)
    env["PYTHONPATH"] = os.path.join(REPO, "src") + os.pathsep + VERIF
    env["PYTHONWARNINGS"] = "ignore"
    try:
        p = subprocess.run([NATIVE_PY, os.path.join(VERIF, "bin", "replay.py"), path], capture_output=True, text=True,
                           timeout=timeout, env=env)
        return p.returncode, (p.stdout + p.stderr)[-3000:]
    except subprocess.TimeoutExpired:
        return 5, "replay timed out"


def native_search(prop, native_key, hints, seed, tries=40):
    """randomised search for a failing input of the native oracle (guided by the clause)"""
    env = dict(os.environ)
    env["PYTHONPATH"] = os.path.join(REPO, "src") + os.pathsep + VERIF
    env["PYTHONWARNINGS"] = "ignore"
    try:
        p = subprocess.run([NATIVE_PY, os.path.join(VERIF, "bin", "replay.py"), "--search", prop, native_key,
                            json.dumps(hints or {}), str(seed), str(tries)], capture_output=True, text=True,
                           timeout=300, env=env)
    except subprocess.TimeoutExpired:
        return None, "search timed out"
    if p.returncode == 0:
        try:
            return json.loads(p.stdout.strip().split("\n")[-1]), p.stdout[-2000:]
        except Exception:
            return None, p.stdout[-2000:] + p.stderr[-2000:]
    return None, (p.stdout + p.stderr)[-2000:]


# ---------------------------------------------------------------------------------
# known findings


def load_known(prop):
    path = os.path.join(VERIF, "known_findings.json")
    if not os.path.exists(path):
        return []
    with open(path) as fh:
        data = json.load(fh)
    return [e for e in data.get("findings", []) if e.get("property") == prop]


# ---------------------------------------------------------------------------------
# the check driver


def clause_key(name):
    """C06/task/clause#p3 -> C06/task/clause"""
    return name.split("#")[0]


def run_check(prop, module, tier, seed):
    t0 = time.time()
    meta = module.META
    tasks = module.tasks(tier)
    if not tasks:
        print("internal error: no tasks for %s" % prop)
        return 3
    done = run_tasks(tasks, prop, tier, seed)
    if os.environ.get("PYVC_TIMES"):
        for w, n in sorted(((d.get("wall", 0.0), n) for n, d in done.items()), reverse=True)[:12]:
            print("  wall %7.1fs  %s%s" % (w, n, "  [time-out]" if done[n].get("timeout") else ""), file=sys.stderr)
    # verdicts must not depend on machine load: tasks with an undecided obligation (time-out, or a
    # counter-model over uninterpreted Sum/DTFT symbols, which may just mean a congruence lemma timed
    # out) are re-run once, a few at a time, with solver budgets multiplied by 5
    retry = []
    for t in tasks:
        d = done.get(t.name, {})
        if d.get("timeout"):
            retry.append(t)
            continue
        for r in d.get("results", []):
            if r["status"] == "unknown" or (r["status"] == "refuted" and "uninterpreted" in (r.get("detail") or "")):
                retry.append(t)
                break
    if retry:
        import pyvc.z3dom as zd
        old = zd.SCALE
        zd.SCALE = old * 5
        try:
            for t in retry:
                # a task that ran out of wall clock gets twice the time on a quarter of the processes; only solver
                # budgets are multiplied by 5 (an exact-algebra task that swells is not helped by waiting longer)
                t.timeout = t.timeout * (2 if done.get(t.name, {}).get("timeout") else 5)
            done2 = run_tasks(retry, prop, tier, seed, nproc=4)
        finally:
            zd.SCALE = old
        for t in retry:
            d2 = done2.get(t.name)
            if d2 is not None and "error" not in d2:
                d2.setdefault("notes", []).append("task %s re-run with 5x solver budget" % t.name)
                done[t.name] = d2
    results = []
    errors = []
    samples = []
    lib_used = set()
    notes = []
    solver_s = 0.0
    queries = 0
    canaries = []
    for t in tasks:
        d = done.get(t.name, {"error": "no result"})
        if "error" in d:
            errors.append((t.name, d["error"], d.get("trace", "")))
            continue
        if d.get("timeout"):
            results.append({"name": "%s/%s/timeout" % (prop, t.name), "status": "unknown", "seconds": d["wall"],
                            "backend": "-", "model": None, "detail": "task time-out", "kind": t.kind, "clause": "timeout",
                            "replay": None})
            continue
        if not d["results"]:
            errors.append((t.name, "task generated zero obligations", ""))
        results += d["results"]
        samples += d["samples"][:2]
        canaries += d.get("canaries", [])
        lib_used |= set(d["lib_used"])
        notes += d["notes"]
        solver_s += d["stats"].get("solver_s", 0.0)
        queries += d["stats"].get("queries", 0)

    known = load_known(prop)
    refuted = [r for r in results if r["status"] == "refuted"]
    undecided = [r for r in results if r["status"] in ("unknown", "unsupported")]
    proved = [r for r in results if r["status"] == "proved"]

    violations = []
    known_hits = []
    unconfirmed = []
    seen_clause = set()
    todo = []
    for r in refuted:
        ck = clause_key(r["name"])
        if ck in seen_clause:
            continue
        seen_clause.add(ck)
        todo.append(r)

    def handle(r):
        ck = clause_key(r["name"])
        kf = [k for k in known if k.get("obligation") == ck]
        if kf:
            k = kf[0]
            path = write_replay(prop, ck, k["witness"]["native"], k["witness"]["inputs"], "known finding witness")
            rc, out = run_replay(path)
            try:
                os.unlink(path)
            except OSError:
                pass
            if rc == 0:
                return ("known", k, ck)
            # the stored witness no longer fails but the obligation still does: a different defect
        rp = r.get("replay")
        native_key, hints = (rp if rp else (None, None))
        confirmed = None
        out = ""
        path = None
        if native_key and r.get("model") is not None:
            inputs = dict(r["model"])
            if hints:
                inputs.update(hints)
            path = write_replay(prop, r["name"], native_key, inputs, r.get("detail", ""))
            rc, out = run_replay(path)
            confirmed = (rc == 0)
            if not confirmed:
                try:
                    os.unlink(path)
                except OSError:
                    pass
                path = None
        if not confirmed and native_key:
            found, out2 = native_search(prop, native_key, hints, seed)
            if found is not None:
                path = write_replay(prop, r["name"], native_key, found,
                                    (r.get("detail") or "") + " | input found by guided native search")
                confirmed = True
        if confirmed:
            return ("violation", r, path, "")
        abstract = "uninterpreted" in (r.get("detail") or "")
        if abstract and native_key:
            return ("unconfirmed", r)
        path = write_replay(prop, r["name"], native_key or "-", r.get("model") or {},
                            (r.get("detail") or "") + " | native: " + out[-500:])
        return ("violation", r, path, " no-failing-input-found")

    if todo:
        from concurrent.futures import ThreadPoolExecutor
        with ThreadPoolExecutor(max_workers=int(os.environ.get("VERIF_NPROC", "16"))) as ex:
            outs = list(ex.map(handle, todo))
        for o in outs:
            if o[0] == "known":
                known_hits.append((o[1], o[2]))
            elif o[0] == "violation":
                violations.append((o[1], o[2], o[3]))
            else:
                unconfirmed.append(o[1])

    # obligations the verifier could not decide because the code left the supported subset: the property's
    # native oracle is searched for a failing input (a confirmed input is a violation; none found stays undecided)
    still = []
    for r in undecided:
        rp = r.get("replay")
        if r["status"] == "unsupported" and rp:
            found, out2 = native_search(prop, rp[0], rp[1], seed)
            if found is not None:
                path = write_replay(prop, r["name"], rp[0], found, "verifier undecided (%s); failing input found by the guided native "
                                    "search of the property's oracle" % (r.get("detail") or "")[:200])
                violations.append((r, path, ""))
                continue
        still.append(r)
    undecided = still
    for (k, ck) in known_hits:
        print("KNOWN-FINDING: property=%s %s [%s]" % (prop, k.get("what", ""), ck))
    for (r, path, suffix) in violations:
        print("VIOLATION property=%s replay=%s obligation=%s%s" % (prop, path, r["name"], suffix))
    for r in undecided + unconfirmed:
        print("UNDECIDED %s: %s %s" % (r["name"], r["status"], (r.get("detail") or "")[:300]))
    for (tn, e, tr) in errors:
        print("ERROR task %s: %s" % (tn, e))
        if tr:
            print(tr)

    # obligations tolerated as listed known findings are reported separately (known_findings_applied)
    known_keys = set(ck for (_, ck) in known_hits)
    n_known = len([r for r in refuted if clause_key(r["name"]) in known_keys])
    n_obl = len(results) - n_known
    n_dis = len(proved)
    wall = time.time() - t0
    level = meta.get("level", "proof")
    by_kind = {}
    for r in results:
        by_kind.setdefault(r["kind"], {"obligations": 0, "proved": 0})
        by_kind[r["kind"]]["obligations"] += 1
        by_kind[r["kind"]]["proved"] += 1 if r["status"] == "proved" else 0
    backends = {}
    for r in proved:
        backends[r["backend"]] = backends.get(r["backend"], 0) + 1
    per_task = {}
    for r in results:
        tn = r["name"].split("/")[1]
        per_task.setdefault(tn, {"obligations": 0, "proved": 0, "seconds": 0.0})
        per_task[tn]["obligations"] += 1
        per_task[tn]["proved"] += 1 if r["status"] == "proved" else 0
        per_task[tn]["seconds"] = round(per_task[tn]["seconds"] + r["seconds"], 3)
    from .source import DROPPED, Program
    prog = Program()
    lib_docs = []
    from .libspec import LibTable
    lt = LibTable()
    for p in sorted(lib_used):
        lib_docs.append("library contract (assumed, probed): %s -- %s" % (p, lt.doc.get(p, "")))
    cov = {
        "obligations": n_obl,
        "discharged": n_dis,
        "checker_cmd": "python3-vt bin/check.py %s --tier %s" % (prop, tier),
        "trusted_base": meta.get("trusted_base", []) + [
            "CPython ast (ingestion of /repo/src/spectrum/*.py, re-read on this run)",
            "/verif/pyvc (VC generator / symbolic interpreter)", "z3 %s" % _z3_version(), "cvc5 (only for z3 'unknown')",
            "side-car contracts /verif/contracts/%s.py (specifications written from the property statement)" % prop],
        "samples": samples[:6] or [{"note": "no non-trivial sample recorded"}],
        "functions_under_contract": meta.get("functions", []),
        "by_kind": by_kind,
        "bounded_note": meta.get("bounded_note", ""),
        "backends": backends,
        "solver_seconds": round(solver_s, 3),
        "solver_queries": queries,
        "per_task": per_task,
        "refuted": [r["name"] for r in refuted],
        "undecided": [r["name"] for r in undecided],
        "canaries": {"run": len(canaries), "all_rejected": all(c["outcome"] != "proved" for c in canaries),
                     "samples": canaries[:4]},
        "known_findings_applied": [ck for (_, ck) in known_hits],
        "source_sha": prog.sha([m for m in prog.modules if prog.modules[m] is not None]),
        "ingestion_drops": DROPPED,
        "explanation": meta.get("explanation", ""),
        "evaluations": n_obl,
        "distinct_nontrivial": len(set(clause_key(r["name"]) for r in results if r["backend"] != "trivial")),
        "rule": "one obligation per (function, clause, path); distinct = distinct (function, clause) with a non-trivial solver query",
    }
    ev = {"property_id": prop, "tier": tier, "seed": seed, "level": level, "coverage": cov,
          "assumptions": meta.get("assumptions", []) + lib_docs + sorted(set(notes)),
          "wall_s": round(wall, 2), "violations": len(violations)}
    # experiments against scratch copies of the repository (SPECTRUM_REPO=...) may redirect their output so that the
    # committed evidence, which must come from /repo itself, is not overwritten
    evdir = os.environ.get("VERIF_EVIDENCE_DIR") or os.path.join(VERIF, "evidence")
    os.makedirs(evdir, exist_ok=True)
    with open(os.path.join(evdir, "%s.json" % prop), "w") as fh:
        json.dump(ev, fh, indent=1, default=str)

    print("%s tier=%s: %d obligations, %d proved, %d refuted (%d known), %d undecided, %d errors; %.1fs wall, %.1fs solver"
          % (prop, tier, n_obl, n_dis, len(refuted), len(known_hits), len(undecided) + len(unconfirmed), len(errors), wall,
             solver_s))
    if errors:
        return 3
    if violations:
        return 1
    if undecided or unconfirmed:
        return 2
    return 0


def _z3_version():
    try:
        import z3
        return z3.get_version_string()
    except Exception:
        return "?"
