"""Exact normal-form decision of field identities  lhs == rhs  between z3 real terms.

Non-arithmetic sub-terms (uninterpreted applications, if-then-else, to_real of integer terms, ...)
are treated as indeterminates; both sides are brought to  num/den  in a polynomial ring over Q
(sympy.polys.rings) and  num1*den2 - num2*den1  is expanded.  The identity then holds wherever no
divisor vanishes -- which is exactly the hypothesis under which equalities are claimed (see
Z3Dom.note_divisor).  This is sound and complete for identities of the field Q(atoms); it is used as
a fast, load-independent path before the SMT solver is asked.
"""
from fractions import Fraction
import z3

try:
    from sympy.polys.rings import ring
    from sympy.polys.domains import QQ
    HAVE = True
except Exception:  # pragma: no cover
    HAVE = False

ARITH = {z3.Z3_OP_ADD, z3.Z3_OP_SUB, z3.Z3_OP_MUL, z3.Z3_OP_DIV, z3.Z3_OP_UMINUS, z3.Z3_OP_POWER}
INT_ARITH = {z3.Z3_OP_ADD, z3.Z3_OP_SUB, z3.Z3_OP_MUL, z3.Z3_OP_UMINUS}


def _is_arith(e):
    if not z3.is_app(e):
        return False
    k = e.decl().kind()
    if e.sort().kind() == z3.Z3_REAL_SORT:
        return k in ARITH or k == z3.Z3_OP_TO_REAL
    if e.sort().kind() == z3.Z3_INT_SORT:
        # integer ring operations embed into the field (to_real is a ring homomorphism); div / mod stay atoms
        return k in INT_ARITH
    return False


COLLAPSE = {}


def _collapsed(e):
    """if-then-else whose two arms are identical as field elements (e.g. |x| with x = 0) is its arm"""
    if z3.is_app_of(e, z3.Z3_OP_ITE) and e.sort().kind() in (z3.Z3_REAL_SORT, z3.Z3_INT_SORT):
        i = e.get_id()
        hit = COLLAPSE.get(i)
        if hit is not None and hit[0].eq(e):
            return hit[1]
        c, a, b = e.children()
        r = a if (a.eq(b) or equal_terms(a, b) is True) else None
        COLLAPSE[i] = (e, r)
        return r
    return None


def _atoms(e, out, seen):
    i = e.get_id()
    if i in seen:
        return
    seen.add(i)
    if z3.is_rational_value(e) or z3.is_int_value(e):
        return
    col = _collapsed(e)
    if col is not None:
        _atoms(col, out, seen)
        return
    if _is_arith(e):
        if e.decl().kind() == z3.Z3_OP_POWER:
            b, x = e.children()
            if z3.is_rational_value(x) and x.denominator_as_long() == 1 and abs(x.numerator_as_long()) <= 8:
                _atoms(b, out, seen)
                return
            out[e.get_id()] = e
            return
        for c in e.children():
            _atoms(c, out, seen)
        return
    out[e.get_id()] = e


class Conv:
    def __init__(self, exprs, max_atoms=40):
        atoms = {}
        seen = set()
        for e in exprs:
            _atoms(e, atoms, seen)
        self.atoms = list(atoms.values())
        if len(self.atoms) > max_atoms:
            raise OverflowError("too many atoms")
        names = ["v%d" % k for k in range(len(self.atoms))]
        if names:
            res = ring(names, QQ)
            self.R = res[0]
            gens = res[1:]
        else:
            res = ring(["v0"], QQ)
            self.R = res[0]
            gens = []
        self.var = {a.get_id(): g for a, g in zip(self.atoms, gens)}
        self.memo = {}
        self.budget = 2500

    def frac(self, e):
        i = e.get_id()
        if i in self.memo:
            return self.memo[i]
        R = self.R
        if z3.is_rational_value(e):
            r = (R(QQ(e.numerator_as_long(), e.denominator_as_long())), R(1))
        elif z3.is_int_value(e):
            r = (R(e.as_long()), R(1))
        elif _collapsed(e) is not None:
            r = self.frac(_collapsed(e))
        elif i in self.var:
            r = (self.var[i], R(1))
        elif _is_arith(e):
            k = e.decl().kind()
            ch = [self.frac(c) for c in e.children()]
            if k == z3.Z3_OP_ADD:
                n, d = ch[0]
                for (n2, d2) in ch[1:]:
                    if d == d2:
                        n = n + n2
                    else:
                        n, d = n * d2 + n2 * d, d * d2
                r = (n, d)
            elif k == z3.Z3_OP_SUB:
                n, d = ch[0]
                for (n2, d2) in ch[1:]:
                    if d == d2:
                        n = n - n2
                    else:
                        n, d = n * d2 - n2 * d, d * d2
                r = (n, d)
            elif k == z3.Z3_OP_TO_REAL:
                r = ch[0]
            elif k == z3.Z3_OP_UMINUS:
                r = (-ch[0][0], ch[0][1])
            elif k == z3.Z3_OP_MUL:
                n, d = ch[0]
                for (n2, d2) in ch[1:]:
                    n, d = n * n2, d * d2
                r = (n, d)
            elif k == z3.Z3_OP_DIV:
                (n1, d1), (n2, d2) = ch
                r = (n1 * d2, d1 * n2)
            elif k == z3.Z3_OP_POWER:
                x = e.children()[1]
                p = x.numerator_as_long()
                n, d = ch[0]
                if p >= 0:
                    r = (n ** p, d ** p)
                else:
                    r = (d ** (-p), n ** (-p))
            else:
                raise ValueError("arith op")
        else:
            raise ValueError("not convertible")
        if len(r[0]) + len(r[1]) > self.budget:
            raise OverflowError("expression swell")
        self.memo[i] = r
        return r


def equal_terms(a, b):
    """True if a == b is an identity of the field generated by the atoms; False if not; None if not applicable"""
    if not HAVE:
        return None
    if a.sort().kind() not in (z3.Z3_REAL_SORT, z3.Z3_INT_SORT) or b.sort().kind() not in (z3.Z3_REAL_SORT, z3.Z3_INT_SORT):
        return None
    try:
        cv = Conv([a, b])
        (n1, d1), (n2, d2) = cv.frac(a), cv.frac(b)
        return (n1 * d2 - n2 * d1) == 0
    except (OverflowError, ValueError, RecursionError):
        return None


def identity(goal):
    """goal: equality (or conjunction of equalities) between real terms"""
    if z3.is_and(goal):
        res = True
        for c in goal.children():
            r = identity(c)
            if r is None:
                return None
            res = res and r
        return res
    if z3.is_true(goal):
        return True
    if z3.is_eq(goal):
        a, b = goal.children()
        if a.sort().kind() == z3.Z3_REAL_SORT:
            return equal_terms(a, b)
        if a.sort().kind() == z3.Z3_INT_SORT:
            return True if a.eq(b) else None
    return None
