"""Obligations and their discharge (z3 first, cvc5 on `unknown`), congruence lemmas for
sequence functionals, counter-model concretisation."""
import time
from fractions import Fraction
import z3

from . import values as V
from .values import Cx, Arr, Arr2
from .z3dom import R, B, zconst, _real


class Result:
    def __init__(self, name, status, seconds=0.0, backend="z3", model=None, detail="", kind="unbounded"):
        self.name = name
        self.status = status      # proved | refuted | unknown | unsupported
        self.seconds = seconds
        self.backend = backend
        self.model = model        # concretised inputs (dict) for refuted
        self.detail = detail
        self.kind = kind          # unbounded | bounded

    def to_dict(self):
        return {"name": self.name, "status": self.status, "seconds": round(self.seconds, 4),
                "backend": self.backend, "model": self.model, "detail": self.detail, "kind": self.kind}


# ---------------------------------------------------------------------------------
# congruence / extensionality lemmas for Sum / DTFT symbols


def find_apps(dom, exprs):
    """applications of sequence-functional symbols occurring in the formulas:
    (ident, actual function args, actual params)"""
    apps = {}
    seen = set()
    stack = list(exprs)
    while stack:
        x = stack.pop()
        i = x.get_id()
        if i in seen:
            continue
        seen.add(i)
        if z3.is_app(x):
            nm = x.decl().name()
            hit = dom.decl_index.get(nm)
            if hit is not None:
                ident, comp = hit
                d = dom.defs[ident]
                ch = x.children()
                na = d["nargs"]
                key = (ident, tuple(c.get_id() for c in ch))
                if key not in apps:
                    apps[key] = (ident, ch[:na], ch[na:])
            stack.extend(x.children())
    # definitions may mention other functionals (sum inside a sum): include them
    return list(apps.values())


def inst_def(d, actual_params):
    pairs = list(zip(d["params"], actual_params))
    re, im = d["re"], d["im"]
    if pairs:
        re = z3.substitute(re, *pairs)
        im = z3.substitute(im, *pairs)
    return re, im


def congruence_lemmas(dom, hyps, exprs, max_rounds=3):
    """lemmas `args equal => applications equal` for pairs of applications whose defining
    sequences are provably pointwise equal under the hypotheses"""
    lemmas = []
    known = set()
    exprs = list(exprs)
    for _ in range(max_rounds):
        apps = find_apps(dom, exprs + lemmas)
        # definitions can contain further applications
        extra = []
        for (ident, a, p) in apps:
            re, im = inst_def(dom.defs[ident], p)
            extra += [re, im]
        apps = find_apps(dom, exprs + lemmas + extra)
        new = False
        for x in range(len(apps)):
            for y in range(x + 1, len(apps)):
                ia, aa, pa = apps[x]
                ib, ab, pb = apps[y]
                da, db = dom.defs[ia], dom.defs[ib]
                if da["kind"] != db["kind"] or da["nargs"] != db["nargs"]:
                    continue
                key = (ia, tuple(t.get_id() for t in aa + pa), ib, tuple(t.get_id() for t in ab + pb))
                if key in known:
                    continue
                known.add(key)
                ra, ima = inst_def(da, pa)
                rb, imb = inst_def(db, pb)
                # align the probe variables
                if not da["j"].eq(db["j"]):
                    rb = z3.substitute(rb, (db["j"], da["j"]))
                    imb = z3.substitute(imb, (db["j"], da["j"]))
                if ra.eq(rb) and ima.eq(imb):
                    same = True
                else:
                    neq = z3.Or(ra != rb, ima != imb)
                    same = dom.quick_unsat(list(hyps) + lemmas + [neq], timeout_ms=4000)
                if not same:
                    continue
                args_eq = z3.And([x1 == y1 for x1, y1 in zip(aa, ab)]) if aa else z3.BoolVal(True)
                concl = []
                ncomp = max(len(da["decls"]), len(db["decls"]))
                for r in range(ncomp):
                    ta = da["decls"][r](*(list(aa) + list(pa))) if r < len(da["decls"]) else z3.RealVal(0)
                    tb = db["decls"][r](*(list(ab) + list(pb))) if r < len(db["decls"]) else z3.RealVal(0)
                    concl.append(ta == tb)
                lemmas.append(z3.Implies(args_eq, z3.And(concl)))
                new = True
        if not new:
            break
    return lemmas


# ---------------------------------------------------------------------------------


def value_eq(a, b):
    """equality of two scalar values as a condition"""
    return V.s_eq(a, b)


def to_formula(c):
    if isinstance(c, bool):
        return z3.BoolVal(c)
    if isinstance(c, z3.ExprRef):
        return c
    return c.e


def concretise(dom, model, limit=64):
    """turn a z3 model into plain inputs for the native replay"""
    out = {}

    def num(e):
        v = model.eval(e, model_completion=True)
        if z3.is_int_value(v):
            return v.as_long()
        if z3.is_rational_value(v):
            return str(Fraction(v.numerator_as_long(), v.denominator_as_long()))
        if z3.is_algebraic_value(v):
            return str(v.approx(20))
        return str(v)
    for kind, name, info in dom.inputs:
        try:
            if kind in ("int", "real"):
                out[name] = num(info)
            elif kind == "enum":
                c, table = info
                out[name] = table.get(num(c), "?")
            elif kind == "array":
                n, dtype, fre, fim = info
                nn = n if isinstance(n, int) else num(n.e)
                if not isinstance(nn, int) or nn > limit or nn < 0:
                    out[name] = {"len": nn, "too_long": True}
                    continue
                vals = []
                for i in range(nn):
                    if fim is not None:
                        vals.append([num(fre(z3.IntVal(i))), num(fim(z3.IntVal(i)))])
                    else:
                        vals.append(num(fre(z3.IntVal(i))))
                out[name] = {"dtype": dtype, "values": vals}
            elif kind == "array2":
                r, c, dtype, fre, fim = info
                rr = r if isinstance(r, int) else num(r.e)
                cc = c if isinstance(c, int) else num(c.e)
                if rr * cc > limit * 4:
                    out[name] = {"shape": [rr, cc], "too_long": True}
                    continue
                rows = []
                for i in range(rr):
                    row = []
                    for j in range(cc):
                        if fim is not None:
                            row.append([num(fre(z3.IntVal(i), z3.IntVal(j))), num(fim(z3.IntVal(i), z3.IntVal(j)))])
                        else:
                            row.append(num(fre(z3.IntVal(i), z3.IntVal(j))))
                    rows.append(row)
                out[name] = {"dtype": dtype, "rows": rows}
        except Exception as e:  # pragma: no cover
            out[name] = {"error": str(e)}
    return out


def minimise_model(dom, formulas, timeout_ms):
    """look for a counter-model with small integer inputs (for a small replay)"""
    ints = [info for kind, name, info in dom.inputs if kind == "int"]
    for kind, name, info in dom.inputs:
        if kind == "array" and not isinstance(info[0], int):
            ints.append(info[0].e)
        if kind == "array2":
            for t in info[:2]:
                if not isinstance(t, int):
                    ints.append(t.e)
    if not ints:
        return None
    for bound in (4, 6, 9, 16, 40):
        extra = [z3.And(v <= bound, v >= -bound) for v in ints]
        r, m = dom.check(list(formulas) + extra, timeout_ms=timeout_ms)
        if r == "sat":
            return m
    return None


def discharge(dom, name, hyps, goal, timeout_ms=10000, use_cvc5=True, kind="unbounded", extra=None):
    """prove hyps => goal"""
    t0 = time.time()
    if goal is True:
        return Result(name, "proved", 0.0, "trivial", kind=kind)
    g = to_formula(goal)
    hyps = [to_formula(h) for h in hyps]
    lem = []
    if dom.defs:
        lem = congruence_lemmas(dom, hyps, [g] + hyps)
    formulas = hyps + lem + [z3.Not(g)]
    r, m = dom.check(formulas, timeout_ms=timeout_ms)
    backend = "z3"
    if r == "unknown" and use_cvc5:
        r2 = cvc5_check(formulas, timeout_ms)
        if r2 == "unsat":
            r, backend = "unsat", "cvc5"
    dt = time.time() - t0
    if r == "unsat":
        return Result(name, "proved", dt, backend, kind=kind)
    if r == "sat":
        mm = minimise_model(dom, formulas, min(timeout_ms, 4000)) or m
        model = concretise(dom, mm)
        if extra:
            for k, e in extra.items():
                try:
                    model["@" + k] = str(mm.eval(zconst(e), model_completion=True)) if not isinstance(e, Cx) else \
                        [str(mm.eval(zconst(e.re), model_completion=True)), str(mm.eval(zconst(e.im), model_completion=True))]
                except Exception:
                    pass
        abstract = bool(lem) or bool(find_apps(dom, [g] + hyps))
        return Result(name, "refuted", dt, backend, model=model,
                      detail="counter-model%s" % (" (formula contains uninterpreted Sum/DTFT symbols: "
                                                  "model must be confirmed by replay)" if abstract else ""), kind=kind)
    return Result(name, "unknown", dt, backend, detail=str(m), kind=kind)


def cvc5_check(formulas, timeout_ms):
    """second opinion through the SMT-LIB text of the query"""
    import subprocess
    import tempfile
    import os
    s = z3.Solver()
    for f in formulas:
        s.add(f)
    text = "(set-logic ALL)\n" + s.to_smt2()
    fd, path = tempfile.mkstemp(suffix=".smt2")
    try:
        with os.fdopen(fd, "w") as fh:
            fh.write(text)
        try:
            out = subprocess.run(["/usr/bin/cvc5", "--tlimit=%d" % timeout_ms, path], capture_output=True,
                                 text=True, timeout=timeout_ms / 1000.0 + 5)
        except Exception:
            return "unknown"
        first = out.stdout.strip().split("\n")[0] if out.stdout.strip() else ""
        if first in ("unsat", "sat"):
            return first
        return "unknown"
    finally:
        try:
            os.unlink(path)
        except OSError:
            pass
