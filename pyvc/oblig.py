"""Obligations and their discharge (z3 first, cvc5 on `unknown`), congruence lemmas for
sequence functionals, counter-model concretisation."""
import time
from fractions import Fraction
import z3

from . import values as V
from .values import Cx, Arr, Arr2
from .z3dom import R, B, zconst, _real


class Result:
    def __init__(self, name, status, seconds=0.0, backend="z3", model=None, detail="", kind="unbounded"):
        self.name = name
        self.status = status      # proved | refuted | unknown | unsupported
        self.seconds = seconds
        self.backend = backend
        self.model = model        # concretised inputs (dict) for refuted
        self.detail = detail
        self.kind = kind          # unbounded | bounded

    def to_dict(self):
        return {"name": self.name, "status": self.status, "seconds": round(self.seconds, 4),
                "backend": self.backend, "model": self.model, "detail": self.detail, "kind": self.kind}


# ---------------------------------------------------------------------------------
# congruence / extensionality lemmas for Sum / DTFT symbols


def find_apps(dom, exprs):
    """applications of sequence-functional symbols occurring in the formulas:
    (ident, actual function args, actual params)"""
    apps = {}
    seen = set()
    stack = list(exprs)
    while stack:
        x = stack.pop()
        i = x.get_id()
        if i in seen:
            continue
        seen.add(i)
        if z3.is_app(x):
            nm = x.decl().name()
            hit = dom.decl_index.get(nm)
            if hit is not None:
                ident, comp = hit
                d = dom.defs[ident]
                ch = x.children()
                na = d["nargs"]
                key = (ident, tuple(c.get_id() for c in ch))
                if key not in apps:
                    apps[key] = (ident, ch[:na], ch[na:])
            stack.extend(x.children())
    # definitions may mention other functionals (sum inside a sum): include them
    return list(apps.values())


BOUNDS = [z3.Int("seq!bound%d" % k) for k in range(8)]
BOUND = BOUNDS[0]


def inst_def(d, actual_params, level=0):
    """the defining sequence of an application, as a term in the bound index BOUNDS[level]
    (capture-avoiding: the probe variable is renamed before the parameters are substituted; an
    application found inside a level-L definition is instantiated at level L+1)"""
    b = BOUNDS[level]
    re = z3.substitute(d["re"], (d["j"], b))
    im = z3.substitute(d["im"], (d["j"], b))
    pairs = list(zip(d["params"], actual_params))
    if pairs:
        re = z3.substitute(re, *pairs)
        im = z3.substitute(im, *pairs)
    return re, im


def _probe_differs(ra, ima, rb, imb, b):
    """cheap filter: the two sequences visibly differ at index 0 or 1 (both sides reduce to different
    atoms).  Only used to skip hopeless solver calls; skipping can lose a lemma, never add a wrong one."""
    for k in (0, 1):
        a = z3.simplify(z3.substitute(ra, (b, z3.IntVal(k))))
        c = z3.simplify(z3.substitute(rb, (b, z3.IntVal(k))))
        if a.eq(c):
            continue
        if _atomic(a) and _atomic(c):
            return True
    return False


def _atomic(e):
    if z3.is_rational_value(e) or z3.is_int_value(e):
        return True
    if z3.is_app(e) and e.decl().kind() == z3.Z3_OP_UNINTERPRETED:
        return all(_atomic(c) for c in e.children())
    return False


def _inst_term(d, term, actual_params):
    pairs = list(zip(d["params"], actual_params))
    return z3.substitute(term, *pairs) if pairs else term


PERIODS = {}


def period_int(den):
    """an Int constant equal to the (real-sorted) grid size `den`, one per distinct term"""
    k = str(den)
    if k not in PERIODS:
        PERIODS[k] = (z3.Int("per!n%d" % len(PERIODS)), den)
    return PERIODS[k][0]


def occurrence_condition(dom, term, ident, args):
    """condition (over the if-then-else structure of `term`) under which an application of `ident`
    with exactly these arguments is reached"""
    names = set(d.name() for d in dom.defs[ident]["decls"])
    memo = {}

    def is_target(x):
        if not z3.is_app(x) or x.decl().name() not in names:
            return False
        ch = x.children()
        return len(ch) == len(args) and all(c.eq(a) for c, a in zip(ch, args))

    def walk(x):
        i = x.get_id()
        if i in memo:
            return memo[i]
        if is_target(x):
            r = z3.BoolVal(True)
        elif z3.is_app_of(x, z3.Z3_OP_ITE):
            c, t, e = x.children()
            parts = []
            wc, wt, we = walk(c), walk(t), walk(e)
            if wc is not None:
                parts.append(wc)
            if wt is not None:
                parts.append(z3.And(c, wt) if not z3.is_true(wt) else c)
            if we is not None:
                parts.append(z3.And(z3.Not(c), we) if not z3.is_true(we) else z3.Not(c))
            r = z3.Or(parts) if len(parts) > 1 else (parts[0] if parts else None)
        else:
            parts = [w for w in (walk(c) for c in x.children()) if w is not None]
            if not parts:
                r = None
            elif any(z3.is_true(p) for p in parts):
                r = z3.BoolVal(True)
            else:
                r = z3.Or(parts) if len(parts) > 1 else parts[0]
        memo[i] = r
        return r
    return walk(term)


def leveled_apps(dom, exprs, side_hyps=None):
    """applications in the formulas (level 0) and, recursively, inside their definitions (level+1).
    For a two-sided DTFT the definition shifted by one period is explored too (its premises are
    needed by the periodisation lemma)."""
    out = []
    seen = set()
    frontier = [(a, 0) for a in find_apps(dom, exprs)]
    while frontier:
        (ident, a, p), lvl = frontier.pop(0)
        key = (ident, tuple(str(t) for t in list(a) + list(p)), lvl)
        if key in seen or lvl >= len(BOUNDS) - 1:
            continue
        seen.add(key)
        out.append(((ident, a, p), lvl))
        OCC[key] = z3.BoolVal(True) if lvl == 0 else _occ(dom, CTX.get(key, []), ident, list(a) + list(p))
        d = dom.defs[ident]
        re, im = inst_def(d, p, lvl)
        terms = [re, im]
        if d["kind"] == "dtftz" and len(a) == 2:
            nint = period_int(a[1])
            if side_hyps is not None:
                h = z3.ToReal(nint) == a[1]
                if not any(h.eq(x) for x in side_hyps):
                    side_hyps.append(h)
            b = BOUNDS[lvl]
            terms += [z3.substitute(re, (b, b - nint)), z3.substitute(im, (b, b - nint))]
        for sub in find_apps(dom, terms):
            frontier.append((sub, lvl + 1))
            k2 = (sub[0], tuple(str(t) for t in list(sub[1]) + list(sub[2])), lvl + 1)
            CTX.setdefault(k2, [])
            CTX[k2] += terms
    return out


OCC = {}
CTX = {}


def _occ(dom, terms, ident, args):
    parts = []
    for t in terms:
        w = occurrence_condition(dom, t, ident, args)
        if w is None:
            continue
        if z3.is_true(w):
            return z3.BoolVal(True)
        parts.append(w)
    if not parts:
        return z3.BoolVal(True)
    return z3.Or(parts) if len(parts) > 1 else parts[0]


def app_key(app, lvl):
    ident, a, p = app
    return (ident, tuple(str(t) for t in list(a) + list(p)), lvl)


def _mentions_bound(terms):
    used = set()
    stack = list(terms)
    seen = set()
    ids = {b.get_id(): b for b in BOUNDS}
    while stack:
        x = stack.pop()
        i = x.get_id()
        if i in seen:
            continue
        seen.add(i)
        if i in ids:
            used.add(i)
        stack.extend(x.children())
    return [ids[i] for i in used]


def congruence_lemmas(dom, hyps, exprs, max_rounds=6):
    """lemmas `args equal => applications equal` for pairs of applications whose defining
    sequences are provably pointwise equal under the hypotheses (+ lemmas found so far).
    Returns (lemmas, rewrites): when the arguments are provably equal too, the second application is
    rewritten into the first one (congruence closure done by the generator).  Lemmas about
    applications nested in a definition mention that definition's bound index; they hold for every
    value of it (no hypothesis constrains it) and are added universally quantified."""
    lemmas = []
    rewrites = []
    proven = set()
    failed = {}
    exprs = list(exprs)
    hyps = list(hyps)
    OCC.clear()
    CTX.clear()
    for _ in range(max_rounds):
        apps = leveled_apps(dom, exprs, side_hyps=hyps)
        # deepest first: lemmas about nested sums are needed to compare the enclosing sequences
        apps.sort(key=lambda t: -t[1])
        new = False
        for x in range(len(apps)):
            for y in range(x + 1, len(apps)):
                (ia, aa, pa), la = apps[x]
                (ib, ab, pb), lb = apps[y]
                if la != lb:
                    continue
                da, db = dom.defs[ia], dom.defs[ib]
                key = (ia, tuple(str(t) for t in list(aa) + list(pa)), ib, tuple(str(t) for t in list(ab) + list(pb)), la)
                if key in proven or failed.get(key) == len(lemmas):
                    continue
                if {da["kind"], db["kind"]} == {"dtft", "dtftz"}:
                    lem = periodization_lemma(dom, list(hyps) + lemmas, apps[x][0], apps[y][0], la)
                    if lem is None:
                        failed[key] = len(lemmas)
                    else:
                        proven.add(key)
                        lemmas.append(lem[0])
                        rewrites += lem[1]
                        new = True
                    continue
                if da["kind"] != db["kind"] or da["nargs"] != db["nargs"]:
                    continue
                ra, ima = inst_def(da, pa, la)
                rb, imb = inst_def(db, pb, lb)
                occ = z3.And(OCC.get(app_key(apps[x][0], la), z3.BoolVal(True)), OCC.get(app_key(apps[y][0], lb), z3.BoolVal(True)))
                if ra.eq(rb) and ima.eq(imb):
                    same = True
                elif _probe_differs(ra, ima, rb, imb, BOUNDS[la]):
                    same = False
                else:
                    neq = z3.Or(ra != rb, ima != imb)
                    same = dom.quick_unsat(list(hyps) + lemmas + [occ, neq], timeout_ms=2500)
                if not same and da["kind"] == "total" and da.get("meta") and db.get("meta"):
                    # re-indexing: sum_j s(j) = sum_j t(j) when t(j + c) = s(j) for all j  (c = difference of
                    # the lower bounds); both are sums over all integers of finitely supported sequences
                    b = BOUNDS[la]
                    for end in ("lo", "hi"):
                        ea = _inst_term(da, da["meta"][end], pa)
                        eb = _inst_term(db, db["meta"][end], pb)
                        c = eb - ea
                        rb2 = z3.substitute(rb, (b, b + c))
                        imb2 = z3.substitute(imb, (b, b + c))
                        same = dom.quick_unsat(list(hyps) + lemmas + [occ, z3.Or(ra != rb2, ima != imb2)], timeout_ms=2500)
                        if same:
                            break
                if not same:
                    failed[key] = len(lemmas)
                    continue
                proven.add(key)
                if da["kind"] == "dtft" and len(aa) == 2 and not aa[1].eq(ab[1]):
                    # same frequency on two grids: num1/den1 == num2/den2 (dens > 0)
                    args_eq = z3.And(aa[0] * ab[1] == ab[0] * aa[1], aa[1] > 0, ab[1] > 0)
                elif da["kind"] == "dtftz" and len(aa) == 2 and not aa[1].eq(ab[1]):
                    args_eq = z3.And(aa[0] * ab[1] == ab[0] * aa[1], aa[1] > 0, ab[1] > 0)
                else:
                    args_eq = z3.And([x1 == y1 for x1, y1 in zip(aa, ab)]) if aa else z3.BoolVal(True)
                concl = []
                pairs = []
                ncomp = max(len(da["decls"]), len(db["decls"]))
                for r in range(ncomp):
                    ta = da["decls"][r](*(list(aa) + list(pa))) if r < len(da["decls"]) else z3.RealVal(0)
                    tb = db["decls"][r](*(list(ab) + list(pb))) if r < len(db["decls"]) else z3.RealVal(0)
                    concl.append(ta == tb)
                    pairs.append((tb, ta))
                lemma = z3.Implies(z3.And(args_eq, occ), z3.And(concl))
                bvars = _mentions_bound(list(aa) + list(pa) + list(ab) + list(pb))
                if bvars:
                    # the lemma mentions the bound index of the enclosing definition as a free constant;
                    # it was proved without any assumption on it, so the ground instance is a valid fact
                    lemmas.append(lemma)
                else:
                    lemmas.append(lemma)
                    if not aa or all(x1.eq(y1) for x1, y1 in zip(aa, ab)) or \
                            dom.quick_unsat(list(hyps) + lemmas + [z3.Not(args_eq)], timeout_ms=2500):
                        rewrites += [(tb, ta) for (tb, ta) in pairs if not z3.is_rational_value(tb)]
                new = True
        if not new:
            break
    return lemmas, rewrites


def periodization_lemma(dom, hyps, app1, app2, level=0):
    """A-DFT (periodisation): for integers k, n > 0 and a sequence t supported in (-n, n),
         sum_{j in Z} t[j] e^{-2 pi i (k/n) j}  =  DFT_n(s)[k]   where  s[r] = t[r] + t[r-n], 0 <= r < n.
    The identity itself is assumed (textbook); its premises are proved here for the two applications:
    same (num, den), den > 0, support of t, support of s, and s = periodised t."""
    (i1, a1, p1), (i2, a2, p2) = app1, app2
    d1, d2 = dom.defs[i1], dom.defs[i2]
    if d1["kind"] == "dtftz":
        (i1, a1, p1, d1), (i2, a2, p2, d2) = (i2, a2, p2, d2), (i1, a1, p1, d1)
    # now 1 = dtft (one-sided, s), 2 = dtftz (two-sided, t)
    sre, sim = inst_def(d1, p1, level)
    tre, tim = inst_def(d2, p2, level)
    num1, den1 = a1
    num2, den2 = a2
    if not (den1.eq(den2)):
        return None
    n = den1
    nint = period_int(n)
    j = BOUNDS[level]
    base = list(hyps) + [z3.ToReal(nint) == n]
    shift = lambda e: z3.substitute(e, (j, j - nint))
    bad = z3.Or(
        n <= 0,
        z3.And(z3.Or(j >= nint, j <= -nint), z3.Or(tre != 0, tim != 0)),                    # support of t
        z3.And(z3.Or(j < 0, j >= nint), z3.Or(sre != 0, sim != 0)),                         # support of s
        z3.And(j >= 0, j < nint, z3.Or(sre != tre + shift(tre), sim != tim + shift(tim))),  # s = periodised t
    )
    if not dom.quick_unsat(base + [bad], timeout_ms=4000):
        return None
    concl = []
    pairs = []
    for r in range(2):
        ta = d1["decls"][r](*(list(a1) + list(p1))) if r < len(d1["decls"]) else z3.RealVal(0)
        tb = d2["decls"][r](*(list(a2) + list(p2))) if r < len(d2["decls"]) else z3.RealVal(0)
        concl.append(ta == tb)
        pairs.append((tb, ta))
    args_eq = num1 == num2
    lemma = z3.Implies(args_eq, z3.And(concl))
    rew = []
    if num1.eq(num2) or dom.quick_unsat(list(hyps) + [z3.Not(args_eq)], timeout_ms=2500):
        rew = [(tb, ta) for (tb, ta) in pairs if not z3.is_rational_value(tb)]
    return lemma, rew


# ---------------------------------------------------------------------------------


def value_eq(a, b):
    """equality of two scalar values as a condition"""
    return V.s_eq(a, b)


def to_formula(c):
    if isinstance(c, bool):
        return z3.BoolVal(c)
    if isinstance(c, z3.ExprRef):
        return c
    return c.e


def concretise(dom, model, limit=64):
    """turn a z3 model into plain inputs for the native replay"""
    out = {}

    def num(e):
        v = model.eval(e, model_completion=True)
        if z3.is_int_value(v):
            return v.as_long()
        if z3.is_rational_value(v):
            return str(Fraction(v.numerator_as_long(), v.denominator_as_long()))
        if z3.is_algebraic_value(v):
            return str(v.approx(20))
        return str(v)
    for kind, name, info in dom.inputs:
        try:
            if kind in ("int", "real"):
                out[name] = num(info)
            elif kind == "enum":
                c, table = info
                out[name] = table.get(num(c), "?")
            elif kind == "array":
                n, dtype, fre, fim = info
                nn = n if isinstance(n, int) else num(n.e)
                if not isinstance(nn, int) or nn > limit or nn < 0:
                    out[name] = {"len": nn, "too_long": True}
                    continue
                vals = []
                for i in range(nn):
                    if fim is not None:
                        vals.append([num(fre(z3.IntVal(i))), num(fim(z3.IntVal(i)))])
                    else:
                        vals.append(num(fre(z3.IntVal(i))))
                out[name] = {"dtype": dtype, "values": vals}
            elif kind == "array2":
                r, c, dtype, fre, fim = info
                rr = r if isinstance(r, int) else num(r.e)
                cc = c if isinstance(c, int) else num(c.e)
                if rr * cc > limit * 4:
                    out[name] = {"shape": [rr, cc], "too_long": True}
                    continue
                rows = []
                for i in range(rr):
                    row = []
                    for j in range(cc):
                        if fim is not None:
                            row.append([num(fre(z3.IntVal(i), z3.IntVal(j))), num(fim(z3.IntVal(i), z3.IntVal(j)))])
                        else:
                            row.append(num(fre(z3.IntVal(i), z3.IntVal(j))))
                    rows.append(row)
                out[name] = {"dtype": dtype, "rows": rows}
        except Exception as e:  # pragma: no cover
            out[name] = {"error": str(e)}
    return out


def minimise_model(dom, formulas, timeout_ms):
    """look for a counter-model with small integer inputs (for a small replay)"""
    ints = [info for kind, name, info in dom.inputs if kind == "int"]
    for kind, name, info in dom.inputs:
        if kind == "array" and not isinstance(info[0], int):
            ints.append(info[0].e)
        if kind == "array2":
            for t in info[:2]:
                if not isinstance(t, int):
                    ints.append(t.e)
    if not ints:
        return None
    for bound in (4, 6, 9, 16, 40):
        extra = [z3.And(v <= bound, v >= -bound) for v in ints]
        r, m = dom.check(list(formulas) + extra, timeout_ms=timeout_ms)
        if r == "sat":
            return m
    return None


def _ite_conditions(dom, g, limit=4):
    """conditions of if-then-else terms in the goal that only talk about indices (no sequence
    functional inside): candidates for a case split"""
    out = []
    seen = set()
    stack = [g]
    while stack:
        x = stack.pop()
        i = x.get_id()
        if i in seen:
            continue
        seen.add(i)
        if z3.is_app_of(x, z3.Z3_OP_ITE):
            c = x.children()[0]
            if not find_apps(dom, [c]) and not any(c.eq(o) for o in out):
                out.append(c)
        stack.extend(x.children())
    # innermost conditions first is irrelevant; keep the simplest (smallest) ones
    out.sort(key=lambda c: len(str(c)))
    return out[:limit]


def _prove_core(dom, hyps, light, g, timeout_ms, use_cvc5):
    """one attempt: congruence lemmas + rewriting + solver.  returns (status, backend, model, formulas, lemmas)"""
    lem = []
    backend = "z3"
    if dom.defs:
        lem, rewrites = congruence_lemmas(dom, light, [g])
        if rewrites:
            for _ in range(4):
                g2 = z3.substitute(g, *rewrites)
                if g2.eq(g):
                    break
                g = g2
            if z3.is_true(z3.simplify(g)):
                return "unsat", "z3+congruence-rewriting", None, [], lem
    # field identities (after rewriting) are decided by exact normal form, independently of solver load
    from . import ringnf
    if ringnf.identity(g) is True:
        return "unsat", "ringnf(field identity)" + ("+congruence" if lem else ""), None, [], lem
    from . import elem
    el = elem.lemmas([g])
    if el:
        lem = lem + el
    formulas = hyps + lem + [z3.Not(g)]
    r, m = dom.check(formulas, timeout_ms=timeout_ms)
    if r == "unknown" and use_cvc5:
        r2 = cvc5_check(formulas, timeout_ms)
        if r2 == "unsat":
            r, backend = "unsat", "cvc5"
    return r, backend, m, formulas, lem


def _cheap_core(dom, light, g):
    """the solver-free half of _prove_core: congruence rewriting, then the exact field-identity test"""
    if dom.defs:
        _lem, rewrites = congruence_lemmas(dom, light, [g])
        if rewrites:
            for _ in range(4):
                g2 = z3.substitute(g, *rewrites)
                if g2.eq(g):
                    break
                g = g2
            if z3.is_true(z3.simplify(g)):
                return "congruence-rewriting"
    from . import ringnf
    if ringnf.identity(g) is True:
        return "ringnf"
    return None


def discharge(dom, name, hyps, goal, timeout_ms=10000, use_cvc5=True, kind="unbounded", extra=None, light_hyps=None):
    """prove hyps => goal"""
    t0 = time.time()
    if goal is True:
        return Result(name, "proved", 0.0, "trivial", kind=kind)
    g = to_formula(goal)
    hyps = [to_formula(h) for h in hyps]
    light = [to_formula(h) for h in light_hyps] if light_hyps is not None else hyps
    conds = _ite_conditions(dom, g) if dom.defs else []
    if conds and len(conds) <= 4:
        # first, without the solver's non-linear engine (whose time-out z3 does not always honour): every feasible case
        # closed by exact methods alone
        import itertools
        how = set()
        for vals in itertools.product([True, False], repeat=len(conds)):
            ch = [c if v else z3.Not(c) for c, v in zip(conds, vals)]
            if dom.quick_unsat(light + ch, timeout_ms=3000):
                continue
            gc = z3.simplify(z3.substitute(g, *[(c, z3.BoolVal(v)) for c, v in zip(conds, vals)]))
            h = "trivial" if z3.is_true(gc) else _cheap_core(dom, light + ch, gc)
            if h is None:
                how = None
                break
            how.add(h)
        if how is not None:
            return Result(name, "proved", time.time() - t0, "case-split(%d)+%s" % (len(conds), "+".join(sorted(how)) or "infeasible"), kind=kind)
    r, backend, m, formulas, lem = _prove_core(dom, hyps, light, g, min(timeout_ms, 3000) if conds else timeout_ms,
                                               use_cvc5 and not conds)
    if r != "unsat" and dom.defs:
        # case split on index conditions so that each case has syntactically comparable arguments
        if conds:
            import itertools
            all_ok = True
            worst = None
            for vals in itertools.product([True, False], repeat=len(conds)):
                ch = [c if v else z3.Not(c) for c, v in zip(conds, vals)]
                if dom.quick_unsat(light + ch, timeout_ms=3000):
                    continue        # infeasible case
                gc = z3.simplify(z3.substitute(g, *[(c, z3.BoolVal(v)) for c, v in zip(conds, vals)]))
                rc, bc, mc, fc, lc = _prove_core(dom, hyps + ch, light + ch, gc, timeout_ms, use_cvc5)
                if rc != "unsat":
                    all_ok = False
                    worst = (rc, bc, mc, fc, lc)
                    if rc == "sat":
                        break
            if all_ok:
                return Result(name, "proved", time.time() - t0, "z3+case-split(%d)" % len(conds), kind=kind)
            if worst is not None:
                r, backend, m, formulas, lem = worst
    dt = time.time() - t0
    if r == "unsat":
        if backend in ("z3", "cvc5") and getattr(dom, "div_facts", None):
            # vacuity guard for the `no division by zero` hypotheses: the hypotheses used must be satisfiable --
            # a divisor that MUST vanish would make them contradictory and everything provable
            used = dom._prep(formulas[:-1] + [g])
            divs = set(f.get_id() for f in dom.div_facts)
            if any(f.get_id() in divs for f in used):
                rv, _ = dom.check(formulas[:-1] + [g], timeout_ms=3000)
                if rv == "unsat":
                    rv2, _ = dom.check([f for f in formulas[:-1] if f.get_id() not in divs] + [g], timeout_ms=3000)
                    if rv2 != "unsat":
                        return Result(name, "refuted", time.time() - t0, backend, model=None, kind=kind,
                                      detail="a divisor occurring in this obligation is zero on every admissible input "
                                             "(non-finite result); the no-division-by-zero hypothesis is contradictory")
        return Result(name, "proved", dt, backend, kind=kind)
    if r == "sat":
        mm = minimise_model(dom, formulas, min(timeout_ms, 4000)) or m
        model = concretise(dom, mm)
        if extra:
            for k, e in extra.items():
                try:
                    model["@" + k] = str(mm.eval(zconst(e), model_completion=True)) if not isinstance(e, Cx) else \
                        [str(mm.eval(zconst(e.re), model_completion=True)), str(mm.eval(zconst(e.im), model_completion=True))]
                except Exception:
                    pass
        abstract = bool(find_apps(dom, [g] + hyps))
        return Result(name, "refuted", dt, backend, model=model,
                      detail="counter-model%s" % (" (formula contains uninterpreted Sum/DTFT symbols: "
                                                  "model must be confirmed by replay)" if abstract else ""), kind=kind)
    return Result(name, "unknown", dt, backend, detail=str(m), kind=kind)


def cvc5_check(formulas, timeout_ms):
    """second opinion through the SMT-LIB text of the query"""
    import subprocess
    import tempfile
    import os
    s = z3.Solver()
    for f in formulas:
        s.add(f)
    text = "(set-logic ALL)\n" + s.to_smt2()
    fd, path = tempfile.mkstemp(suffix=".smt2")
    try:
        with os.fdopen(fd, "w") as fh:
            fh.write(text)
        try:
            out = subprocess.run(["/usr/bin/cvc5", "--tlimit=%d" % timeout_ms, path], capture_output=True,
                                 text=True, timeout=timeout_ms / 1000.0 + 5)
        except Exception:
            return "unknown"
        first = out.stdout.strip().split("\n")[0] if out.stdout.strip() else ""
        if first in ("unsat", "sat"):
            return first
        return "unknown"
    finally:
        try:
            os.unlink(path)
        except OSError:
            pass
