"""Engine E1: value domain of z3 terms (Int, Real; complex = pair of Real; arrays =
(length term, index -> element term)).  Obligations are validity queries
``pre /\\ path => post`` at symbolic lengths and skolem indices.
"""
from fractions import Fraction
import itertools
import z3

from . import values as V
from .values import Cx, Arr, Arr2, Unsupported, EngineError


def zconst(v):
    if isinstance(v, bool):
        return z3.BoolVal(v)
    if isinstance(v, int):
        return z3.IntVal(v)
    if isinstance(v, Fraction):
        return z3.RealVal(str(v))
    if isinstance(v, (R, B)):
        return v.e
    raise EngineError("cannot convert %r to z3" % (v,))


def lower(e):
    """z3 numeral -> Python number, else wrap"""
    if z3.is_int_value(e):
        return e.as_long()
    if z3.is_rational_value(e):
        return Fraction(e.numerator_as_long(), e.denominator_as_long())
    return R(e)


def lowerb(e):
    if z3.is_true(e):
        return True
    if z3.is_false(e):
        return False
    return B(e)


def _real(e):
    if e.is_int():
        if z3.is_int_value(e):
            return z3.RealVal(e.as_long())
        return z3.ToReal(e)
    return e


class R:
    """symbolic real / integer scalar"""
    __slots__ = ("e",)

    def __init__(self, e):
        self.e = e

    def is_int(self):
        return self.e.is_int()

    def _coerce(self, o):
        if isinstance(o, R):
            return o.e
        if isinstance(o, bool):
            return z3.IntVal(int(o))
        if isinstance(o, int):
            return z3.IntVal(o)
        if isinstance(o, Fraction):
            return z3.RealVal(str(o))
        return None

    def __add__(self, o):
        oe = self._coerce(o)
        if oe is None:
            return NotImplemented
        if isinstance(o, (int, Fraction)) and not isinstance(o, bool) and o == 0 and (isinstance(o, int) or not self.e.is_int()):
            return self
        return lower(self.e + oe)

    __radd__ = __add__

    def __sub__(self, o):
        oe = self._coerce(o)
        if oe is None:
            return NotImplemented
        if isinstance(o, int) and not isinstance(o, bool) and o == 0:
            return self
        return lower(self.e - oe)

    def __rsub__(self, o):
        oe = self._coerce(o)
        if oe is None:
            return NotImplemented
        return lower(oe - self.e)

    def __mul__(self, o):
        oe = self._coerce(o)
        if oe is None:
            return NotImplemented
        if isinstance(o, (int, Fraction)) and not isinstance(o, bool):
            if o == 1 and (isinstance(o, int) or not self.e.is_int()):
                return self
            if o == 0:
                return 0 if (isinstance(o, int) and self.e.is_int()) else Fraction(0)
        return lower(self.e * oe)

    __rmul__ = __mul__

    def __neg__(self):
        return lower(-self.e)

    def __pos__(self):
        return self

    def __truediv__(self, o):
        oe = self._coerce(o)
        if oe is None:
            return NotImplemented
        return V.dom().div(self, o)

    def __rtruediv__(self, o):
        oe = self._coerce(o)
        if oe is None:
            return NotImplemented
        return V.dom().div(o, self)

    def __floordiv__(self, o):
        return V.dom().floordiv(self, o)

    def __rfloordiv__(self, o):
        return V.dom().floordiv(o, self)

    def __mod__(self, o):
        return V.dom().mod(self, o)

    def __rmod__(self, o):
        return V.dom().mod(o, self)

    def __pow__(self, n):
        return V.s_pow(self, n)

    def __abs__(self):
        return V.dom().abs(self)

    def __eq__(self, o):
        return V.s_eq(self, o) if V.is_num(o) else False

    def __ne__(self, o):
        return V.b_not(self.__eq__(o))

    def __lt__(self, o):
        return V.s_cmp("<", self, o)

    def __le__(self, o):
        return V.s_cmp("<=", self, o)

    def __gt__(self, o):
        return V.s_cmp(">", self, o)

    def __ge__(self, o):
        return V.s_cmp(">=", self, o)

    def __hash__(self):
        return self.e.hash()

    def __bool__(self):
        raise EngineError("symbolic scalar used as a Python bool: %s" % self.e)

    def conjugate(self):
        return self

    conj = conjugate

    @property
    def real(self):
        return self

    @property
    def imag(self):
        return Fraction(0)

    def transpose(self):
        return self

    def copy(self):
        return self

    def __repr__(self):
        s = str(self.e)
        return "R(%s)" % (s if len(s) < 200 else s[:200] + "...")


class B:
    __slots__ = ("e",)

    def __init__(self, e):
        self.e = e

    def __bool__(self):
        raise EngineError("symbolic condition used as a Python bool: %s" % self.e)

    def __repr__(self):
        s = str(self.e)
        return "B(%s)" % (s if len(s) < 200 else s[:200] + "...")


import os as _os
SCALE = float(_os.environ.get("PYVC_TIMEOUT_SCALE", "1"))


class DefSym:
    """a symbol with a definition the solver does not see (Sum, DTFT, ...)"""

    def __init__(self, kind, ident, params, data):
        self.kind = kind
        self.ident = ident
        self.params = params      # z3 consts the definition is parametric in (loop variables)
        self.data = data


class Z3Dom:
    name = "smt"
    materialise_limit = 12
    expand_limit = 12

    def __init__(self):
        self.reset_run()
        self.timeout_ms = 10000
        self.stats = {"queries": 0, "solver_s": 0.0}

    # ---- per-run state
    def reset_run(self):
        self.counters = {}
        self.facts = []          # axiom instances valid on every path
        self.sqrt_of = {}
        self.inputs = []         # declared inputs for model concretisation
        self.defs = {}           # ident -> definition of a sequence functional
        self.decl_index = {}     # z3 decl name -> (ident, component)
        self.probe_stack = []
        self.known_cache = {}
        self.str_codes = {}
        self.divisors = []
        self.div_index = {}
        self.div_facts = []
        self.ext_registry = []
        self.fact_trig = []
        self.loop_params = []    # active summarisation variables
        self.notes = []
        self.pc_getter = lambda: []
        self.brancher = None

    def fresh_name(self, prefix):
        k = self.counters.get(prefix, 0)
        self.counters[prefix] = k + 1
        return "%s!%d" % (prefix, k)

    def fresh_int(self, prefix="i"):
        return R(z3.Int(self.fresh_name(prefix)))

    def fresh_real(self, prefix="r"):
        return R(z3.Real(self.fresh_name(prefix)))

    def named_int(self, name):
        return R(z3.Int(name))

    def named_real(self, name):
        return R(z3.Real(name))

    def note_cast(self, what):
        if what not in self.notes:
            self.notes.append(what)

    # ---- domain interface used by values.py
    def is_scalar(self, v):
        return isinstance(v, R)

    def is_int(self, v):
        return isinstance(v, R) and v.e.is_int()

    def div(self, a, b):
        be = _real(zconst(b))
        if not V.is_conc(b):
            self.note_divisor(be)
        return lower(_real(zconst(a)) / be)

    def note_divisor(self, be):
        """every symbolic divisor met on the path; equalities are claimed on executions that do
        not divide by zero (hypothesis), and a path on which a divisor MUST vanish is reported"""
        key = be.get_id()
        hit = self.div_index.get(key)
        if hit is not None and hit.eq(be):
            return
        self.div_index[key] = be
        self.divisors.append(be)
        # hypothesis `no division by zero`, handed to a query only when the divisor occurs in it
        f = be != 0
        self.div_facts.append(f)
        self.add_fact(f, trigger=be)

    def to_real(self, v):
        if isinstance(v, R):
            return lower(_real(v.e))
        return v

    def trunc(self, v):
        e = zconst(v)
        if e.is_int():
            return v
        q = _int_quotient(e)
        if q is not None:
            a, c = q            # e == a / c with a: Int term, c: positive int
            k = self.known(B(a >= 0))
            if k is True:
                return lower(a / c)
            if k is False:
                return lower(-((-a) / c))
            return lower(z3.If(a >= 0, a / c, -((-a) / c)))
        k = self.known(B(e >= 0))
        if k is True:
            return lower(z3.ToInt(e))
        if k is False:
            return lower(-z3.ToInt(-e))
        return lower(z3.If(e >= 0, z3.ToInt(e), -z3.ToInt(-e)))

    def floor(self, v):
        e = zconst(v)
        if e.is_int():
            return v
        q = _int_quotient(e)
        if q is not None:
            a, c = q
            return lower(a / c)
        return lower(z3.ToInt(e))

    def round_half_even(self, v):
        """Python 3 round(v) with one argument: the nearest integer, ties to the even neighbour"""
        e = zconst(v)
        if e.is_int():
            return v
        f = z3.ToInt(e)                                   # floor
        d = e - z3.ToReal(f)
        half = z3.RealVal("1/2")
        r = z3.If(d < half, f, z3.If(d > half, f + 1, z3.If(f % 2 == 0, f, f + 1)))
        return lower(r)

    def floordiv(self, a, b):
        ea, eb = zconst(a), zconst(b)
        if ea.is_int() and eb.is_int():
            if isinstance(b, int):
                if b <= 0:
                    raise Unsupported("floor division by non-positive constant")
            else:
                self.require(V.s_cmp(">", b, 0), "floor division: divisor must be positive")
            return lower(ea / eb)
        return lower(z3.ToReal(z3.ToInt(_real(ea) / _real(eb))))

    def mod(self, a, b):
        ea, eb = zconst(a), zconst(b)
        if ea.is_int() and eb.is_int():
            if isinstance(b, int):
                if b <= 0:
                    raise Unsupported("modulo by non-positive constant")
            else:
                self.require(V.s_cmp(">", b, 0), "modulo: divisor must be positive")
            return lower(ea % eb)
        raise Unsupported("modulo on reals")

    def cmp(self, op, a, b):
        ea, eb = zconst(a), zconst(b)
        if op == "==":
            if ea.eq(eb):
                return True
            return lowerb(ea == eb)
        if op == "<":
            return lowerb(ea < eb)
        if op == "<=":
            return lowerb(ea <= eb)
        if op == ">":
            return lowerb(ea > eb)
        if op == ">=":
            return lowerb(ea >= eb)
        raise EngineError(op)

    def b_and(self, a, b):
        return lowerb(z3.And(zconst(a), zconst(b)))

    def b_or(self, a, b):
        return lowerb(z3.Or(zconst(a), zconst(b)))

    def b_not(self, a):
        return lowerb(z3.Not(zconst(a)))

    def ite(self, c, a, b):
        ea, eb = zconst(a), zconst(b)
        if ea.is_int() != eb.is_int():
            ea, eb = _real(ea), _real(eb)
        if ea.eq(eb):
            return a
        return lower(z3.If(zconst(c), ea, eb))

    def abs(self, a):
        if isinstance(a, Cx):
            return self.sqrt(a.re * a.re + a.im * a.im)
        e = zconst(a)
        return lower(z3.If(e >= 0, e, -e))

    def uf(self, name, arity=1, sort="real"):
        dom_s = [z3.RealSort()] * arity
        return z3.Function(name, *(dom_s + [z3.RealSort()]))

    def sqrt(self, t):
        if V.is_conc(t):
            if t == 0:
                return Fraction(0)
            if t == 1:
                return Fraction(1)
        if isinstance(t, Cx):
            # principal complex square root: uninterpreted (nothing in the statements relies on it)
            keys = [_real(zconst(t.re)), _real(zconst(t.im))]
            return Cx(self.opaque_real("csqrt_re", keys), self.opaque_real("csqrt_im", keys))
        te = _real(zconst(t))
        s = self.uf("sqrt")(te)
        key = s.get_id()
        hit = self.sqrt_of.get(key)
        if hit is None or not hit[0].eq(s):
            self.sqrt_of[key] = (s, t)     # keeps the term alive (z3 re-uses AST ids)
            self.add_fact(z3.Implies(te >= 0, z3.And(s * s == te, s >= 0)), trigger=s)
        return R(s)

    def int_power(self, a, k, float_exp=False):
        if isinstance(a, R) and k == 2:
            hit = self.sqrt_of.get(a.e.get_id())
            if hit is not None and hit[0].eq(a.e):
                return V.to_float(hit[1])
        if float_exp and isinstance(a, R) and a.e.is_int():
            a = lower(z3.ToReal(a.e))
        if k >= 0:
            r = 1
            for _ in range(k):
                r = r * a
            if k == 0 and float_exp:
                r = Fraction(1)
            return r
        return V.s_div(1, self.int_power(a, -k, float_exp))

    def power(self, a, n):
        # general power: uninterpreted, with pow2 special-cased for 2**n
        if V.is_conc(a) and a == 2 and (isinstance(n, int) or (isinstance(n, R) and n.e.is_int())):
            f = z3.Function("pow2", z3.IntSort(), z3.IntSort())
            ne = zconst(n)
            r = f(ne)
            self.facts.append(z3.Implies(ne >= 0, r >= 1))
            return R(r)
        f = z3.Function("pow", z3.RealSort(), z3.RealSort(), z3.RealSort())
        return R(f(_real(zconst(a)), _real(zconst(n))))

    def elem(self, fname, x):
        """elementary function as an uninterpreted symbol (assumption A-ELEM)"""
        if isinstance(x, Cx):
            raise Unsupported("%s of complex" % fname)
        t = _real(zconst(x))
        a = self.uf(fname)(t)
        # range facts (A-ELEM), handed to a query only when the application occurs in it
        if fname in ("cos", "sin", "sinc"):
            self.add_fact(z3.And(a >= -1, a <= 1), trigger=a)
            if fname == "sin":
                hp = z3.Real("pi") / 2
                self.pi()
                self.add_fact(z3.Implies(z3.And(t > -hp, t < hp), z3.And(a > -1, a < 1)), trigger=a)
        elif fname == "tanh":
            self.add_fact(z3.And(a > -1, a < 1), trigger=a)
        elif fname == "exp":
            self.add_fact(a > 0, trigger=a)
        elif fname == "arcsin":
            hp = z3.Real("pi") / 2
            self.pi()
            self.add_fact(z3.Implies(z3.And(t >= -1, t <= 1), z3.And(a >= -hp, a <= hp)), trigger=a)
            self.add_fact(z3.Implies(z3.And(t > -1, t < 1), z3.And(a > -hp, a < hp)), trigger=a)
        return R(a)

    def pi(self):
        p = z3.Real("pi")
        f = z3.And(p > z3.RealVal("3.1415926"), p < z3.RealVal("3.1415927"))
        if not any(f.eq(x) for x in self.facts):
            self.facts.append(f)
        return R(p)

    def out_of_range(self, dtype):
        """value read outside an array's support: unconstrained"""
        if dtype == "complex":
            return Cx(self.fresh_real("oor"), self.fresh_real("oor"))
        if dtype == "int":
            return self.fresh_int("oor")
        if dtype == "bool":
            return B(z3.Bool(self.fresh_name("oor")))
        return self.fresh_real("oor")

    # ---- finite enumerations (None / bools / strings) as integer codes
    def code_of(self, v):
        if v is None:
            return 0
        if v is False:
            return 1
        if v is True:
            return 2
        if isinstance(v, str):
            if v not in self.str_codes:
                self.str_codes[v] = 10 + len(self.str_codes)
            return self.str_codes[v]
        raise Unsupported("no enumeration code for %r" % (v,))

    def enum(self, name, choices):
        """a symbolic element of ``choices``"""
        from .values import Enum
        c = z3.Int(name)
        codes = [self.code_of(x) for x in choices]
        self.inputs.append(("enum", name, (c, dict((self.code_of(x), x) for x in choices))))
        return Enum(R(c), name), z3.Or([c == k for k in codes])

    # ---- opaque (uninterpreted) functions of arbitrary argument lists
    def key_terms(self, v):
        """z3 terms identifying an argument of an opaque function"""
        from .values import Enum
        if v is None or isinstance(v, (bool, str)):
            return [z3.RealVal(self.code_of(v))]
        if isinstance(v, Enum):
            return [_real(zconst(v.code))]
        if isinstance(v, (int, Fraction, R)):
            return [_real(zconst(v))]
        if isinstance(v, Cx):
            return [_real(zconst(v.re)), _real(zconst(v.im))]
        if isinstance(v, (Arr, Arr2)):
            ident = v.ident if v.ident is not None else self.ext_identity(v)
            return [_real(zconst(ident))]
        if isinstance(v, (tuple, list)):
            out = []
            for x in v:
                out += self.key_terms(x)
            return out
        if isinstance(v, dict):
            out = []
            for k in sorted(v):
                out += self.key_terms(v[k])
            return out
        raise Unsupported("cannot key %r for an opaque function" % type(v).__name__)

    def opaque_real(self, name, keys, extra=()):
        ks = list(keys) + [_real(zconst(e)) for e in extra]
        f = z3.Function(name, *([z3.RealSort()] * len(ks) + [z3.RealSort()]))
        return R(f(*ks)) if ks else R(z3.Real(name))

    def opaque_int(self, name, keys):
        f = z3.Function(name, *([z3.RealSort()] * len(keys) + [z3.IntSort()]))
        return R(f(*keys)) if keys else R(z3.Int(name))

    def opaque_array(self, name, keys, n, dtype="float"):
        """array whose entries are an uninterpreted function of (keys, index)"""
        if dtype == "complex":
            fn = lambda i: Cx(self.opaque_real(name + "_re", keys, (i,)), self.opaque_real(name + "_im", keys, (i,)))
        else:
            fn = lambda i: self.opaque_real(name, keys, (i,))
        a = Arr(n, fn=fn, dtype=dtype)
        a.ident = self.opaque_int(name + "_id", keys)
        return a

    def opaque_array2(self, name, keys, r, c, dtype="float"):
        if dtype == "complex":
            fn = lambda i, j: Cx(self.opaque_real(name + "_re", keys, (i, j)), self.opaque_real(name + "_im", keys, (i, j)))
        else:
            fn = lambda i, j: self.opaque_real(name, keys, (i, j))
        a = Arr2(r, c, fn=fn, dtype=dtype)
        a.ident = self.opaque_int(name + "_id", keys)
        return a

    def ext_identity(self, a):
        """identity of an array *value*: arrays that are provably equal element-wise under the
        current path condition get the same identity (used to key opaque functions of computed arrays)"""
        if a.ident is not None:
            return a.ident
        i, j = z3.Int("ext!i"), z3.Int("ext!j")
        if isinstance(a, Arr2):
            probe = a.at(R(i), R(j))
            shape = (a.r, a.c)
        else:
            probe = a.at(R(i))
            shape = (a.n,)
        pre, pim = (probe.re, probe.im) if isinstance(probe, Cx) else (probe, Fraction(0))
        pre, pim = _real(zconst(pre)), _real(zconst(pim))
        for (shape2, re2, im2, ident) in self.ext_registry:
            if len(shape2) != len(shape):
                continue
            same_shape = z3.And([zconst(x) == zconst(y) for x, y in zip(shape, shape2)])
            inr = z3.And([z3.And(v >= 0, v < zconst(d)) for v, d in zip((i, j), shape)])
            if pre.eq(re2) and pim.eq(im2):
                ok = self.quick_unsat(list(self.pc_getter()) + self.facts + [z3.Not(same_shape)])
            else:
                ok = self.quick_unsat(list(self.pc_getter()) + self.facts +
                                      [z3.Or(z3.Not(same_shape), z3.And(inr, z3.Or(pre != re2, pim != im2)))])
            if ok:
                return ident
        ident = R(z3.Int(self.fresh_name("extid")))
        self.ext_registry.append((shape, pre, pim, ident))
        return ident

    def known(self, cond):
        if isinstance(cond, bool):
            return cond
        ce = cond.e
        key = ce.get_id()
        pc = list(self.pc_getter())
        ck = (key, len(pc))
        hit = self.known_cache.get(ck)
        if hit is not None and hit[0].eq(ce):
            return hit[1]
        base = pc + self.facts
        r = None
        if self.quick_unsat(base + [z3.Not(ce)], timeout_ms=2000):
            r = True
        elif self.quick_unsat(base + [ce], timeout_ms=2000):
            r = False
        self.known_cache[ck] = (ce, r)   # keep the term alive: z3 re-uses AST ids
        return r

    # ---- requirements that numpy would check at run time
    def require_eq(self, a, b, msg):
        c = V.s_eq(a, b)
        self.require(c, msg, exc="ValueError")

    def require(self, cond, msg, exc=None):
        if cond is True:
            return
        if self.brancher is None:
            if cond is False:
                raise Unsupported("requirement fails: " + msg)
            return
        self.brancher(cond, msg, exc)

    # ---- inputs (for counter-model concretisation)
    def input_int(self, name, lo=None, hi=None):
        v = z3.Int(name)
        self.inputs.append(("int", name, v))
        return R(v)

    def input_real(self, name):
        v = z3.Real(name)
        self.inputs.append(("real", name, v))
        return R(v)

    def input_array(self, name, n, dtype="float"):
        """array with symbolic contents name_re(i) [+ i*name_im(i)] and length n"""
        fre = z3.Function(name + "_re", z3.IntSort(), z3.RealSort())
        if dtype == "complex":
            fim = z3.Function(name + "_im", z3.IntSort(), z3.RealSort())
            fn = lambda i: Cx(R(fre(zconst(i))), R(fim(zconst(i))))
        elif dtype == "int":
            fint = z3.Function(name + "_int", z3.IntSort(), z3.IntSort())
            fn = lambda i: R(fint(zconst(i)))
            fre = fint
            fim = None
        else:
            fim = None
            fn = lambda i: R(fre(zconst(i)))
        self.inputs.append(("array", name, (n, dtype, fre, fim)))
        if isinstance(n, int) and n <= self.materialise_limit:
            a = Arr(n, items=[fn(i) for i in range(n)], dtype=dtype)
        else:
            a = Arr(n, fn=fn, dtype=dtype)
        a.ident = R(z3.Int(name + "!id"))
        return a

    def input_array2(self, name, r, c, dtype="float"):
        fre = z3.Function(name + "_re", z3.IntSort(), z3.IntSort(), z3.RealSort())
        if dtype == "complex":
            fim = z3.Function(name + "_im", z3.IntSort(), z3.IntSort(), z3.RealSort())
            fn = lambda i, j: Cx(R(fre(zconst(i), zconst(j))), R(fim(zconst(i), zconst(j))))
        else:
            fim = None
            fn = lambda i, j: R(fre(zconst(i), zconst(j)))
        self.inputs.append(("array2", name, (r, c, dtype, fre, fim)))
        return Arr2(r, c, fn=fn, dtype=dtype)

    # ---- functionals of sequences (Sum, DTFT): uninterpreted, congruence at proof time
    def seq_functional(self, kind, seq_fn, args=(), meta=None):
        """z3 terms standing for a functional of the whole (zero-extended) sequence
        ``seq_fn`` (index term -> scalar), e.g. its total or its DTFT at frequency
        ``args[0]``.  The solver sees an uninterpreted symbol; the *definition* (the
        sequence as a term in a probe index) is kept in ``self.defs`` and the generator
        itself emits congruence/extensionality lemmas between applications when an
        obligation is discharged (oblig.congruence_lemmas).  Sequences that depend on a
        summarised loop variable become functions of that variable.
        """
        depth = len(self.probe_stack)
        j = z3.Int("seq!j%d" % depth)
        self.probe_stack.append(R(j))
        try:
            probe = seq_fn(R(j))
        finally:
            self.probe_stack.pop()
        iscx = isinstance(probe, Cx)
        pre, pim = (probe.re, probe.im) if iscx else (probe, Fraction(0))
        pre, pim = _real(zconst(pre)), _real(zconst(pim))
        used = set()
        _collect_consts(pre, used)
        _collect_consts(pim, used)
        params = [p.e for p in (self.loop_params + self.probe_stack) if p.e.get_id() in used]
        ident = self.fresh_name(kind)
        argse = [_real(zconst(a)) for a in args]
        sorts = [z3.RealSort()] * len(argse) + [z3.IntSort()] * len(params)
        nres = 2 if iscx else 1
        decls = [z3.Function("%s#%d" % (ident, r), *(sorts + [z3.RealSort()])) for r in range(nres)]
        self.defs[ident] = {"kind": kind, "j": j, "params": params, "re": pre, "im": pim,
                            "nargs": len(argse), "decls": decls, "complex": iscx, "meta": meta}
        for r, dcl in enumerate(decls):
            self.decl_index[dcl.name()] = (ident, r)
        apps = [R(dcl(*(argse + params))) if (argse or params) else R(dcl()) for dcl in decls]
        if iscx:
            return Cx(apps[0], apps[1])
        return apps[0]

    def sum(self, lo, hi, body):
        """sum_{j=lo}^{hi-1} body(j)"""
        if V.is_conc(lo) and V.is_conc(hi) and hi - lo <= self.expand_limit:
            r = 0
            for j in range(int(lo), int(hi)):
                r = r + body(j)
            return r
        def masked(j):
            v = body(j)
            zero = Cx(Fraction(0), Fraction(0)) if isinstance(v, Cx) else Fraction(0)
            return V.s_ite(V.b_and(V.s_cmp(">=", j, lo), V.s_cmp("<", j, hi)), v, zero)
        return self.seq_functional("total", masked, meta={"lo": zconst(lo), "hi": zconst(hi)})

    def forall_index(self, n, body):
        """for all k in [0, n): body(k)   (a quantified Boolean term; used for whole-array comparisons)"""
        self._fa = getattr(self, "_fa", 0) + 1
        k = z3.Int("fa!k%d" % self._fa)
        from .oblig import to_formula
        b = to_formula(body(R(k)))
        return B(z3.ForAll([k], z3.Implies(z3.And(k >= 0, k < zconst(n)), b)))

    def dtft(self, seq_fn, length, num, den):
        """DTFT(s, f) = sum_j s[j] exp(-2 pi i f j) of the zero-extended sequence at f = num/den
        (kept as a pair of integers so that grid reasoning stays linear)"""
        return self.seq_functional("dtft", seq_fn, args=(num, den))

    def dtftz(self, seq_fn, num, den):
        """two-sided DTFT  sum_{j in Z} t[j] exp(-2 pi i (num/den) j)  of a finitely supported sequence"""
        return self.seq_functional("dtftz", seq_fn, args=(num, den))

    # ---- solver access
    def solver(self, timeout_ms=None):
        s = z3.Solver()
        s.set("timeout", timeout_ms or self.timeout_ms)
        return s

    def add_fact(self, f, trigger=None):
        """an axiom instance; with a trigger term it is only handed to the solver when that term
        occurs in the query (keeps unrelated non-linear facts out of linear queries)"""
        self.facts.append(f)
        if trigger is not None:
            self.fact_trig.append((f, trigger))

    def _prep(self, formulas):
        if not self.fact_trig:
            return formulas
        trig = {}
        for f, t in self.fact_trig:
            trig[f.get_id()] = (f, t)
        plain, cond = [], []
        for f in formulas:
            hit = trig.get(f.get_id())
            if hit is not None and hit[0].eq(f):
                cond.append(hit)
            else:
                plain.append(f)
        if not cond:
            return formulas
        seen = set()

        def visit(e):
            stack = [e]
            while stack:
                x = stack.pop()
                i = x.get_id()
                if i in seen:
                    continue
                seen.add(i)
                stack.extend(x.children())
        for f in plain:
            visit(f)
        out = list(plain)
        changed = True
        pending = list(cond)
        while changed and pending:
            changed = False
            rest = []
            for (f, t) in pending:
                if t.get_id() in seen:
                    out.append(f)
                    visit(f)
                    changed = True
                else:
                    rest.append((f, t))
            pending = rest
        return out

    def _check(self, s, timeout_ms):
        """check() with a watchdog: z3's own timeout is not honoured inside some tactics"""
        import threading
        timeout_ms = int(timeout_ms * SCALE)
        s.set("timeout", timeout_ms)
        ctx = z3.main_ctx()
        done = threading.Event()

        def watchdog():
            # one interrupt can be lost (the cancel flag is reset when a new tactic starts, and some phases poll it
            # rarely): keep interrupting until the call has returned
            if done.wait(timeout_ms / 1000.0 + 1.0):
                return
            while not done.is_set():
                ctx.interrupt()
                if done.wait(0.5):
                    return
        th = threading.Thread(target=watchdog, daemon=True)
        th.start()
        try:
            try:
                return s.check()
            except z3.Z3Exception:
                return z3.unknown
        finally:
            done.set()

    def quick_unsat(self, formulas, timeout_ms=3000):
        import time, os
        s = self.solver(timeout_ms)
        for f in self._prep(formulas):
            s.add(f)
        t = time.time()
        r = self._check(s, timeout_ms)
        if os.environ.get("PYVC_TRACE") and time.time() - t > 0.5:
            print("  [quick_unsat %.2fs -> %s, %d formulas]" % (time.time() - t, r, len(formulas)))
        self.stats["queries"] += 1
        self.stats["solver_s"] += time.time() - t
        return r == z3.unsat

    def check(self, formulas, timeout_ms=None):
        import time, os
        s = self.solver(timeout_ms)
        for f in self._prep(formulas):
            s.add(f)
        t = time.time()
        r = self._check(s, timeout_ms or self.timeout_ms)
        if os.environ.get("PYVC_TRACE") and time.time() - t > 0.5:
            print("  [check %.2fs -> %s, %d formulas]" % (time.time() - t, r, len(formulas)))
        self.stats["queries"] += 1
        self.stats["solver_s"] += time.time() - t
        if r == z3.sat:
            return "sat", s.model()
        if r == z3.unsat:
            return "unsat", None
        try:
            why = s.reason_unknown()
        except Exception:
            why = "interrupted"
        return "unknown", why


def _int_quotient(e):
    """recognise  ToReal(a)/c  [+ d]  (a: Int term, c: positive integer numeral, d: rational numeral with
    d*c integral) and return (a + d*c, c): int() / floor() of such a term is an integer division,
    which keeps index arithmetic inside linear integer arithmetic"""
    d = Fraction(0)
    if z3.is_add(e) and len(e.children()) == 2:
        x, y = e.children()
        if z3.is_rational_value(y):
            e, d = x, Fraction(y.numerator_as_long(), y.denominator_as_long())
        elif z3.is_rational_value(x):
            e, d = y, Fraction(x.numerator_as_long(), x.denominator_as_long())
        else:
            return None
    if z3.is_div(e):
        num, den = e.children()
        if z3.is_rational_value(den) and den.denominator_as_long() == 1 and den.numerator_as_long() > 0 \
                and z3.is_app_of(num, z3.Z3_OP_TO_REAL):
            c = den.numerator_as_long()
            a = num.children()[0]
            dc = d * c
            if dc.denominator == 1:
                return (a + int(dc)) if dc != 0 else a, c
    return None


def _collect_consts(e, out):
    stack = [e]
    seen = set()
    while stack:
        x = stack.pop()
        i = x.get_id()
        if i in seen:
            continue
        seen.add(i)
        if z3.is_const(x) and x.decl().kind() == z3.Z3_OP_UNINTERPRETED:
            out.add(i)
        stack.extend(x.children())


def subst(v, pairs):
    """substitute z3 constants inside a value (scalar / Cx)"""
    if isinstance(v, Cx):
        return Cx(subst(v.re, pairs), subst(v.im, pairs))
    if isinstance(v, R):
        return lower(z3.substitute(v.e, *[(a.e, zconst(b)) for a, b in pairs]))
    if isinstance(v, B):
        return lowerb(z3.substitute(v.e, *[(a.e, zconst(b)) for a, b in pairs]))
    return v
