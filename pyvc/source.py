"""Ingestion of the real source.

Every run re-reads /repo/src/spectrum/*.py with ``ast.parse``.  Nothing is transcribed
by hand: functions, methods, ``property()`` objects, class hierarchy, module level tables
and default arguments all come from the AST of the file as it is on disk *now*.

What ingestion drops (reported in every evidence file): docstrings, comments,
``logging.*`` / ``print`` calls, plotting methods, string formatting used for messages.
"""
import ast
import hashlib
import os

REPO = os.environ.get("SPECTRUM_REPO", "/repo")
SRC = os.path.join(REPO, "src", "spectrum")

DROPPED = [
    "docstrings and comments",
    "logging.* / print / warnings calls (evaluated as no-ops)",
    "plotting methods (plot*, pylab) are never entered",
    "string formatting that only builds messages",
    "decorators other than @property / @x.setter / @x.getter (none occur in the library) are ignored",
]


class FuncInfo:
    def __init__(self, node, module, cls=None):
        self.node = node
        self.module = module
        self.cls = cls
        self.name = node.name
        self.is_generator = any(isinstance(n, (ast.Yield, ast.YieldFrom)) for n in ast.walk(node))

    @property
    def qualname(self):
        if self.cls is not None:
            return "%s.%s.%s" % (self.module.name, self.cls.name, self.name)
        return "%s.%s" % (self.module.name, self.name)

    def __repr__(self):
        return "<func %s>" % self.qualname


class PropertyInfo:
    """a ``name = property(fget=..., fset=...)`` class attribute"""

    def __init__(self, name, fget, fset):
        self.name = name
        self.fget = fget
        self.fset = fset


class ClassInfo:
    def __init__(self, node, module):
        self.node = node
        self.module = module
        self.name = node.name
        self.base_exprs = node.bases
        self.methods = {}
        self.props = {}
        self.attr_nodes = {}  # plain class attributes: name -> ast expr
        for st in node.body:
            if isinstance(st, ast.FunctionDef):
                # decorator form of properties: `@property def x` / `@x.setter def x` are the getter / setter of property x
                # (kept under synthetic method names, since both carry the property's own name)
                role = None
                for d in st.decorator_list:
                    if isinstance(d, ast.Name) and d.id == "property":
                        role = ("get", st.name)
                    elif isinstance(d, ast.Attribute) and isinstance(d.value, ast.Name) and d.attr in ("setter", "getter", "deleter"):
                        role = (d.attr[:3], d.value.id)
                if role is not None:
                    key = "__prop_%s_%s" % role
                    self.methods[key] = FuncInfo(st, module, self)
                    pi = self.props.get(role[1]) or PropertyInfo(role[1], None, None)
                    if role[0] == "get":
                        pi.fget = key
                    elif role[0] == "set":
                        pi.fset = key
                    self.props[role[1]] = pi
                else:
                    self.methods[st.name] = FuncInfo(st, module, self)
            elif isinstance(st, ast.Assign) and len(st.targets) == 1 and isinstance(st.targets[0], ast.Name):
                nm = st.targets[0].id
                v = st.value
                if isinstance(v, ast.Call) and isinstance(v.func, ast.Name) and v.func.id == "property":
                    fget = fset = None
                    pos = ["fget", "fset", "fdel", "doc"]
                    for i, a in enumerate(v.args):
                        if pos[i] == "fget" and isinstance(a, ast.Name):
                            fget = a.id
                        if pos[i] == "fset" and isinstance(a, ast.Name):
                            fset = a.id
                    for kw in v.keywords:
                        if kw.arg == "fget" and isinstance(kw.value, ast.Name):
                            fget = kw.value.id
                        if kw.arg == "fset" and isinstance(kw.value, ast.Name):
                            fset = kw.value.id
                    self.props[nm] = PropertyInfo(nm, fget, fset)
                else:
                    self.attr_nodes[nm] = v

    @property
    def qualname(self):
        return "%s.%s" % (self.module.name, self.name)

    def __repr__(self):
        return "<class %s>" % self.qualname


class ModuleInfo:
    def __init__(self, name, path, text):
        self.name = name
        self.path = path
        self.text = text
        self.sha = hashlib.sha256(text.encode()).hexdigest()
        self.tree = ast.parse(text)
        self.functions = {}
        self.classes = {}
        self.global_nodes = {}   # name -> ast expr (module level assignment)
        self.imports = {}        # local name -> ("lib", dotted) | ("repo", module, name|None)
        self.all = None
        for st in self.tree.body:
            self._top(st)

    def _top(self, st):
        if isinstance(st, ast.FunctionDef):
            self.functions[st.name] = FuncInfo(st, self)
        elif isinstance(st, ast.ClassDef):
            self.classes[st.name] = ClassInfo(st, self)
        elif isinstance(st, ast.Assign) and len(st.targets) == 1 and isinstance(st.targets[0], ast.Name):
            self.global_nodes[st.targets[0].id] = st.value
        elif isinstance(st, (ast.Import, ast.ImportFrom)):
            for k, v in import_bindings(st, self.name).items():
                self.imports[k] = v
        elif isinstance(st, (ast.Try, ast.If)):
            # module level try/if (mtm.py library loading): harvest imports and simple assignments
            # (for an if/else the else-arm wins: `hasattr(sys, "frozen")` is False)
            for sub in ast.walk(st):
                if isinstance(sub, (ast.Import, ast.ImportFrom)):
                    for k, v in import_bindings(sub, self.name).items():
                        self.imports.setdefault(k, v)
                elif isinstance(sub, ast.Assign) and len(sub.targets) == 1 and isinstance(sub.targets[0], ast.Name):
                    self.global_nodes[sub.targets[0].id] = sub.value


def import_bindings(st, modname):
    """bindings introduced by an import statement appearing in module ``modname``"""
    out = {}
    pkg = "spectrum"
    if isinstance(st, ast.Import):
        for a in st.names:
            local = a.asname or a.name.split(".")[0]
            full = a.name if a.asname else a.name.split(".")[0]
            if full == pkg or full.startswith(pkg + "."):
                out[local] = ("repo", full, None)
            else:
                out[local] = ("lib", full)
    else:
        mod = st.module or ""
        if st.level > 0:
            mod = pkg + ("." + mod if mod else "")
        for a in st.names:
            local = a.asname or a.name
            if a.name == "*":
                continue
            if mod == pkg or mod.startswith(pkg + "."):
                out[local] = ("repo", mod, a.name)
            else:
                out[local] = ("lib", mod + "." + a.name)
    return out


class Program:
    def __init__(self, src=SRC):
        self.src = src
        self.modules = {}
        for fn in sorted(os.listdir(src)):
            if not fn.endswith(".py"):
                continue
            path = os.path.join(src, fn)
            with open(path) as fh:
                text = fh.read()
            name = "spectrum" if fn == "__init__.py" else "spectrum." + fn[:-3]
            try:
                self.modules[name] = ModuleInfo(name, path, text)
            except SyntaxError as e:  # a broken file is reported by whoever needs it
                self.modules[name] = None
                self.syntax_error = (path, str(e))

    def module(self, name):
        m = self.modules.get(name)
        if m is None:
            raise KeyError("module %s not found / not parseable" % name)
        return m

    def find_function(self, qualname):
        """'spectrum.tools.cshift' or 'spectrum.psd.Spectrum.frequencies'"""
        parts = qualname.split(".")
        mod = self.module(".".join(parts[:2]))
        if len(parts) == 3:
            return mod.functions[parts[2]]
        cls = mod.classes[parts[2]]
        return cls.methods[parts[3]]

    def find_class(self, qualname):
        parts = qualname.split(".")
        return self.module(".".join(parts[:2])).classes[parts[2]]

    def lookup_package_name(self, name):
        """resolve ``from spectrum import X``: X is a sub-module, a name defined in
        __init__, or a name star-exported by a sub-module"""
        if "spectrum." + name in self.modules:
            return ("module", self.modules["spectrum." + name])
        init = self.modules.get("spectrum")
        if init is not None and name in init.global_nodes:
            return ("global", init, name)
        for mn, m in self.modules.items():
            if m is None or mn == "spectrum":
                continue
            if name in m.functions:
                return ("func", m.functions[name])
            if name in m.classes:
                return ("class", m.classes[name])
            if name in m.global_nodes:
                return ("global", m, name)
        raise KeyError("name %s not found in package spectrum" % name)

    def sha(self, modnames):
        h = hashlib.sha256()
        for n in sorted(modnames):
            h.update(self.modules[n].sha.encode())
        return h.hexdigest()[:16]
