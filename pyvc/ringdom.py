"""Engine E3: exact algebra.  Scalars are elements of the rational function field Q(v1, ..., vn)
(sympy.polys.fields, gcd-normalised), complex numbers are pairs (re, im) of such elements, arrays
have concrete (small) shapes.  The real code is executed by the same interpreter on the generic
path (a branch that only raises is the exceptional one; comparisons of non-constant quantities are
recorded as path assumptions, e.g. `P > 0` = the positive definite domain).  An obligation
`lhs == rhs` is decided by normal form: it is an identity of the field, i.e. it holds for ALL values
of the symbols for which no divisor vanishes -- at the stated array sizes ("bounded in size").
"""
from fractions import Fraction

from sympy.polys.fields import field
from sympy.polys.domains import QQ

from . import values as V
from .values import Cx, Arr, Arr2, Unsupported, EngineError


LAZY_LIMIT = 60000      # terms of numerator + denominator beyond which a lazy fraction is cancelled after all


def _raw(n, d):
    dom = _DOM[0]
    if len(n) + len(d) > LAZY_LIMIT:
        return dom.K.new(n, d)
    if not n:
        return dom.K.zero
    return dom.K.raw_new(n, d)


def f_add(f, g):
    if not _DOM[0].lazy:
        return f + g
    if f.denom == g.denom:
        return _raw(f.numer + g.numer, f.denom)
    return _raw(f.numer * g.denom + g.numer * f.denom, f.denom * g.denom)


def f_sub(f, g):
    if not _DOM[0].lazy:
        return f - g
    if f.denom == g.denom:
        return _raw(f.numer - g.numer, f.denom)
    return _raw(f.numer * g.denom - g.numer * f.denom, f.denom * g.denom)


def f_mul(f, g):
    if not _DOM[0].lazy:
        return f * g
    if not f.numer or not g.numer:
        return _DOM[0].K.zero
    # the cheapest cancellations: a factor that is literally the other side's denominator
    if f.numer == g.denom:
        return _raw(g.numer, f.denom)
    if g.numer == f.denom:
        return _raw(f.numer, g.denom)
    return _raw(f.numer * g.numer, f.denom * g.denom)


def f_div(f, g):
    if not _DOM[0].lazy:
        return f / g
    if not g.numer:
        raise ZeroDivisionError
    if f.denom == g.denom:
        return _raw(f.numer, g.numer)
    if f.numer == g.numer:
        return _raw(g.denom, f.denom)
    return _raw(f.numer * g.denom, f.denom * g.numer)


def f_neg(f):
    if not _DOM[0].lazy:
        return -f
    return _raw(-f.numer, f.denom)


def f_cancel(f):
    return _DOM[0].K.new(f.numer, f.denom) if _DOM[0].lazy else f


class Q:
    """element of Q(v...)"""
    __slots__ = ("f", "sq")

    def __init__(self, f, sq=None):
        self.f = f
        self.sq = sq      # this value is sqrt(sq) (only its square may be used)

    def _c(self, o):
        if isinstance(o, Q):
            if o.sq is not None:
                raise Unsupported("arithmetic on a square root in the exact domain")
            return o.f
        if isinstance(o, bool):
            o = int(o)
        if isinstance(o, int):
            return DOM().K(o)
        if isinstance(o, Fraction):
            return DOM().K(QQ(o.numerator, o.denominator))
        return None

    def _me(self):
        if self.sq is not None:
            raise Unsupported("arithmetic on a square root in the exact domain")
        return self.f

    def __add__(self, o):
        c = self._c(o)
        if c is None:
            return NotImplemented
        return mk(f_add(self._me(), c))

    __radd__ = __add__

    def __sub__(self, o):
        c = self._c(o)
        if c is None:
            return NotImplemented
        return mk(f_sub(self._me(), c))

    def __rsub__(self, o):
        c = self._c(o)
        if c is None:
            return NotImplemented
        return mk(f_sub(c, self._me()))

    def __mul__(self, o):
        if self.sq is not None and isinstance(o, Q) and o.sq is not None:
            # sqrt(t) * sqrt(t) = t (t >= 0): the only arithmetic a square root supports besides squaring
            if DOM().equal(self.sq, o.sq):
                return self.sq
            raise Unsupported("product of two different square roots in the exact domain")
        c = self._c(o)
        if c is None:
            return NotImplemented
        return mk(f_mul(self._me(), c))

    __rmul__ = __mul__

    def __neg__(self):
        return mk(f_neg(self._me()))

    def __pos__(self):
        return self

    def __truediv__(self, o):
        c = self._c(o)
        if c is None:
            return NotImplemented
        return DOM().div(self, o)

    def __rtruediv__(self, o):
        c = self._c(o)
        if c is None:
            return NotImplemented
        return DOM().div(o, self)

    def __pow__(self, n):
        return V.s_pow(self, n)

    def __abs__(self):
        return DOM().abs(self)

    def conjugate(self):
        return self

    conj = conjugate

    @property
    def real(self):
        return self

    @property
    def imag(self):
        return Fraction(0)

    def transpose(self):
        return self

    def copy(self):
        return self

    def __eq__(self, o):
        return V.s_eq(self, o) if V.is_num(o) else False

    def __ne__(self, o):
        return V.b_not(self.__eq__(o))

    def __lt__(self, o):
        return V.s_cmp("<", self, o)

    def __le__(self, o):
        return V.s_cmp("<=", self, o)

    def __gt__(self, o):
        return V.s_cmp(">", self, o)

    def __ge__(self, o):
        return V.s_cmp(">=", self, o)

    def __hash__(self):
        return id(self)

    def __bool__(self):
        raise EngineError("symbolic value used as a Python bool")

    def __repr__(self):
        s = str(self.f)
        return "Q(%s)" % (s if len(s) < 120 else s[:120] + "...")


def _reduce_poly(poly, rel):
    """remainder modulo g^2 - c for every algebraic constant g (exact: g^(2q+r) = c^q g^r)"""
    for idx, c in rel:
        if all(m[idx] < 2 for m in poly.keys()):
            continue
        new = {}
        for mon, co in poly.terms():
            e = mon[idx]
            if e >= 2:
                mon = mon[:idx] + (e % 2,) + mon[idx + 1:]
                co = co * c ** (e // 2)
            v = new.get(mon, 0) + co
            if v:
                new[mon] = v
            else:
                new.pop(mon, None)
        poly = poly.ring.from_dict(new)
    return poly


def mk(f):
    """constants are lowered to Python numbers; powers of algebraic constants are reduced"""
    d = _DOM[0]
    if d is not None and d.rel and not (f.numer.is_ground and f.denom.is_ground):
        n2, d2 = _reduce_poly(f.numer, d.rel), _reduce_poly(f.denom, d.rel)
        if n2 is not f.numer or d2 is not f.denom:
            if d2 == 0:
                raise Unsupported("division by zero in the exact domain (algebraic constant)")
            f = d.K.new(n2, d2) if not d.lazy else _raw(n2, d2)
    if d is not None and d.lazy:
        if not f.numer:
            return Fraction(0)
        if not (f.numer.is_ground and f.denom.is_ground) and len(f.numer) == len(f.denom) and f.numer.LM == f.denom.LM \
                and f.numer * f.denom.LC == f.denom * f.numer.LC:
            c = f.numer.LC / f.denom.LC
            return Fraction(int(c.numerator), int(c.denominator))
    if f.numer.is_ground and f.denom.is_ground:
        n = f.numer.coeff(1) if f.numer else QQ(0)
        d = f.denom.coeff(1)
        return Fraction(int(n.numerator), int(n.denominator)) / Fraction(int(d.numerator), int(d.denominator))
    return Q(f)


class QB:
    def __init__(self, default, desc=""):
        self.e = self
        self.default = default
        self.desc = desc


_DOM = [None]


def DOM():
    return _DOM[0]


class RingDom:
    name = "alg"
    while_iters = 1
    materialise_limit = 10 ** 6
    expand_limit = 10 ** 6

    # algebraic constants: a generator of this name stands for the positive square root of the number
    ALGEBRAIC = {"sqrt2": 2, "sqrt3": 3}

    def __init__(self, names):
        res = field(list(names), QQ)
        self.K = res[0]
        self.gens = dict(zip(names, res[1:]))
        self.rel = [(list(names).index(n), QQ(c)) for n, c in self.ALGEBRAIC.items() if n in names]
        self.lazy = False       # True: fractions are not cancelled after each operation (no multivariate gcd); equality by cross-multiplication
        self.assumptions = []       # comparisons decided on the generic path
        self.where = "?"
        self.notes = []
        self.stats = {"queries": 0, "solver_s": 0.0}
        self.facts = []
        self.divisors = []
        self.defs = {}
        self.in_assert = False
        _DOM[0] = self

    def reset_run(self):
        _DOM[0] = self
        self.pc_getter = lambda: []
        self.brancher = None

    point = None        # dict name -> Fraction: these symbols are replaced by exact rational values (refutation pre-run)

    def sym(self, name):
        if self.point is not None and name in self.point:
            return self.point[name]
        return Q(self.gens[name])

    def csym(self, name):
        return Cx(self.sym(name + "_r"), self.sym(name + "_i"))

    # ---- domain interface
    def is_scalar(self, v):
        return isinstance(v, Q)

    def is_int(self, v):
        return False

    def note_cast(self, what):
        if what not in self.notes:
            self.notes.append(what)

    def lift(self, v):
        if isinstance(v, Q):
            return v._me()
        if isinstance(v, bool):
            v = int(v)
        if isinstance(v, int):
            return self.K(v)
        if isinstance(v, Fraction):
            return self.K(QQ(v.numerator, v.denominator))
        raise EngineError("cannot lift %r" % (v,))

    def div(self, a, b):
        cb = getattr(self, "abstract_div", None)
        if cb is not None:
            r = cb(a, b)
            if r is not None:
                return r
        fb = self.lift(b)
        if not fb.numer:
            raise Unsupported("division by zero in the exact domain")
        return mk(f_div(self.lift(a), fb))

    def to_real(self, v):
        return v

    def trunc(self, v):
        raise Unsupported("int() of a symbolic value in the exact domain")

    def floordiv(self, a, b):
        raise Unsupported("floor division of symbolic values")

    def mod(self, a, b):
        raise Unsupported("modulo of symbolic values")

    def int_power(self, a, k, float_exp=False):
        if isinstance(a, Q) and a.sq is not None:
            if k == 2:
                return a.sq
            raise Unsupported("power %d of a square root" % k)
        if k >= 0:
            r = 1
            for _ in range(k):
                r = r * a
            return r
        return V.s_div(1, self.int_power(a, -k))

    def power(self, a, n):
        raise Unsupported("general power in the exact domain")

    def sqrt(self, t):
        if isinstance(t, Cx):
            if not self.is_zero(t.im):
                raise Unsupported("square root of a complex value in the exact domain")
            t = t.re
        if V.is_conc(t):
            from .libspec import conc_elem
            r = conc_elem("sqrt", t)
            if r is not None:
                return r
        r = self._exact_sqrt(t)
        if r is not None:
            return r
        return Q(self.K(0), sq=t)

    def _exact_sqrt(self, t):
        """sqrt of a rational function that is the square of a manifestly non-negative one (all
        monomials with even exponents and positive coefficients), e.g. sqrt((kr^2+ki^2)^2)"""
        f = f_cancel(self.lift(t))

        def root(poly):
            c, fac = poly.sqf_list()
            import math
            cq = Fraction(int(c.numerator), int(c.denominator)) if hasattr(c, "numerator") else Fraction(int(c))
            if cq <= 0:
                return None
            rn, rd = math.isqrt(cq.numerator), math.isqrt(cq.denominator)
            if rn * rn != cq.numerator or rd * rd != cq.denominator:
                return None
            r = poly.ring(QQ(rn, rd))
            for g, m in fac:
                if m % 2:
                    return None
                r = r * g ** (m // 2)
            for mon, co in r.terms():
                if co <= 0 or any(e % 2 for e in mon):
                    return None
            return r
        rn, rd = root(f.numer), root(f.denom)
        if rn is None or rd is None:
            return None
        return mk(f_div(self.K(rn), self.K(rd)))

    def abs(self, a):
        if isinstance(a, Cx):
            return self.sqrt(a.re * a.re + a.im * a.im)
        # |x| of a real symbolic value: x itself when manifestly non-negative, else only its square is usable
        return self.sqrt(a * a)

    def angle(self, omega, t):
        """register generator `omega` as an angle in (-pi, pi) whose half-angle tangent is generator `t`:
        exp(i*omega) = ((1 - t^2) + 2 t i) / (1 + t^2)  (rational parametrisation of the unit circle, -1 excluded)"""
        if not hasattr(self, "angles"):
            self.angles = []
        T = self.sym(t)
        den = 1 + T * T
        self.angles.append((self.gens[omega], Cx((1 - T * T) / den, (2 * T) / den)))

    def elem(self, fname, x):
        if fname == "exp" and isinstance(x, Cx) and self.is_zero(x.re) and isinstance(x.im, Q):
            for g, val in getattr(self, "angles", []):
                if x.im.f == g:
                    return val
        if fname in ("log2", "log10", "log") and V.is_conc(x) and not isinstance(x, Cx) and x > 0:
            # a concrete size (nextpow2 = ceil(log2(n))): exact when it is an exact power, otherwise a floating value that is
            # only meaningful under ceil / floor (it is never within 1e-9 of an integer for rationals of this size)
            import math
            v = {"log2": math.log2, "log10": math.log10, "log": math.log}[fname](float(x))
            if abs(v - round(v)) < 1e-9:
                raise Unsupported("%s(%s) too close to an integer to be rounded safely" % (fname, x))
            return Fraction(v)
        raise Unsupported("%s in the exact domain" % fname)

    def pi(self):
        if "pi" in self.gens:
            return self.sym("pi")      # an indeterminate: only identities that hold for every value are decided
        raise Unsupported("pi in the exact domain")

    def out_of_range(self, dtype):
        return Fraction(0)

    def ite(self, c, a, b):
        d = c.default if isinstance(c, QB) else c
        return a if d else b

    def cmp(self, op, a, b):
        fa, fb = self.lift(a), self.lift(b)
        d = f_sub(fa, fb)
        if not d.numer:
            return op in ("==", "<=", ">=")
        d = f_cancel(d)
        if d.numer.is_ground and d.denom.is_ground:
            q = Fraction(str(d.numer.coeff(1))) / Fraction(str(d.denom.coeff(1)))
            return {"<": q < 0, "<=": q <= 0, ">": q > 0, ">=": q >= 0, "==": q == 0, "!=": q != 0}[op]
        if op == "==":
            return False          # not identically equal: generically different
        if op == "!=":
            return True
        default = {"<": False, "<=": False, ">": True, ">=": True}[op]
        self.assumptions.append("%s: generic path assumes (%s %s %s) is %s" % (self.where, "lhs", op, "rhs", default))
        return QB(default, op)

    def complex_order(self, op, a, b):
        # numpy orders complex numbers lexicographically: the generic outcome is that of the real parts
        return self.cmp(op, a.re, b.re) if not self.is_zero(a.re - b.re) else self.cmp(op, a.im, b.im)

    def b_and(self, a, b):
        da = a.default if isinstance(a, QB) else a
        db = b.default if isinstance(b, QB) else b
        return QB(bool(da) and bool(db))

    def b_or(self, a, b):
        da = a.default if isinstance(a, QB) else a
        db = b.default if isinstance(b, QB) else b
        return QB(bool(da) or bool(db))

    def b_not(self, a):
        return QB(not a.default)

    def decide(self, interp, ce):
        return ce.default

    def known(self, c):
        return None

    def require_eq(self, a, b, msg):
        if V.is_conc(a) and V.is_conc(b):
            if a != b:
                from .interp import RaiseSig
                raise RaiseSig("ValueError", msg)
            return
        raise Unsupported("symbolic shape in the exact domain")

    def require(self, cond, msg, exc=None):
        pass

    def sum(self, lo, hi, body):
        r = 0
        for j in range(int(lo), int(hi)):
            r = r + body(j)
        return r

    def cis(self, q, den):
        """exp(2 pi i q/den) exactly, for angles that are multiples of 90, 45 or 30 degrees (sqrt2 / sqrt3 must be generators)"""
        q, den = int(q), int(den)
        q %= den
        from math import gcd
        g = gcd(q, den)
        q, den = q // g, den // g
        half = Fraction(1, 2)
        if den in (1, 2, 4):
            k = q * (4 // den)
            return Cx([Fraction(1), Fraction(0), Fraction(-1), Fraction(0)][k % 4], [Fraction(0), Fraction(1), Fraction(0), Fraction(-1)][k % 4])
        if den == 8:
            if "sqrt2" not in self.gens:
                raise Unsupported("exact twiddle for %d points needs the generator sqrt2" % den)
            h = self.sym("sqrt2") * half
            cos = [Fraction(1), h, Fraction(0), -h, Fraction(-1), -h, Fraction(0), h]
            return Cx(cos[q % 8], cos[(q - 2) % 8])
        if den in (3, 6, 12):
            if "sqrt3" not in self.gens:
                raise Unsupported("exact twiddle for %d points needs the generator sqrt3" % den)
            h = self.sym("sqrt3") * half
            k = q * (12 // den)
            cos = [Fraction(1), h, half, Fraction(0), -half, -h, Fraction(-1), -h, -half, Fraction(0), half, h]
            return Cx(cos[k % 12], cos[(k - 3) % 12])
        raise Unsupported("exact twiddle factors for a %d-point transform" % den)

    def dtft(self, seq_fn, length, num, den):
        """sum_j s[j] exp(-2 pi i j num/den), exact, for concrete sizes whose twiddle factors are in Q(i, sqrt2, sqrt3)"""
        if not (V.is_conc(length) and V.is_conc(num) and V.is_conc(den)) or Fraction(num).denominator != 1:
            raise Unsupported("DTFT at a symbolic or off-grid frequency in the exact domain")
        acc = Cx(Fraction(0), Fraction(0))
        for j in range(int(length)):
            v = seq_fn(j)
            if V.is_conc(v) and not isinstance(v, Cx) and v == 0:
                continue
            acc = acc + V.Cx.of(v) * self.cis(-j * int(num), int(den))
        return acc

    def lib_lstsq(self, interp, A, b):
        """scipy.linalg.lstsq contract (A-LSQ) made executable: the solution of the normal equations A^H A x = A^H b,
        by exact elimination (generic path: the Gram matrix is non-singular)"""
        rows, cols = int(A.r), int(A.c)
        Al = [[V.Cx.of(A.at(i, j)) for j in range(cols)] for i in range(rows)]
        bl = [V.Cx.of(b.at(i)) for i in range(rows)]
        G = [[sum((V.s_conj(Al[r][i]) * Al[r][j] for r in range(rows)), Cx(Fraction(0), Fraction(0))) for j in range(cols)] for i in range(cols)]
        h = [sum((V.s_conj(Al[r][i]) * bl[r] for r in range(rows)), Cx(Fraction(0), Fraction(0))) for i in range(cols)]
        for c in range(cols):
            piv = G[c][c]
            if self.is_zero(piv):
                raise Unsupported("zero pivot in the exact least-squares solve")
            for r in range(c + 1, cols):
                f = G[r][c] / piv
                G[r] = [G[r][k] - f * G[c][k] for k in range(cols)]
                h[r] = h[r] - f * h[c]
        x = [None] * cols
        for c in reversed(range(cols)):
            acc = h[c]
            for k in range(c + 1, cols):
                acc = acc - G[c][k] * x[k]
            x[c] = acc / G[c][c]
        cx = A.dtype == "complex" or b.dtype == "complex"
        sol = Arr.from_items([v if cx else v.re for v in x], dtype="complex" if cx else "float")
        return (sol, Arr.from_items([]), cols, Arr.from_items([]))

    def code_of(self, v):
        return 0

    # ---- deciding identities
    def is_zero(self, v):
        if isinstance(v, Cx):
            return self.is_zero(v.re) and self.is_zero(v.im)
        if V.is_conc(v):
            return v == 0
        f = self.lift(v)
        if not f.numer:
            return True
        if self.rel and self.lazy:
            return not _reduce_poly(f.numer, self.rel)
        return False

    def equal(self, a, b):
        return self.is_zero(V.Cx.of(a) - V.Cx.of(b)) if (isinstance(a, Cx) or isinstance(b, Cx)) else self.is_zero(a - b)

    def evaluate(self, v, point):
        """value at a rational point (dict name -> Fraction); None if a denominator vanishes"""
        if isinstance(v, Cx):
            r, i = self.evaluate(v.re, point), self.evaluate(v.im, point)
            return None if r is None or i is None else complex(r, i)
        if V.is_conc(v):
            return float(v)
        f = self.lift(v)
        vals = [QQ(point[n].numerator, point[n].denominator) for n in self.gens]
        d = f.denom.evaluate(list(zip(f.denom.ring.gens, vals))) if self.gens else f.denom
        if d == 0:
            return None
        nmr = f.numer.evaluate(list(zip(f.numer.ring.gens, vals)))
        q = nmr / d
        return float(Fraction(int(q.numerator), int(q.denominator)))
