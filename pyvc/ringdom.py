"""Engine E3: exact algebra.  Scalars are elements of the rational function field Q(v1, ..., vn)
(sympy.polys.fields, gcd-normalised), complex numbers are pairs (re, im) of such elements, arrays
have concrete (small) shapes.  The real code is executed by the same interpreter on the generic
path (a branch that only raises is the exceptional one; comparisons of non-constant quantities are
recorded as path assumptions, e.g. `P > 0` = the positive definite domain).  An obligation
`lhs == rhs` is decided by normal form: it is an identity of the field, i.e. it holds for ALL values
of the symbols for which no divisor vanishes -- at the stated array sizes ("bounded in size").
"""
from fractions import Fraction

from sympy.polys.fields import field
from sympy.polys.domains import QQ

from . import values as V
from .values import Cx, Arr, Arr2, Unsupported, EngineError


class Q:
    """element of Q(v...)"""
    __slots__ = ("f", "sq")

    def __init__(self, f, sq=None):
        self.f = f
        self.sq = sq      # this value is sqrt(sq) (only its square may be used)

    def _c(self, o):
        if isinstance(o, Q):
            if o.sq is not None:
                raise Unsupported("arithmetic on a square root in the exact domain")
            return o.f
        if isinstance(o, bool):
            o = int(o)
        if isinstance(o, int):
            return DOM().K(o)
        if isinstance(o, Fraction):
            return DOM().K(QQ(o.numerator, o.denominator))
        return None

    def _me(self):
        if self.sq is not None:
            raise Unsupported("arithmetic on a square root in the exact domain")
        return self.f

    def __add__(self, o):
        c = self._c(o)
        if c is None:
            return NotImplemented
        return mk(self._me() + c)

    __radd__ = __add__

    def __sub__(self, o):
        c = self._c(o)
        if c is None:
            return NotImplemented
        return mk(self._me() - c)

    def __rsub__(self, o):
        c = self._c(o)
        if c is None:
            return NotImplemented
        return mk(c - self._me())

    def __mul__(self, o):
        c = self._c(o)
        if c is None:
            return NotImplemented
        return mk(self._me() * c)

    __rmul__ = __mul__

    def __neg__(self):
        return mk(-self._me())

    def __pos__(self):
        return self

    def __truediv__(self, o):
        c = self._c(o)
        if c is None:
            return NotImplemented
        return DOM().div(self, o)

    def __rtruediv__(self, o):
        c = self._c(o)
        if c is None:
            return NotImplemented
        return DOM().div(o, self)

    def __pow__(self, n):
        return V.s_pow(self, n)

    def __abs__(self):
        return DOM().abs(self)

    def conjugate(self):
        return self

    conj = conjugate

    @property
    def real(self):
        return self

    @property
    def imag(self):
        return Fraction(0)

    def transpose(self):
        return self

    def copy(self):
        return self

    def __eq__(self, o):
        return V.s_eq(self, o) if V.is_num(o) else False

    def __ne__(self, o):
        return V.b_not(self.__eq__(o))

    def __lt__(self, o):
        return V.s_cmp("<", self, o)

    def __le__(self, o):
        return V.s_cmp("<=", self, o)

    def __gt__(self, o):
        return V.s_cmp(">", self, o)

    def __ge__(self, o):
        return V.s_cmp(">=", self, o)

    def __hash__(self):
        return id(self)

    def __bool__(self):
        raise EngineError("symbolic value used as a Python bool")

    def __repr__(self):
        s = str(self.f)
        return "Q(%s)" % (s if len(s) < 120 else s[:120] + "...")


def mk(f):
    """constants are lowered to Python numbers"""
    if f.numer.is_ground and f.denom.is_ground:
        n = f.numer.coeff(1) if f.numer else QQ(0)
        d = f.denom.coeff(1)
        return Fraction(int(n.numerator), int(n.denominator)) / Fraction(int(d.numerator), int(d.denominator))
    return Q(f)


class QB:
    def __init__(self, default, desc=""):
        self.e = self
        self.default = default
        self.desc = desc


_DOM = [None]


def DOM():
    return _DOM[0]


class RingDom:
    name = "alg"
    while_iters = 1
    materialise_limit = 10 ** 6
    expand_limit = 10 ** 6

    def __init__(self, names):
        res = field(list(names), QQ)
        self.K = res[0]
        self.gens = dict(zip(names, res[1:]))
        self.assumptions = []       # comparisons decided on the generic path
        self.where = "?"
        self.notes = []
        self.stats = {"queries": 0, "solver_s": 0.0}
        self.facts = []
        self.divisors = []
        self.defs = {}
        self.in_assert = False
        _DOM[0] = self

    def reset_run(self):
        _DOM[0] = self
        self.pc_getter = lambda: []
        self.brancher = None

    def sym(self, name):
        return Q(self.gens[name])

    def csym(self, name):
        return Cx(Q(self.gens[name + "_r"]), Q(self.gens[name + "_i"]))

    # ---- domain interface
    def is_scalar(self, v):
        return isinstance(v, Q)

    def is_int(self, v):
        return False

    def note_cast(self, what):
        if what not in self.notes:
            self.notes.append(what)

    def lift(self, v):
        if isinstance(v, Q):
            return v._me()
        if isinstance(v, bool):
            v = int(v)
        if isinstance(v, int):
            return self.K(v)
        if isinstance(v, Fraction):
            return self.K(QQ(v.numerator, v.denominator))
        raise EngineError("cannot lift %r" % (v,))

    def div(self, a, b):
        cb = getattr(self, "abstract_div", None)
        if cb is not None:
            r = cb(a, b)
            if r is not None:
                return r
        fb = self.lift(b)
        if fb == 0:
            raise Unsupported("division by zero in the exact domain")
        return mk(self.lift(a) / fb)

    def to_real(self, v):
        return v

    def trunc(self, v):
        raise Unsupported("int() of a symbolic value in the exact domain")

    def floordiv(self, a, b):
        raise Unsupported("floor division of symbolic values")

    def mod(self, a, b):
        raise Unsupported("modulo of symbolic values")

    def int_power(self, a, k, float_exp=False):
        if isinstance(a, Q) and a.sq is not None:
            if k == 2:
                return a.sq
            raise Unsupported("power %d of a square root" % k)
        if k >= 0:
            r = 1
            for _ in range(k):
                r = r * a
            return r
        return V.s_div(1, self.int_power(a, -k))

    def power(self, a, n):
        raise Unsupported("general power in the exact domain")

    def sqrt(self, t):
        if V.is_conc(t):
            from .libspec import conc_elem
            r = conc_elem("sqrt", t)
            if r is not None:
                return r
        r = self._exact_sqrt(t)
        if r is not None:
            return r
        return Q(self.K(0), sq=t)

    def _exact_sqrt(self, t):
        """sqrt of a rational function that is the square of a manifestly non-negative one (all
        monomials with even exponents and positive coefficients), e.g. sqrt((kr^2+ki^2)^2)"""
        f = self.lift(t)

        def root(poly):
            c, fac = poly.sqf_list()
            import math
            cq = Fraction(int(c.numerator), int(c.denominator)) if hasattr(c, "numerator") else Fraction(int(c))
            if cq <= 0:
                return None
            rn, rd = math.isqrt(cq.numerator), math.isqrt(cq.denominator)
            if rn * rn != cq.numerator or rd * rd != cq.denominator:
                return None
            r = poly.ring(QQ(rn, rd))
            for g, m in fac:
                if m % 2:
                    return None
                r = r * g ** (m // 2)
            for mon, co in r.terms():
                if co <= 0 or any(e % 2 for e in mon):
                    return None
            return r
        rn, rd = root(f.numer), root(f.denom)
        if rn is None or rd is None:
            return None
        return mk(self.K(rn) / self.K(rd))

    def abs(self, a):
        if isinstance(a, Cx):
            return self.sqrt(a.re * a.re + a.im * a.im)
        # |x| of a real symbolic value: x itself when manifestly non-negative, else only its square is usable
        return self.sqrt(a * a)

    def elem(self, fname, x):
        raise Unsupported("%s in the exact domain" % fname)

    def pi(self):
        raise Unsupported("pi in the exact domain")

    def out_of_range(self, dtype):
        return Fraction(0)

    def ite(self, c, a, b):
        d = c.default if isinstance(c, QB) else c
        return a if d else b

    def cmp(self, op, a, b):
        fa, fb = self.lift(a), self.lift(b)
        d = fa - fb
        if d == 0:
            return op in ("==", "<=", ">=")
        if d.numer.is_ground and d.denom.is_ground:
            q = Fraction(str(d.numer.coeff(1))) / Fraction(str(d.denom.coeff(1)))
            return {"<": q < 0, "<=": q <= 0, ">": q > 0, ">=": q >= 0, "==": q == 0, "!=": q != 0}[op]
        if op == "==":
            return False          # not identically equal: generically different
        if op == "!=":
            return True
        default = {"<": False, "<=": False, ">": True, ">=": True}[op]
        self.assumptions.append("%s: generic path assumes (%s %s %s) is %s" % (self.where, "lhs", op, "rhs", default))
        return QB(default, op)

    def complex_order(self, op, a, b):
        # numpy orders complex numbers lexicographically: the generic outcome is that of the real parts
        return self.cmp(op, a.re, b.re) if not self.is_zero(a.re - b.re) else self.cmp(op, a.im, b.im)

    def b_and(self, a, b):
        da = a.default if isinstance(a, QB) else a
        db = b.default if isinstance(b, QB) else b
        return QB(bool(da) and bool(db))

    def b_or(self, a, b):
        da = a.default if isinstance(a, QB) else a
        db = b.default if isinstance(b, QB) else b
        return QB(bool(da) or bool(db))

    def b_not(self, a):
        return QB(not a.default)

    def decide(self, interp, ce):
        return ce.default

    def known(self, c):
        return None

    def require_eq(self, a, b, msg):
        if V.is_conc(a) and V.is_conc(b):
            if a != b:
                from .interp import RaiseSig
                raise RaiseSig("ValueError", msg)
            return
        raise Unsupported("symbolic shape in the exact domain")

    def require(self, cond, msg, exc=None):
        pass

    def sum(self, lo, hi, body):
        r = 0
        for j in range(int(lo), int(hi)):
            r = r + body(j)
        return r

    def dtft(self, *a, **k):
        raise Unsupported("DTFT in the exact domain")

    def code_of(self, v):
        return 0

    # ---- deciding identities
    def is_zero(self, v):
        if isinstance(v, Cx):
            return self.is_zero(v.re) and self.is_zero(v.im)
        if V.is_conc(v):
            return v == 0
        return self.lift(v) == 0

    def equal(self, a, b):
        return self.is_zero(V.Cx.of(a) - V.Cx.of(b)) if (isinstance(a, Cx) or isinstance(b, Cx)) else self.is_zero(a - b)

    def evaluate(self, v, point):
        """value at a rational point (dict name -> Fraction); None if a denominator vanishes"""
        if isinstance(v, Cx):
            r, i = self.evaluate(v.re, point), self.evaluate(v.im, point)
            return None if r is None or i is None else complex(r, i)
        if V.is_conc(v):
            return float(v)
        f = self.lift(v)
        vals = [QQ(point[n].numerator, point[n].denominator) for n in self.gens]
        d = f.denom.evaluate(list(zip(f.denom.ring.gens, vals))) if self.gens else f.denom
        if d == 0:
            return None
        nmr = f.numer.evaluate(list(zip(f.numer.ring.gens, vals)))
        q = nmr / d
        return float(Fraction(int(q.numerator), int(q.denominator)))
