"""Symbolic interpreter over the Python AST of the real source.

One interpreter, several value domains (see DESIGN.md section 1).  Control flow on
symbolic conditions forks the path; paths are enumerated by deterministic re-execution
with a decision prefix, so that every path is a straight-line run of the real code under
a recorded path condition.
"""
import ast
from fractions import Fraction

from . import values as V
from .values import Cx, Arr, Arr2, Obj, Opaque, Unsupported, EngineError, Enum
from .source import FuncInfo, ClassInfo, ModuleInfo, import_bindings


# ---------------------------------------------------------------------------------
# control signals


class ReturnSig(Exception):
    def __init__(self, value):
        self.value = value


class BreakSig(Exception):
    pass


class ContinueSig(Exception):
    pass


class RaiseSig(Exception):
    """a Python exception raised by the interpreted program"""

    def __init__(self, exc, msg=""):
        self.exc = exc
        self.msg = msg

    def __repr__(self):
        return "RaiseSig(%s)" % self.exc


class PathAbort(Exception):
    """the current path is infeasible"""


class PathLimit(Exception):
    pass


# ---------------------------------------------------------------------------------
# reference values


class FuncRef:
    def __init__(self, info, closure=None):
        self.info = info
        self.closure = closure

    def __repr__(self):
        return "<FuncRef %s>" % self.info.qualname


class BoundMethod:
    def __init__(self, obj, info):
        self.obj = obj
        self.info = info


class ClassRef:
    def __init__(self, info):
        self.info = info

    def __repr__(self):
        return "<ClassRef %s>" % self.info.qualname


class ModRef:
    def __init__(self, info):
        self.info = info


class LibRef:
    def __init__(self, path):
        self.path = path

    def __repr__(self):
        return "<lib %s>" % self.path


class SuperRef:
    def __init__(self, cls, obj):
        self.cls = cls
        self.obj = obj


class TypeMarker:
    def __init__(self, name):
        self.name = name

    def __eq__(self, o):
        return isinstance(o, TypeMarker) and o.name == self.name

    def __hash__(self):
        return hash(self.name)

    def __repr__(self):
        return "<type %s>" % self.name


class ExcClass:
    def __init__(self, name):
        self.name = name


class RangeVal:
    def __init__(self, lo, hi, step=1):
        self.lo, self.hi, self.step = lo, hi, step

    def concrete(self):
        return all(V.is_conc(x) for x in (self.lo, self.hi, self.step))

    def to_range(self):
        return range(int(self.lo), int(self.hi), int(self.step))

    def length(self):
        if self.concrete():
            return len(self.to_range())
        if self.step == 1:
            return V.s_max(self.hi - self.lo, 0)
        if self.step == -1:
            return V.s_max(self.lo - self.hi, 0)
        raise Unsupported("symbolic range with step %r" % (self.step,))


class GenObj:
    def __init__(self, info, frame):
        self.info = info
        self.frame = frame


class BuiltinFn:
    def __init__(self, name):
        self.name = name

    def __repr__(self):
        return "<builtin %s>" % self.name


class Frame:
    def __init__(self, module, cls=None, parent=None, func=None):
        self.module = module
        self.cls = cls
        self.parent = parent
        self.func = func
        self.locals = {}


BUILTIN_EXC = ["ValueError", "TypeError", "AssertionError", "IndexError", "KeyError", "NotImplementedError",
               "ZeroDivisionError", "Exception", "ImportError", "ModuleNotFoundError", "RuntimeError",
               "AttributeError"]
BUILTIN_TYPES = ["int", "float", "str", "list", "tuple", "dict", "complex", "bool", "object"]
BUILTIN_FUNCS = ["len", "range", "abs", "sum", "max", "min", "float", "int", "list", "tuple", "reversed",
                 "enumerate", "isinstance", "type", "eval", "super", "pow", "round", "sorted", "dir", "print",
                 "hasattr", "zip", "str", "bool", "complex", "property", "any", "all", "dict", "globals"]

NOOP_LIB_PREFIXES = ("logging.", "warnings.", "pylab.", "matplotlib.")


class Path:
    def __init__(self, pc, outcome, value, decisions, facts, extra=None):
        self.pc = pc
        self.outcome = outcome   # "return" | "raise"
        self.value = value       # returned value | RaiseSig
        self.decisions = decisions
        self.facts = facts
        self.extra = extra or {}



def _model_call(fn, args, kwargs, what=None):
    """call a library / method MODEL.  A signature mismatch (a keyword or arity the model does not know, e.g. astype(.., copy=False))
    says the model is incomplete, not that the program is wrong: it is `Unsupported` (undecided), never a crash of the checker and
    never a TypeError attributed to the program.  Only a mismatch raised by this very call is caught (no frame deeper than fn)."""
    try:
        return fn(*args, **kwargs)
    except TypeError as e:
        tb = e.__traceback__
        if tb is not None and tb.tb_next is None and ("argument" in str(e)):
            raise Unsupported("model of %s does not accept this call: %s" % (what or getattr(fn, "__name__", "callable"), e))
        raise

class Interp:
    def __init__(self, program, dom, lib, stubs=None, max_paths=400, check_index=True):
        self.program = program
        self.dom = dom
        self.lib = lib
        self.stubs = stubs or {}     # qualname -> callable(interp, args, kwargs): contract used at call sites
        self.max_paths = max_paths
        self.index_checks = check_index
        self.global_cache = {}
        self.call_depth = 0
        self.trace_calls = []
        self.in_spec = 0
        self.merge_mode = 0
        self.reset_path([])

    # ---- path management ---------------------------------------------------------
    def reset_path(self, prefix):
        self.prefix = list(prefix)
        self.decisions = []
        self.pc = []
        self.worklist_add = []
        self.global_cache = {}
        self.trace_calls = []
        self.merge_mode = 0
        self.in_spec = 0
        self.loop_stack = []

    def explore(self, thunk, on_path=None):
        """run ``thunk(self)`` on every feasible path; returns list of Path"""
        V.set_domain(self.dom)
        worklist = [[]]
        paths = []
        while worklist:
            prefix = worklist.pop()
            if len(paths) >= self.max_paths:
                raise PathLimit("more than %d paths" % self.max_paths)
            self.dom.reset_run()
            self.dom.pc_getter = lambda: self.pc
            self.dom.brancher = self._require
            self.reset_path(prefix)
            V._Hooks.index_check = self._index_check if self.index_checks else None
            try:
                val = thunk(self)
                p = Path(list(self.pc), "return", val, list(self.decisions), list(self.dom.facts))
            except RaiseSig as r:
                p = Path(list(self.pc), "raise", r, list(self.decisions), list(self.dom.facts))
            except ZeroDivisionError:
                # a concrete division by zero (numpy would produce inf/nan): a non-finite result
                p = Path(list(self.pc), "raise", RaiseSig("ZeroDivisionError", "division by a constant zero (non-finite result)"),
                         list(self.decisions), list(self.dom.facts))
            except PathAbort:
                p = None
            finally:
                V._Hooks.index_check = None
            for alt in self.worklist_add:
                worklist.append(alt)
            if p is not None:
                if on_path is not None:
                    on_path(p)
                paths.append(p)
        return paths

    def assume(self, cond):
        """add a hypothesis (precondition) to the path condition"""
        if cond is True:
            return
        if cond is False:
            raise PathAbort()
        self.pc.append(cond.e)

    def branch(self, cond, note=None):
        if isinstance(cond, bool):
            return cond
        d = self.dom
        if not hasattr(cond, "e"):
            return self.truthy_concrete(cond)
        if self.in_spec:
            raise EngineError("symbolic branch inside a specification")
        ce = cond.e
        if hasattr(d, "decide"):
            # domains without a solver (degree types, exact algebra) follow one generic path
            dec = d.decide(self, ce)
            self.decisions.append(dec)
            return dec
        pos = len(self.decisions)
        if pos < len(self.prefix):
            dec = self.prefix[pos]
        else:
            dec = self._decide_z3(ce)
        self.decisions.append(dec)
        import z3
        self.pc.append(ce if dec else z3.Not(ce))
        return dec

    def _decide_z3(self, ce):
        import z3
        d = self.dom
        base = list(self.pc) + d.facts
        rt, _ = d.check(base + [ce], timeout_ms=5000)
        rf, _ = d.check(base + [z3.Not(ce)], timeout_ms=5000)
        t_ok = rt != "unsat"
        f_ok = rf != "unsat"
        if t_ok and f_ok:
            self.worklist_add.append(self.decisions + [False])
            return True
        if t_ok:
            return True
        if f_ok:
            return False
        raise PathAbort()

    def _require(self, cond, msg, exc):
        """run-time requirement of a library (shape agreement ...): violating it is a path"""
        if self.in_spec:
            return
        if V.known(cond) is True:
            return
        ok = self.branch(cond)
        if not ok:
            raise RaiseSig(exc or "ValueError", msg)

    def _index_check(self, i, n):
        if self.in_spec:
            return
        if V.is_conc(i) and V.is_conc(n):
            if not (0 <= i < n):
                raise RaiseSig("IndexError", "index %s out of range %s" % (i, n))
            return
        cond = V.b_and(V.s_cmp(">=", i, 0), V.s_cmp("<", i, n))
        if V.known(cond) is True:       # implied by the path condition: no fork, no growth
            return
        ok = self.branch(cond)
        if not ok:
            raise RaiseSig("IndexError", "symbolic index out of range")

    def truthy_concrete(self, v):
        if v is None:
            return False
        if isinstance(v, Enum):
            d = self.dom
            falsy = V.b_or(V.s_eq(v.code, d.code_of(None)), V.s_eq(v.code, d.code_of(False)))
            return self.branch(V.b_not(falsy))
        if isinstance(v, (bool, int, Fraction, str, tuple, list, dict)):
            return bool(v)
        if isinstance(v, Arr):
            if v.is_list:
                return self.branch(V.s_cmp(">", v.n, 0))
            if V.is_conc(v.n) and v.n == 1:
                return self.truth(v.get(0))
            raise RaiseSig("ValueError", "truth value of an array is ambiguous")
        if isinstance(v, Cx):
            return self.branch(V.b_not(V.s_eq(v, 0)))
        if self.dom.is_scalar(v):
            return self.branch(V.b_not(V.s_eq(v, 0)))
        return True

    def truth(self, v):
        if isinstance(v, bool):
            return v
        if isinstance(v, Arr) and not v.is_list and v.dtype == "bool" and V.is_conc(v.n) and v.n == 1:
            v = v.get(0)
        if hasattr(v, "e") and not self.dom.is_scalar(v):
            return self.branch(v)
        return self.truthy_concrete(v)

    # ---- entry points ------------------------------------------------------------
    def call_qual(self, qualname, *args, **kwargs):
        f = self.program.find_function(qualname)
        return self.call_function(FuncRef(f), list(args), kwargs)

    def class_ref(self, qualname):
        return ClassRef(self.program.find_class(qualname))

    def module_frame(self, module):
        return Frame(module)

    # ---- calls -------------------------------------------------------------------
    def call(self, fn, args, kwargs):
        if isinstance(fn, FuncRef):
            return self.call_function(fn, args, kwargs)
        if isinstance(fn, BoundMethod):
            return self.call_function(FuncRef(fn.info), [fn.obj] + list(args), kwargs)
        if isinstance(fn, ClassRef):
            return self.instantiate(fn.info, args, kwargs)
        if isinstance(fn, LibRef):
            return self.call_lib(fn.path, args, kwargs)
        if isinstance(fn, BuiltinFn):
            return self.call_builtin(fn.name, args, kwargs)
        if isinstance(fn, TypeMarker):
            return self.call_builtin(fn.name, args, kwargs)
        if isinstance(fn, SeqFn):
            return fn.f(args[0])
        if isinstance(fn, ExcClass):
            return Opaque("exception", name=fn.name)
        if isinstance(fn, Obj):
            m = self.find_method(fn.cls, "__call__")
            if m is None:
                raise RaiseSig("TypeError", "object not callable")
            return self.call_function(FuncRef(m), [fn] + list(args), kwargs)
        if isinstance(fn, Opaque):
            st = self.stubs.get("opaque:" + fn.tag)
            if st is not None:
                return st(self, *args, **kwargs)
            raise Unsupported("call of the external routine %s (no contract)" % fn.tag)
        if callable(fn):
            return _model_call(fn, args, kwargs)
        raise Unsupported("call of %r" % (fn,))

    def call_lib(self, path, args, kwargs):
        if path.startswith(NOOP_LIB_PREFIXES) or path in ("numpy.seterr",):
            return None
        f = self.lib.get(path)
        if f is None:
            raise Unsupported("library function %s has no contract in the table" % path)
        self.lib.used.add(path)
        return _model_call(f, (self,) + tuple(args), kwargs, path)

    def call_function(self, fref, args, kwargs):
        info = fref.info
        q = info.qualname
        if q in self.stubs:
            self.trace_calls.append(q)
            return self.stubs[q](self, *args, **kwargs)
        if self.call_depth > 60:
            raise Unsupported("call depth")
        frame = Frame(info.module, info.cls, parent=fref.closure, func=info)
        self.bind_args(info, frame, args, kwargs)
        if info.is_generator:
            return GenObj(info, frame)
        self.call_depth += 1
        try:
            self.exec_block(info.node.body, frame)
        except ReturnSig as r:
            return r.value
        finally:
            self.call_depth -= 1
        return None

    def bind_args(self, info, frame, args, kwargs):
        a = info.node.args
        params = [p.arg for p in a.posonlyargs + a.args]
        defaults = a.defaults
        ndef = len(defaults)
        kwargs = dict(kwargs)
        n = len(params)
        if len(args) > n and a.vararg is None:
            raise RaiseSig("TypeError", "%s() takes %d positional arguments" % (info.name, n))
        for i, p in enumerate(params):
            if i < len(args):
                if p in kwargs:
                    raise RaiseSig("TypeError", "multiple values for argument %s" % p)
                frame.locals[p] = args[i]
            elif p in kwargs:
                frame.locals[p] = kwargs.pop(p)
            else:
                di = i - (n - ndef)
                if di < 0:
                    raise RaiseSig("TypeError", "%s() missing argument %s" % (info.name, p))
                frame.locals[p] = self.eval(defaults[di], Frame(info.module, info.cls))
        if a.vararg is not None:
            frame.locals[a.vararg.arg] = tuple(args[n:])
        for i, p in enumerate(a.kwonlyargs):
            if p.arg in kwargs:
                frame.locals[p.arg] = kwargs.pop(p.arg)
            else:
                frame.locals[p.arg] = self.eval(a.kw_defaults[i], Frame(info.module, info.cls))
        if a.kwarg is not None:
            frame.locals[a.kwarg.arg] = kwargs
        elif kwargs:
            raise RaiseSig("TypeError", "%s() got an unexpected keyword argument %s" % (info.name, list(kwargs)[0]))

    def func_defaults(self, info):
        return tuple(self.eval(d, Frame(info.module, info.cls)) for d in info.node.args.defaults)

    def mro(self, cls):
        out = [cls]
        for b in cls.base_exprs:
            bv = self.eval(b, Frame(cls.module))
            if isinstance(bv, ClassRef):
                out += self.mro(bv.info)
        return out

    def find_method(self, cls, name):
        for c in self.mro(cls):
            if name in c.methods:
                return c.methods[name]
        return None

    def find_prop(self, cls, name):
        for c in self.mro(cls):
            if name in c.props:
                return c, c.props[name]
            if name in c.methods or name in c.attr_nodes:
                return None
        return None

    def is_exception_class(self, cls):
        for c in self.mro(cls):
            for b in c.base_exprs:
                if isinstance(b, ast.Name) and b.id in BUILTIN_EXC:
                    return True
        return False

    def instantiate(self, cls, args, kwargs):
        q = cls.qualname
        if q in self.stubs:
            self.trace_calls.append(q)
            return self.stubs[q](self, *args, **kwargs)
        if self.is_exception_class(cls):
            return Opaque("exception", name=cls.name)
        obj = Obj(cls)
        init = self.find_method(cls, "__init__")
        if init is not None:
            self.call_function(FuncRef(init), [obj] + list(args), kwargs)
        return obj

    # ---- attribute access ----------------------------------------------------------
    def mangle(self, name, frame):
        if name.startswith("__") and not name.endswith("__") and frame.cls is not None:
            return "_%s%s" % (frame.cls.name.lstrip("_"), name)
        return name

    def getattr(self, obj, name):
        if isinstance(obj, Obj):
            pr = self.find_prop(obj.cls, name)
            if pr is not None:
                c, p = pr
                if p.fget is None:
                    raise RaiseSig("AttributeError", name)
                m = self.find_method_from(c, p.fget)
                return self.call_function(FuncRef(m), [obj], {})
            if name in obj.attrs:
                return obj.attrs[name]
            if name == "__class__":
                return ClassRef(obj.cls)
            m = self.find_method(obj.cls, name)
            if m is not None:
                return BoundMethod(obj, m)
            for c in self.mro(obj.cls):
                if name in c.attr_nodes:
                    return self.class_attr(c, name)
            raise RaiseSig("AttributeError", "%s has no attribute %s" % (obj.cls.name, name))
        if isinstance(obj, SuperRef):
            for c in self.mro(obj.cls)[1:]:
                if name in c.methods:
                    return BoundMethod(obj.obj, c.methods[name])
            raise RaiseSig("AttributeError", name)
        if isinstance(obj, ModRef):
            return self.module_attr(obj.info, name)
        if isinstance(obj, LibRef):
            full = obj.path + "." + name
            c = self.lib.constant(self, full)
            if c is not None:
                return c
            return LibRef(full)
        if isinstance(obj, ClassRef):
            if name == "__name__":
                return obj.info.name
            m = self.find_method(obj.info, name)
            if m is not None:
                return FuncRef(m)
            for c in self.mro(obj.info):
                if name in c.attr_nodes:
                    return self.class_attr(c, name)
            raise RaiseSig("AttributeError", name)
        if isinstance(obj, FuncRef):
            if name == "__defaults__":
                return self.func_defaults(obj.info)
            if name == "__name__":
                return obj.info.name
        if isinstance(obj, dict):
            if name in ("keys", "get", "pop", "values", "items"):
                return DictMethod(obj, name)
        if isinstance(obj, str):
            return StrMethod(obj, name)
        if isinstance(obj, list) and name == "append":
            return obj.append
        r = self.lib.value_attr(self, obj, name)
        if r is not NotImplemented:
            return r
        raise Unsupported("attribute %s of %r" % (name, type(obj).__name__))

    def find_method_from(self, cls, name):
        for c in self.mro(cls):
            if name in c.methods:
                return c.methods[name]
        raise EngineError("accessor %s not found" % name)

    def class_attr(self, cls, name):
        key = ("classattr", cls.qualname, name)
        if key not in self.global_cache:
            self.global_cache[key] = self.eval(cls.attr_nodes[name], Frame(cls.module, cls))
        return self.global_cache[key]

    def setattr(self, obj, name, val):
        if isinstance(obj, Obj):
            pr = self.find_prop(obj.cls, name)
            if pr is not None:
                c, p = pr
                if p.fset is None:
                    raise RaiseSig("AttributeError", "can't set attribute %s" % name)
                m = self.find_method_from(c, p.fset)
                self.call_function(FuncRef(m), [obj, val], {})
                return
            obj.attrs[name] = val
            return
        if isinstance(obj, LibRef) or isinstance(obj, Opaque):
            return
        raise Unsupported("attribute assignment on %r" % (type(obj).__name__,))

    def module_attr(self, mod, name):
        if name in mod.functions:
            return FuncRef(mod.functions[name])
        if name in mod.classes:
            return ClassRef(mod.classes[name])
        if name in mod.global_nodes:
            key = ("global", mod.name, name)
            if key not in self.global_cache:
                self.global_cache[key] = self.eval(mod.global_nodes[name], Frame(mod))
            return self.global_cache[key]
        if name in mod.imports:
            return self.resolve_import(mod.imports[name])
        if mod.name == "spectrum":
            return self.package_name(name)
        raise RaiseSig("AttributeError", "module %s has no attribute %s" % (mod.name, name))

    def package_name(self, name):
        r = self.program.lookup_package_name(name)
        if r[0] == "module":
            return ModRef(r[1])
        if r[0] == "func":
            return FuncRef(r[1])
        if r[0] == "class":
            return ClassRef(r[1])
        return self.module_attr(r[1], r[2])

    def resolve_import(self, b):
        if b[0] == "lib":
            c = self.lib.constant(self, b[1])
            if c is not None:
                return c
            return LibRef(b[1])
        _, mod, nm = b
        if nm is None:
            return ModRef(self.program.module(mod))
        if mod == "spectrum":
            return self.package_name(nm)
        m = self.program.module(mod)
        if "spectrum." + nm in self.program.modules and mod == "spectrum":
            return ModRef(self.program.module("spectrum." + nm))
        return self.module_attr(m, nm)

    def lookup(self, name, frame):
        f = frame
        while f is not None:
            if name in f.locals:
                return f.locals[name]
            f = f.parent
        mod = frame.module
        if name in mod.functions or name in mod.classes or name in mod.global_nodes or name in mod.imports:
            return self.module_attr(mod, name)
        if name in BUILTIN_FUNCS:
            if name in BUILTIN_TYPES:
                return TypeMarker(name)
            return BuiltinFn(name)
        if name in BUILTIN_TYPES:
            return TypeMarker(name)
        if name in BUILTIN_EXC:
            return ExcClass(name)
        if name == "__file__":
            return "<file>"
        if name.startswith("c_") or name == "POINTER":
            return LibRef("ctypes." + name)          # `from ctypes import *`
        import builtins as _b
        if hasattr(_b, name):
            # a genuine Python builtin this interpreter does not model: the real program does NOT raise NameError here
            raise Unsupported("builtin %s is not modelled" % name)
        raise RaiseSig("NameError", "name %s is not defined" % name)

    # ---- statements ----------------------------------------------------------------
    def exec_block(self, stmts, frame):
        for st in stmts:
            self.exec_stmt(st, frame)

    def exec_stmt(self, st, frame):
        if hasattr(self.dom, "where"):
            self.dom.where = "%s:%d" % (frame.module.name, st.lineno)
        m = getattr(self, "st_" + type(st).__name__, None)
        if m is None:
            raise Unsupported("statement %s (line %d)" % (type(st).__name__, st.lineno))
        return m(st, frame)

    def st_Expr(self, st, frame):
        if isinstance(st.value, ast.Constant):
            return
        self.eval(st.value, frame)

    def st_Pass(self, st, frame):
        pass

    def st_Delete(self, st, frame):
        for t in st.targets:
            if isinstance(t, ast.Name):
                frame.locals.pop(t.id, None)
            elif isinstance(t, ast.Subscript):
                c = self.eval(t.value, frame)
                k = self.eval(t.slice, frame)
                if isinstance(c, dict):
                    c.pop(k, None)

    def st_Global(self, st, frame):
        raise Unsupported("global statement")

    def st_Import(self, st, frame):
        for k, b in import_bindings(st, frame.module.name).items():
            frame.locals[k] = self.resolve_import(b)

    def st_ImportFrom(self, st, frame):
        for k, b in import_bindings(st, frame.module.name).items():
            try:
                frame.locals[k] = self.resolve_import(b)
            except KeyError:
                raise RaiseSig("ImportError", k)

    def st_FunctionDef(self, st, frame):
        frame.locals[st.name] = FuncRef(FuncInfo(st, frame.module, None), closure=frame)

    def st_Return(self, st, frame):
        raise ReturnSig(self.eval(st.value, frame) if st.value is not None else None)

    def st_Break(self, st, frame):
        raise BreakSig()

    def st_Continue(self, st, frame):
        raise ContinueSig()

    def st_Raise(self, st, frame):
        if st.exc is None:
            raise RaiseSig("Exception", "re-raise")
        e = st.exc
        fn = e.func if isinstance(e, ast.Call) else e
        v = self.eval(fn, frame)
        if isinstance(v, ExcClass):
            raise RaiseSig(v.name)
        if isinstance(v, ClassRef):
            raise RaiseSig(v.info.name)
        if isinstance(v, Opaque) and v.tag == "exception":
            raise RaiseSig(v.name)
        raise RaiseSig("Exception", "raise of %r" % (v,))

    def st_Assert(self, st, frame):
        d = self.dom
        if hasattr(d, "decide"):
            # no solver: an assertion is taken to hold on the generic path; what its test compares is
            # recorded separately (a tolerance that does not scale with the data is a robustness note)
            d.in_assert = True
            try:
                c = self.eval(st.test, frame)
            finally:
                d.in_assert = False
            if isinstance(c, bool) and not c:
                raise RaiseSig("AssertionError")
            return
        c = self.eval(st.test, frame)
        if not self.truth(c):
            raise RaiseSig("AssertionError")

    def st_If(self, st, frame):
        c = self.eval(st.test, frame)
        if self.merge_mode and hasattr(c, "e") and not self.dom.is_scalar(c):
            kn = V.known(c)
            if kn is None:
                from . import loops
                return loops.merge_if(self, st, c, frame)
            c = kn
        if hasattr(self.dom, "decide") and hasattr(c, "e") and not self.dom.is_scalar(c):
            # generic path: an arm that only raises is the exceptional one
            rb = any(isinstance(x, ast.Raise) for x in st.body)
            ro = any(isinstance(x, ast.Raise) for x in st.orelse)
            if rb != ro:
                self.decisions.append(not rb)
                self.exec_block(st.orelse if rb else st.body, frame)
                return
        if self.truth(c):
            self.exec_block(st.body, frame)
        else:
            self.exec_block(st.orelse, frame)

    def st_Try(self, st, frame):
        try:
            self.exec_block(st.body, frame)
        except RaiseSig as r:
            for h in st.handlers:
                if h.type is None or self.exc_matches(h.type, r, frame):
                    if h.name:
                        frame.locals[h.name] = Opaque("exception", name=r.exc)
                    self.exec_block(h.body, frame)
                    break
            else:
                raise
        else:
            self.exec_block(st.orelse, frame)
        finally:
            if st.finalbody:
                self.exec_block(st.finalbody, frame)

    def exc_matches(self, tnode, r, frame):
        names = []
        nodes = tnode.elts if isinstance(tnode, ast.Tuple) else [tnode]
        for n in nodes:
            v = self.eval(n, frame)
            if isinstance(v, ExcClass):
                names.append(v.name)
            elif isinstance(v, ClassRef):
                names.append(v.info.name)
        if "Exception" in names:
            return True
        if r.exc in names:
            return True
        if r.exc == "ModuleNotFoundError" and "ImportError" in names:
            return True
        return False

    def st_Assign(self, st, frame):
        val = self.eval(st.value, frame)
        for t in st.targets:
            self.assign(t, val, frame)

    def st_AnnAssign(self, st, frame):
        if st.value is not None:
            self.assign(st.target, self.eval(st.value, frame), frame)

    def assign(self, t, val, frame):
        if isinstance(t, ast.Name):
            frame.locals[t.id] = val
        elif isinstance(t, (ast.Tuple, ast.List)):
            vals = self.unpack(val, len(t.elts))
            for tt, vv in zip(t.elts, vals):
                self.assign(tt, vv, frame)
        elif isinstance(t, ast.Attribute):
            obj = self.eval(t.value, frame)
            self.setattr(obj, self.mangle(t.attr, frame), val)
        elif isinstance(t, ast.Subscript):
            cont = self.eval(t.value, frame)
            self.setitem(cont, t.slice, val, frame)
        else:
            raise Unsupported("assignment target %s" % type(t).__name__)

    def unpack(self, val, n):
        if isinstance(val, (tuple, list)):
            vals = list(val)
        elif isinstance(val, Arr):
            vals = val.to_list()
        else:
            raise Unsupported("unpacking of %r" % type(val).__name__)
        if len(vals) != n:
            raise RaiseSig("ValueError", "unpack: expected %d values, got %d" % (n, len(vals)))
        return vals

    def st_AugAssign(self, st, frame):
        t = st.target
        if isinstance(t, ast.Name):
            cur = self.lookup(t.id, frame)
            if isinstance(cur, (Arr, Arr2)) and not getattr(cur, "is_list", False):
                # numpy in-place operator: same object, new contents
                new = self.binop(st.op, cur, self.eval(st.value, frame))
                self.inplace_replace(cur, new)
                return
            frame.locals[t.id] = self.binop(st.op, cur, self.eval(st.value, frame))
        elif isinstance(t, ast.Attribute):
            obj = self.eval(t.value, frame)
            nm = self.mangle(t.attr, frame)
            cur = self.getattr(obj, nm)
            new = self.binop(st.op, cur, self.eval(st.value, frame))
            if isinstance(cur, (Arr, Arr2)) and not getattr(cur, "is_list", False):
                self.inplace_replace(cur, new)
                new = cur
            self.setattr(obj, nm, new)
        elif isinstance(t, ast.Subscript):
            cont = self.eval(t.value, frame)
            cur = self.getitem(cont, t.slice, frame)
            if isinstance(cur, Arr) and isinstance(cont, Arr) and getattr(cur, "_view_of", None) is not None:
                # X[s] op= v  is  X[s] = X[s] op v  with the right-hand side evaluated first: the value read is a snapshot of
                # the slice, not a live alias of X (so the write below is not a write "through a view")
                snap = cur.copy()
                if cont._views:
                    cont._views = [r for r in cont._views if r() is not None and r() is not cur] or None
                cur._view_of = None
                cur = snap
            new = self.binop(st.op, cur, self.eval(st.value, frame))
            cur = None
            self.setitem(cont, t.slice, new, frame)
        else:
            raise Unsupported("augmented assignment target")

    def inplace_replace(self, cur, new):
        if isinstance(cur, Arr):
            cur._write_guard()
            if isinstance(new, Arr):
                dt = cur.dtype
                if V._RANK[new.dtype] > V._RANK[dt]:
                    if dt in ("int",) and new.dtype in ("float", "complex"):
                        raise RaiseSig("TypeError", "numpy: cannot cast in-place result to int")
                    if dt == "float" and new.dtype == "complex":
                        raise RaiseSig("TypeError", "numpy: cannot cast complex to float in place")
                s = new.snap()
                if new.items is not None:
                    cur.items = [V.cast_to(v, dt) for v in new.items]
                    cur.fn = None
                else:
                    cur.items = None
                    cur.fn = lambda i: V.cast_to(s(i), dt)
                return
        if isinstance(cur, Arr2) and isinstance(new, Arr2):
            vo = getattr(cur, "_view_of", None)
            if vo is not None and vo() is not None:
                raise Unsupported("in-place write through a reshaped view (aliasing guard)")
            cur.rows = [list(r) for r in new.rows] if new.rows is not None else None
            cur.fn = new.fn
            return
        raise Unsupported("in-place operator")

    # ---- loops ---------------------------------------------------------------------
    def iterate(self, it):
        """concrete iteration: returns a Python list of items or None if symbolic"""
        if isinstance(it, RangeVal):
            if it.concrete():
                return list(it.to_range())
            return None
        if isinstance(it, (list, tuple)):
            return list(it)
        if isinstance(it, dict):
            return list(it.keys())
        if isinstance(it, Arr):
            if isinstance(it.n, int):
                return it.to_list()
            return None
        if isinstance(it, Arr2):
            if isinstance(it.r, int):
                return [it.row(i) for i in range(it.r)]
            return None
        if isinstance(it, GenObj):
            r = self.run_generator(it)
            return self.iterate(r)
        if isinstance(it, EnumVal):
            inner = self.iterate(it.inner)
            if inner is None:
                return None
            return [(i, x) for i, x in enumerate(inner)]
        if isinstance(it, ZipVal):
            its = [self.iterate(a) for a in it.parts]
            if any(i is None for i in its):
                return None
            return list(zip(*its))
        raise Unsupported("iteration over %r" % type(it).__name__)

    def symbolic_seq(self, it):
        """(length, element-at-index) for an iterable of symbolic length: an array, enumerate(..) or zip(..) of such"""
        if isinstance(it, Arr):
            return it.n, (lambda j, a=it: a.get(j))
        if isinstance(it, EnumVal):
            sq = self.symbolic_seq(it.inner)
            if sq is None:
                return None
            n, f = sq
            return n, (lambda j, f=f: (j, f(j)))
        if isinstance(it, ZipVal):
            sqs = [self.symbolic_seq(p) for p in it.parts]
            if not sqs or any(q is None for q in sqs):
                return None
            n = sqs[0][0]
            for q in sqs[1:]:
                n = V.k_min(n, q[0])               # zip stops at the shortest
            return n, (lambda j, sqs=sqs: tuple(q[1](j) for q in sqs))
        return None

    def st_For(self, st, frame):
        it = self.eval(st.iter, frame)
        items = self.iterate(it)
        if items is None and not isinstance(it, RangeVal):
            sq = self.symbolic_seq(it)
            if sq is not None:
                # `for T in S` with S of symbolic length  ==  `for i in range(len(S)): T = S[i]; ...`
                self._desugar = getattr(self, "_desugar", 0) + 1
                iname, sname, nname = "__i%d" % self._desugar, "__s%d" % self._desugar, "__n%d" % self._desugar
                frame.locals[sname] = SeqFn(sq[1])
                frame.locals[nname] = sq[0]
                bind = ast.Assign(targets=[st.target], value=ast.Call(func=ast.Name(id=sname, ctx=ast.Load()),
                                                                     args=[ast.Name(id=iname, ctx=ast.Load())], keywords=[]))
                loop = ast.For(target=ast.Name(id=iname, ctx=ast.Store()),
                               iter=ast.Call(func=ast.Name(id="range", ctx=ast.Load()), args=[ast.Name(id=nname, ctx=ast.Load())], keywords=[]),
                               body=[bind] + list(st.body), orelse=list(st.orelse))
                ast.copy_location(loop, st)
                ast.copy_location(bind, st)
                ast.fix_missing_locations(loop)
                return self.st_For(loop, frame)
        if items is None:
            from . import loops
            return loops.summarise_for(self, st, it, frame)
        broke = False
        hook = getattr(self, "loop_hook", None)
        for x in items:
            self.assign(st.target, x, frame)
            if hook is not None and hook("before", st, frame, x) == "skip":
                continue
            try:
                self.exec_block(st.body, frame)
            except BreakSig:
                broke = True
                break
            except ContinueSig:
                if hook is not None:
                    hook("after", st, frame, x)
                continue
            if hook is not None:
                hook("after", st, frame, x)
        if not broke and st.orelse:
            self.exec_block(st.orelse, frame)

    def st_While(self, st, frame):
        n = 0
        limit = getattr(self.dom, "while_limit", 200)
        forced = getattr(self.dom, "while_iters", None)
        while True:
            c = self.eval(st.test, frame)
            if forced is not None and hasattr(c, "e") and not self.dom.is_scalar(c):
                # no solver: a data dependent loop runs a fixed number of generic iterations
                if n >= forced:
                    break
            elif getattr(self.dom, "while_plan", None) is not None and hasattr(c, "e") and not self.dom.is_scalar(c):
                # contract-directed unrolling: the data dependent test is taken to hold exactly
                # `while_plan` times (recorded as an assumption of the obligation)
                if n >= self.dom.while_plan:
                    break
            elif not self.truth(c):
                break
            n += 1
            if n > limit:
                raise Unsupported("while loop exceeds unrolling limit")
            try:
                self.exec_block(st.body, frame)
            except BreakSig:
                break
            except ContinueSig:
                continue

    # ---- generators ------------------------------------------------------------------
    def run_generator(self, g):
        """generator body = (branched) ``for v in range(..): yield expr`` -> array"""
        parts = []
        self.gen_block(g.info.node.body, g.frame, parts)
        if not parts:
            return Arr.from_items([], is_list=True)
        r = V.concat(parts, is_list=True) if len(parts) > 1 else parts[0]
        r.is_list = True
        return r

    def gen_block(self, stmts, frame, parts):
        for st in stmts:
            if isinstance(st, ast.Expr) and isinstance(st.value, ast.Constant):
                continue
            if isinstance(st, ast.If):
                if self.truth(self.eval(st.test, frame)):
                    self.gen_block(st.body, frame, parts)
                else:
                    self.gen_block(st.orelse, frame, parts)
            elif isinstance(st, ast.For):
                it = self.eval(st.iter, frame)
                if not (len(st.body) == 1 and isinstance(st.body[0], ast.Expr)
                        and isinstance(st.body[0].value, ast.Yield) and isinstance(st.target, ast.Name)):
                    raise Unsupported("generator loop shape")
                parts.append(self.comprehend(st.target, it, st.body[0].value.value, [], frame, is_list=True))
            elif isinstance(st, ast.Expr) and isinstance(st.value, ast.Yield):
                parts.append(Arr.from_items([self.eval(st.value.value, frame)], is_list=True))
            else:
                raise Unsupported("generator statement %s" % type(st).__name__)

    def comprehend(self, target, it, elt, ifs, frame, is_list=True):
        """[elt for target in it] -> Arr"""
        items = self.iterate(it)
        sub = Frame(frame.module, frame.cls, parent=frame, func=frame.func)
        if items is not None:
            out = []
            for x in items:
                self.assign(target, x, sub)
                if all(self.truth(self.eval(c, sub)) for c in ifs):
                    out.append(self.eval(elt, sub))
            return Arr.from_items(out, is_list=is_list)
        if not ifs and not isinstance(it, RangeVal):
            sq = self.symbolic_seq(it)
            if sq is not None and hasattr(self.dom, "fresh_int"):
                # [elt for T in S], S of symbolic length: the element at a generic index j, T bound to S[j]
                from .z3dom import subst
                n, elem = sq
                j = self.dom.fresh_int("cj")
                mark = len(self.pc)
                self.assume(V.b_and(V.s_cmp(">=", j, 0), V.s_cmp("<", j, n)))
                ndec = len(self.decisions)
                self.assign(target, elem(j), sub)
                val = self.eval(elt, sub)
                if len(self.decisions) != ndec:
                    self.check_uniform(ndec, mark)
                del self.pc[mark:]
                if isinstance(val, (Arr, Arr2)) or not V.is_num(val):
                    raise Unsupported("comprehension element is not a scalar")
                r = Arr.build(n, lambda i: subst(val, [(j, i)]), V.dtype_of_scalar(val))
                r.is_list = is_list
                return r
        if ifs or not isinstance(it, RangeVal) or not isinstance(target, ast.Name):
            raise Unsupported("comprehension over symbolic iterable with filter")
        if it.step not in (1, -1):
            raise Unsupported("comprehension over symbolic range with step")
        d = self.dom
        if not hasattr(d, "fresh_int"):
            raise Unsupported("symbolic comprehension in this domain")
        from .z3dom import subst
        j = d.fresh_int("cj")
        ln = it.length()
        mark = len(self.pc)
        if it.step == 1:
            self.assume(V.b_and(V.s_cmp(">=", j, it.lo), V.s_cmp("<", j, it.hi)))
        else:
            self.assume(V.b_and(V.s_cmp("<=", j, it.lo), V.s_cmp(">", j, it.hi)))
        sub.locals[target.id] = j
        ndec = len(self.decisions)
        val = self.eval(elt, sub)
        # decisions taken while evaluating at the generic index must hold for every index:
        # they were forced by the path condition (otherwise both outcomes were feasible and
        # the element is not a uniform function of j)
        if len(self.decisions) != ndec:
            self.check_uniform(ndec, mark)
        del self.pc[mark:]
        lo, step = it.lo, it.step
        if isinstance(val, (Arr, Arr2)) or not V.is_num(val):
            raise Unsupported("comprehension element is not a scalar")
        dt = V.dtype_of_scalar(val)
        r = Arr.build(ln, lambda i: subst(val, [(j, lo + step * i)]), dt)
        r.is_list = is_list
        return r

    def check_uniform(self, ndec, mark):
        """branches taken under a generic loop index are only sound if they were forced"""
        import z3
        base = self.pc[:mark + 1]
        for k, c in enumerate(self.pc[mark + 1:]):
            # every later conjunct must be implied by what preceded it
            r, _ = self.dom.check(base + self.dom.facts + [z3.Not(c)], timeout_ms=5000)
            if r != "unsat":
                raise Unsupported("data-dependent branch under a generic (summarised) index")
            base.append(c)

    # ---- expressions -----------------------------------------------------------------
    def eval(self, e, frame):
        m = getattr(self, "ev_" + type(e).__name__, None)
        if m is None:
            raise Unsupported("expression %s" % type(e).__name__)
        return m(e, frame)

    def ev_Constant(self, e, frame):
        return V.to_frac(e.value)

    def ev_Name(self, e, frame):
        return self.lookup(e.id, frame)

    def ev_Tuple(self, e, frame):
        return tuple(self.eval(x, frame) for x in e.elts)

    def ev_List(self, e, frame):
        items = [self.eval(x, frame) for x in e.elts]
        if all(V.is_num(x) and not isinstance(x, bool) for x in items):
            return Arr.from_items(items, is_list=True)
        return items

    def ev_Dict(self, e, frame):
        return {self.eval(k, frame): self.eval(v, frame) for k, v in zip(e.keys, e.values)}

    def ev_JoinedStr(self, e, frame):
        return ""

    def ev_Lambda(self, e, frame):
        # lambda args: expr  ==  def <lambda>(args): return expr, closed over the enclosing frame (like a nested def)
        fd = ast.FunctionDef(name="<lambda>", args=e.args, body=[ast.Return(value=e.body)], decorator_list=[], returns=None, type_comment=None)
        ast.copy_location(fd, e)
        ast.fix_missing_locations(fd)
        from .source import FuncInfo
        return FuncRef(FuncInfo(fd, frame.module, None), closure=frame)

    def ev_IfExp(self, e, frame):
        if self.truth(self.eval(e.test, frame)):
            return self.eval(e.body, frame)
        return self.eval(e.orelse, frame)

    def ev_Attribute(self, e, frame):
        obj = self.eval(e.value, frame)
        return self.getattr(obj, self.mangle(e.attr, frame))

    def ev_Subscript(self, e, frame):
        cont = self.eval(e.value, frame)
        return self.getitem(cont, e.slice, frame)

    def ev_Slice(self, e, frame):
        return ("slice",
                self.eval(e.lower, frame) if e.lower is not None else None,
                self.eval(e.upper, frame) if e.upper is not None else None,
                self.eval(e.step, frame) if e.step is not None else None)

    def ev_Starred(self, e, frame):
        raise Unsupported("starred expression")

    def ev_ListComp(self, e, frame):
        if len(e.generators) != 1:
            raise Unsupported("nested comprehension")
        g = e.generators[0]
        it = self.eval(g.iter, frame)
        return self.comprehend(g.target, it, e.elt, g.ifs, frame, is_list=True)

    ev_GeneratorExp = ev_ListComp

    def ev_Yield(self, e, frame):
        raise Unsupported("yield outside the supported generator shapes")

    def ev_UnaryOp(self, e, frame):
        v = self.eval(e.operand, frame)
        if isinstance(e.op, ast.USub):
            if isinstance(v, bool):
                return -int(v)
            return -v
        if isinstance(e.op, ast.UAdd):
            return v
        if isinstance(e.op, ast.Not):
            if hasattr(v, "e") and not self.dom.is_scalar(v):
                r = V.b_not(v)
                # Python's `not` always yields a genuine bool (never a numpy.bool_): remember it, so that a later
                # `r is True` / `r is False` means what it says
                pb = self.__dict__.setdefault("_pybools", [])
                if len(pb) > 2000:
                    del pb[:1000]
                pb.append(r)
                return r
            return not self.truth(v)
        raise Unsupported("unary operator")

    def ev_BoolOp(self, e, frame):
        is_and = isinstance(e.op, ast.And)
        acc = None
        for sub in e.values:
            v = self.eval(sub, frame)
            if isinstance(v, Arr) and not v.is_list and v.dtype == "bool" and V.is_conc(v.n) and v.n == 1:
                v = v.get(0)        # numpy: the truth value of a one-element array is that of its element
            symbolic = hasattr(v, "e") and not self.dom.is_scalar(v)
            if not symbolic:
                t = self.truth(v)
                if acc is None:
                    if is_and and not t:
                        return v
                    if (not is_and) and t:
                        return v
                    last = v
                    continue
                # mix of symbolic accumulated and concrete
                if is_and and not t:
                    return False
                if (not is_and) and t:
                    return True
                continue
            acc = v if acc is None else (V.b_and(acc, v) if is_and else V.b_or(acc, v))
            last = acc
        if acc is not None:
            return acc
        return last

    def ev_Compare(self, e, frame):
        left = self.eval(e.left, frame)
        res = True
        for op, rn in zip(e.ops, e.comparators):
            right = self.eval(rn, frame)
            r = self.compare(op, left, right)
            res = r if res is True else V.b_and(res, r)
            if res is False:
                return False
            left = right
        return res

    def compare(self, op, a, b):
        if isinstance(op, ast.Is):
            return self.identical(a, b)
        if isinstance(op, ast.IsNot):
            return V.b_not(self.identical(a, b))
        if isinstance(op, (ast.In, ast.NotIn)):
            r = self.contains(b, a)
            return r if isinstance(op, ast.In) else V.b_not(r)
        sym = {ast.Eq: "==", ast.NotEq: "!=", ast.Lt: "<", ast.LtE: "<=", ast.Gt: ">", ast.GtE: ">="}[type(op)]
        if isinstance(a, (Arr, Arr2)) or isinstance(b, (Arr, Arr2)):
            if isinstance(a, Arr) and a.is_list and isinstance(b, Arr) and b.is_list and sym in ("==", "!="):
                if isinstance(a.n, int) and isinstance(b.n, int):
                    if a.n != b.n:
                        return sym == "!="
                    r = True
                    for x, y in zip(a.to_list(), b.to_list()):
                        r = V.b_and(r, V.s_eq(x, y))
                    return r if sym == "==" else V.b_not(r)
            return self.lib.array_compare(self, sym, a, b)
        if isinstance(a, Enum) or isinstance(b, Enum):
            if sym in ("==", "!="):
                eq = self.py_equal(a, b)
                return eq if sym == "==" else V.b_not(eq)
            raise Unsupported("ordering comparison of an enumeration value")
        an, bn = V.is_num(a), V.is_num(b)
        if an and bn:
            return V.s_cmp(sym, a, b)
        if sym in ("==", "!="):
            if an != bn:
                # number vs None/str/...: never equal
                eq = False
            else:
                eq = self.py_equal(a, b)
            return eq if sym == "==" else V.b_not(eq)
        if a is None or b is None:
            raise RaiseSig("TypeError", "ordering comparison with None")
        if isinstance(a, str) and isinstance(b, str):
            return {"<": a < b, "<=": a <= b, ">": a > b, ">=": a >= b}[sym]
        raise Unsupported("comparison %s of %r and %r" % (sym, type(a).__name__, type(b).__name__))

    def py_equal(self, a, b):
        if isinstance(a, Enum):
            return V.enum_eq(a, b)
        if isinstance(b, Enum):
            return V.enum_eq(b, a)
        if isinstance(a, (list, tuple)) and isinstance(b, (list, tuple)):
            if len(a) != len(b) or type(a) != type(b):
                return False
            r = True
            for x, y in zip(a, b):
                r = V.b_and(r, self.compare(ast.Eq(), x, y))
            return r
        if isinstance(a, ClassRef) and isinstance(b, ClassRef):
            return a.info is b.info
        if isinstance(a, (FuncRef,)) and isinstance(b, FuncRef):
            return a.info is b.info
        if isinstance(a, TypeMarker) or isinstance(b, TypeMarker):
            return a == b
        if isinstance(a, (str, type(None), bool)) or isinstance(b, (str, type(None), bool)):
            return type(a) == type(b) and a == b
        return a is b

    def identical(self, a, b):
        if isinstance(a, Enum) or isinstance(b, Enum):
            e, o = (a, b) if isinstance(a, Enum) else (b, a)
            if o is None or isinstance(o, (bool, Enum)):
                return V.enum_eq(e, o)
            return False
        if a is None or b is None:
            return a is b
        if isinstance(a, bool) or isinstance(b, bool):
            if isinstance(a, bool) and isinstance(b, bool):
                return a == b
            sym_, const_ = (a, b) if isinstance(b, bool) else (b, a)
            if any(x is sym_ for x in self.__dict__.get("_pybools", ())):
                return sym_ if const_ else V.b_not(sym_)       # a genuine Python bool: identity with True / False is its value
            if hasattr(a, "e") or hasattr(b, "e"):
                # `x is True` where x is a symbolic numpy bool: numpy.bool_ is not the
                # singleton True, but the code base relies on `== True` / `is True` for
                # flags that are concrete here
                raise Unsupported("`is` on a symbolic boolean")
            return False
        if isinstance(a, str) and isinstance(b, str):
            return a == b
        if isinstance(a, int) and isinstance(b, int) and not isinstance(a, bool):
            return a == b
        return a is b

    def contains(self, cont, x):
        if isinstance(cont, dict) and isinstance(x, Enum):
            cont = list(cont.keys())
        if isinstance(cont, dict):
            return any(self.py_equal(x, k) is True for k in cont.keys()) if not V.is_num(x) else any(
                V.is_num(k) and V.s_eq(x, k) is True for k in cont.keys())
        if isinstance(cont, str):
            return isinstance(x, str) and x in cont
        if isinstance(cont, Arr):
            cont = cont.to_list()
        if isinstance(cont, (list, tuple)):
            r = False
            for k in cont:
                c = self.compare(ast.Eq(), x, k)
                r = V.b_or(r, c)
                if r is True:
                    return True
            return r
        raise Unsupported("`in` on %r" % type(cont).__name__)

    def ev_BinOp(self, e, frame):
        a = self.eval(e.left, frame)
        if isinstance(e.op, ast.Mod) and isinstance(a, str):
            # message formatting: evaluate operands for their effects on paths? they are
            # pure attribute reads in the code base; skip
            return ""
        b = self.eval(e.right, frame)
        return self.binop(e.op, a, b)

    def binop(self, op, a, b):
        if isinstance(a, bool):
            a = int(a)
        if isinstance(b, bool):
            b = int(b)
        if isinstance(a, str) or isinstance(b, str):
            if isinstance(op, ast.Add) and isinstance(a, str) and isinstance(b, str):
                return a + b
            if isinstance(op, ast.Mod):
                return ""
            raise Unsupported("string operator")
        if isinstance(a, list) and isinstance(b, list) and isinstance(op, ast.Add):
            return a + b
        if isinstance(a, list) and isinstance(b, int) and isinstance(op, ast.Mult):
            return a * b
        if isinstance(a, tuple) and isinstance(b, tuple) and isinstance(op, ast.Add):
            return a + b
        if a is None or b is None:
            raise RaiseSig("TypeError", "unsupported operand type(s): NoneType")
        if isinstance(a, (list, tuple)):
            a = self.lib.as_array(self, a)
        if isinstance(b, (list, tuple)):
            b = self.lib.as_array(self, b)
        if isinstance(op, ast.Add):
            return a + b
        if isinstance(op, ast.Sub):
            return a - b
        if isinstance(op, ast.Mult):
            return a * b
        if isinstance(op, ast.Div):
            if V.is_conc(a) and V.is_conc(b):
                return V.s_div(a, b)
            if isinstance(a, (Arr, Arr2)):
                return a / b
            if isinstance(b, (Arr, Arr2)):
                return b.__rtruediv__(a)
            return V.s_div(a, b)
        if isinstance(op, ast.MatMult):
            # a @ b on arrays is numpy.dot(a, b) for the 1-D / 2-D cases the library contract covers (scalars: numpy raises)
            if isinstance(a, (Arr, Arr2)) and isinstance(b, (Arr, Arr2)):
                return self.call_lib("numpy.dot", [a, b], {})
            if V.is_num(a) or V.is_num(b):
                raise RaiseSig("ValueError", "matmul: input operand does not have enough dimensions")
            raise Unsupported("@ on %s and %s" % (type(a).__name__, type(b).__name__))
        if isinstance(op, (ast.LShift, ast.RShift)):
            # integer shifts: a << k = a * 2**k, a >> k = a // 2**k  (k >= 0; Python raises ValueError for a negative count)
            if isinstance(a, (Arr, Arr2)) or isinstance(b, (Arr, Arr2)):
                raise Unsupported("shift of arrays")
            if isinstance(a, bool):
                a = int(a)
            if isinstance(a, int) and isinstance(b, int):
                if b < 0:
                    raise RaiseSig("ValueError", "negative shift count")
                return a << b if isinstance(op, ast.LShift) else a >> b
            if isinstance(a, Fraction) or isinstance(b, Fraction) or isinstance(a, Cx) or isinstance(b, Cx):
                raise RaiseSig("TypeError", "unsupported operand type(s) for shift")
            if not (V.s_is_int(a) and V.s_is_int(b)):
                raise Unsupported("shift of non-integer symbolic values")
            self.dom.require(V.s_cmp(">=", b, 0), "negative shift count", "ValueError")
            two_k = V.s_pow(2, b)
            return a * two_k if isinstance(op, ast.LShift) else self.binop(ast.FloorDiv(), a, two_k)
        if isinstance(op, ast.FloorDiv):
            if isinstance(a, (Arr, Arr2)) or isinstance(b, (Arr, Arr2)):
                raise Unsupported("array floor division")
            return V.s_floordiv(a, b)
        if isinstance(op, ast.Mod):
            if isinstance(a, (Arr, Arr2)) or isinstance(b, (Arr, Arr2)):
                raise Unsupported("array modulo")
            return V.s_mod(a, b)
        if isinstance(op, ast.Pow):
            if isinstance(a, (Arr, Arr2)):
                return a ** b
            if isinstance(b, (Arr, Arr2)):
                return b.__rpow__(a)
            if V.is_conc(a) and V.is_conc(b) and V._int_like(b) is not None and V._int_like(b) >= 0 or \
                    (V.is_conc(a) and V.is_conc(b) and V._int_like(b) is not None and a != 0):
                r = Fraction(a) ** V._int_like(b)
                if isinstance(a, int) and isinstance(b, int) and b >= 0:
                    return int(r)
                return r
            return V.s_pow(a, b)
        raise Unsupported("binary operator %s" % type(op).__name__)

    def ev_Call(self, e, frame):
        # logging / print are dropped before their arguments are evaluated
        if isinstance(e.func, ast.Attribute) and isinstance(e.func.value, ast.Name) and e.func.value.id == "logging":
            return None
        if isinstance(e.func, ast.Name) and e.func.id == "print":
            return None
        fn = self.eval(e.func, frame)
        if isinstance(fn, StrMethod) and fn.name == "format":
            return ""
        args = []
        for a in e.args:
            if isinstance(a, ast.Starred):
                v = self.eval(a.value, frame)
                args += list(v) if isinstance(v, (list, tuple)) else v.to_list()
            else:
                args.append(self.eval(a, frame))
        kwargs = {}
        for kw in e.keywords:
            if kw.arg is None:
                d = self.eval(kw.value, frame)
                if not isinstance(d, dict):
                    raise Unsupported("** of non-dict")
                kwargs.update(d)
            else:
                kwargs[kw.arg] = self.eval(kw.value, frame)
        if isinstance(fn, BuiltinFn) and fn.name in ("eval", "super", "globals"):
            return self.call_builtin(fn.name, args, kwargs, frame)
        return self.call(fn, args, kwargs)

    # ---- subscripts -------------------------------------------------------------------
    def eval_index(self, sl, frame):
        if isinstance(sl, ast.Slice):
            return self.ev_Slice(sl, frame)
        if isinstance(sl, ast.Tuple):
            return tuple(self.eval_index(x, frame) for x in sl.elts)
        return self.eval(sl, frame)

    def getitem(self, cont, slnode, frame):
        idx = self.eval_index(slnode, frame)
        return self.index_value(cont, idx)

    def index_value(self, cont, idx):
        if isinstance(cont, LibRef) and cont.path in ("numpy.r_", "numpy.lib.index_tricks.r_"):
            # np.r_[a, b, ...] with array / scalar parts (no slice or string directives): concatenation along the first axis
            parts = list(idx) if isinstance(idx, tuple) and not (idx and idx[0] == "slice") else [idx]
            if any(isinstance(q, str) or (isinstance(q, tuple) and q and q[0] == "slice") for q in parts):
                raise Unsupported("np.r_ with slice or string directives")
            return self.call_lib("numpy.concatenate", [[q if isinstance(q, (Arr, list)) else Arr.from_items([q]) for q in parts]], {})
        if isinstance(cont, GlobalsView):
            mod = cont.module
            if isinstance(idx, str) and (idx in mod.functions or idx in mod.classes or idx in mod.global_nodes or idx in mod.imports):
                return self.module_attr(mod, idx)
            if not isinstance(idx, str):
                raise Unsupported("globals()[non-constant]")
            raise RaiseSig("KeyError", str(idx))
        if isinstance(cont, dict):
            for k, v in cont.items():
                if self.py_equal(idx, k) is True if not V.is_num(idx) else (V.is_num(k) and V.s_eq(idx, k) is True):
                    return v
            raise RaiseSig("KeyError", str(idx))
        if isinstance(cont, (list, tuple)):
            if isinstance(idx, tuple) and idx and idx[0] == "slice":
                _, lo, hi, st = idx
                return cont[slice(lo, hi, st)]
            if not isinstance(idx, int):
                if V.is_num(idx) and not V.is_conc(idx):
                    raise Unsupported("symbolic index into a Python list of non-scalars")
                raise RaiseSig("TypeError", "list indices must be integers")
            try:
                return cont[idx]
            except IndexError:
                raise RaiseSig("IndexError", "list index out of range")
        if isinstance(cont, str):
            return cont[idx]
        if isinstance(cont, Arr):
            if isinstance(idx, tuple) and idx and idx[0] == "slice":
                return cont.slice(idx[1:])
            if isinstance(idx, Arr):
                if idx.dtype == "bool":
                    # x[mask] is x[where(mask)[0]] by definition; `where` is a library contract (concrete masks)
                    pos = self.call_lib("numpy.where", [idx], {})
                    pos = pos[0] if isinstance(pos, (tuple, list)) else pos
                    return self.index_value(cont, pos)
                return cont.take(idx)
            if isinstance(idx, tuple):
                if len(idx) == 1:
                    return self.index_value(cont, idx[0])
                return self.lib.nd_index(self, cont, idx)
            if isinstance(idx, Arr2):
                if idx.dtype not in ("int",):
                    raise Unsupported("indexing a 1-D array with a 2-D array of dtype %s" % idx.dtype)
                # a[I] for a 2-D integer index array I: the array of I's shape with entries a[I[i, j]].  numpy checks every index
                # when the result is created: do the same once, for an arbitrary position (i0, j0) of I
                s_, si, n_ = cont.snap(), idx.snap(), cont.n
                if V.is_conc(idx.r) and V.is_conc(idx.c) and int(idx.r) * int(idx.c) <= 4096 and not hasattr(self.dom, "fresh_int"):
                    for i in range(int(idx.r)):
                        for j in range(int(idx.c)):
                            self._index_check(V.norm_index(si(i, j), n_), n_)
                elif hasattr(self.dom, "fresh_int"):
                    i0, j0 = self.dom.fresh_int("fi"), self.dom.fresh_int("fj")
                    self.assume(V.b_and(V.b_and(V.s_cmp(">=", i0, 0), V.s_cmp("<", i0, idx.r)),
                                        V.b_and(V.s_cmp(">=", j0, 0), V.s_cmp("<", j0, idx.c))))
                    self._index_check(V.norm_index(si(i0, j0), n_), n_)
                else:
                    raise Unsupported("fancy indexing with an index array of symbolic shape in this domain")
                return Arr2.build(idx.r, idx.c, lambda i, j: s_(V.norm_index(si(i, j), n_)), cont.dtype)
            if not V.is_num(idx):
                # an index kind this interpreter does not model: NOT an IndexError of the program
                raise Unsupported("index of type %s into a 1-D array" % type(idx).__name__)
            if isinstance(idx, Fraction) or (not V.s_is_int(idx)):
                raise RaiseSig("IndexError", "only integers are valid indices")
            return cont.get(idx)
        if isinstance(cont, Arr2):
            if isinstance(idx, tuple) and not (idx and idx[0] == "slice"):
                if len(idx) != 2:
                    raise Unsupported("index arity")
                r, c = idx
                r = r[1:] if isinstance(r, tuple) else r
                c = c[1:] if isinstance(c, tuple) else c
                return cont.sub(r, c)
            if isinstance(idx, tuple):
                a, st, ln = V.slice_bounds(idx[1:], cont.r)
                s = cont.snap()
                return Arr2.build(ln, cont.c, lambda i, j: s(a + st * i, j), cont.dtype)
            return cont.row(idx)
        r = self.lib.index_other(self, cont, idx)
        if r is not NotImplemented:
            return r
        raise Unsupported("subscript of %r" % type(cont).__name__)

    def setitem(self, cont, slnode, val, frame):
        idx = self.eval_index(slnode, frame)
        if isinstance(val, (list, tuple)):
            val = self.lib.as_array(self, val)
        if self.merge_mode and isinstance(cont, (Arr, Arr2)) and getattr(self, "loop_stack", None):
            if getattr(cont, "_born", 0) < self.loop_stack[-1].epoch:
                from . import loops
                return loops.record_setitem(self, cont, idx, val)
        if isinstance(cont, dict):
            cont[idx] = val
            return
        if isinstance(cont, list):
            cont[idx] = val
            return
        if isinstance(cont, Arr):
            if isinstance(idx, tuple) and idx and idx[0] == "slice":
                cont.set_slice(idx[1:], val)
                return
            if isinstance(val, (Arr, Arr2)) and cont.dtype != "object":
                raise RaiseSig("ValueError", "setting an array element with a sequence")
            cont.set(idx, val)
            return
        if isinstance(cont, Arr2):
            if isinstance(idx, tuple) and not (idx and idx[0] == "slice"):
                r, c = idx
                r2 = r[1:] if isinstance(r, tuple) else r
                c2 = c[1:] if isinstance(c, tuple) else c
                if not isinstance(r, tuple) and not isinstance(c, tuple):
                    cont.set(r, c, val)
                else:
                    cont.set_region(r2, c2, val)
                return
            if isinstance(idx, tuple):
                cont.set_region(idx[1:], (None, None, None), val)
                return
            cont.set_region(idx, (None, None, None), val)
            return
        raise Unsupported("item assignment on %r" % type(cont).__name__)

    # ---- builtins ---------------------------------------------------------------------
    def call_builtin(self, name, args, kwargs, frame=None):
        if name == "len":
            (x,) = args
            if isinstance(x, Arr):
                return x.n
            if isinstance(x, Arr2):
                return x.r
            if isinstance(x, (list, tuple, dict, str)):
                return len(x)
            if isinstance(x, GenObj):
                raise RaiseSig("TypeError", "len of generator")
            if isinstance(x, Obj):
                m = self.find_method(x.cls, "__len__")
                if m is not None:
                    return self.call_function(FuncRef(m), [x], {})
                raise RaiseSig("TypeError", "object of type %s has no len()" % x.cls.name)
            if x is None or isinstance(x, Cx) or V.is_num(x):
                raise RaiseSig("TypeError", "object of type %s has no len()" % type(x).__name__)
            # a value kind of this interpreter for which len() is simply not modelled: not a TypeError of the program
            raise Unsupported("len() of %s" % type(x).__name__)
        if name == "range":
            a = [self.as_index(x) for x in args]
            if len(a) == 1:
                return RangeVal(0, a[0], 1)
            if len(a) == 2:
                return RangeVal(a[0], a[1], 1)
            return RangeVal(a[0], a[1], a[2])
        if name == "abs":
            (x,) = args
            if isinstance(x, (Arr, Arr2)):
                return abs(x)
            return V.s_abs(x)
        if name == "float":
            (x,) = args
            if isinstance(x, str):
                raise Unsupported("float(str)")
            if isinstance(x, (Arr, Arr2)):
                x = self.lib.scalar_of(self, x)
            return V.to_float(x)
        if name == "int":
            (x,) = args
            if isinstance(x, (Arr, Arr2)):
                x = self.lib.scalar_of(self, x)
            if isinstance(x, Cx):
                raise RaiseSig("TypeError", "int() of complex")
            return V.s_trunc(x)
        if name == "complex":
            if len(args) == 1:
                return Cx.of(args[0])
            return Cx(args[0], args[1])
        if name == "bool":
            return self.truth(args[0])
        if name == "str":
            return ""
        if name in ("list", "tuple"):
            if not args:
                return [] if name == "list" else ()
            (x,) = args
            if isinstance(x, GenObj):
                return self.run_generator(x)
            if isinstance(x, RangeVal):
                items = self.iterate(x)
                if items is None:
                    lo, st = x.lo, x.step
                    r = Arr.build(x.length(), lambda i: lo + st * i, "int")
                    r.is_list = True
                    return r
                return Arr.from_items(items, is_list=True)
            if isinstance(x, dict):
                return list(x.keys())
            if isinstance(x, Arr):
                r = x.copy()
                r.is_list = True
                return r
            if isinstance(x, ReversedVal):
                return x.materialise()
            if isinstance(x, (list, tuple)):
                return list(x) if name == "list" else tuple(x)
            if isinstance(x, DictView):
                return list(x.items)
            raise Unsupported("%s() of %r" % (name, type(x).__name__))
        if name == "reversed":
            (x,) = args
            return ReversedVal(x)
        if name == "enumerate":
            return EnumVal(args[0])
        if name == "zip":
            its = [self.iterate(a) for a in args]
            if any(i is None for i in its):
                return ZipVal(list(args))          # stays symbolic: consumed by a for loop / comprehension (symbolic_seq)
            return list(zip(*its))
        if name == "sum":
            x = args[0]
            start = args[1] if len(args) > 1 else 0
            if isinstance(x, Arr2):
                return self.lib.sum_axis0(self, x) if (isinstance(start, int) and start == 0) else start + self.lib.sum_axis0(self, x)
            if isinstance(x, (list, tuple)):
                r = start
                for v in x:
                    r = r + v
                return r
            if isinstance(x, Arr):
                return self.lib.sum1(self, x, start)
            raise Unsupported("sum of %r" % type(x).__name__)
        if name in ("max", "min"):
            if len(args) == 1:
                x = args[0]
                items = self.iterate(x) if not isinstance(x, (list, tuple)) else list(x)
                if items is None:
                    return self.lib.reduce_minmax(self, name, x)
            else:
                items = list(args)
            if not items:
                raise RaiseSig("ValueError", "%s() arg is an empty sequence" % name)
            r = items[0]
            for v in items[1:]:
                r = V.s_max(r, v) if name == "max" else V.s_min(r, v)
            return r
        if name == "any":
            r = False
            for v in self.iterate(args[0]):
                r = V.b_or(r, v)
            return r
        if name == "all":
            r = True
            for v in self.iterate(args[0]):
                r = V.b_and(r, v)
            return r
        if name == "isinstance":
            x, t = args
            ts = t if isinstance(t, tuple) else (t,)
            return any(self.isinstance1(x, tt) for tt in ts)
        if name == "type":
            return self.type_of(args[0])
        if name == "globals":
            f = frame
            while f is not None and getattr(f, "module", None) is None:
                f = f.parent
            return GlobalsView(f.module if f is not None else frame.module)
        if name == "eval":
            (s,) = args
            if not isinstance(s, str):
                raise Unsupported("eval of non-constant")
            return self.eval(ast.parse(s, mode="eval").body, frame)
        if name == "super":
            if args:
                c, o = args
                return SuperRef(c.info, o)
            f = frame
            while f is not None and f.cls is None:
                f = f.parent
            return SuperRef(f.cls, frame.locals.get("self"))
        if name == "pow":
            return self.binop(ast.Pow(), args[0], args[1])
        if name == "round":
            x = args[0]
            if V.is_conc(x):
                return round(x)
            return self.lib.round_half_even(self, x)
        if name == "sorted":
            # only sequences of concrete real numbers (the order of symbolic values is not a value the engines carry)
            x = args[0] if args else None
            if isinstance(x, Arr) and V.is_conc(x.n):
                x = x.to_list()
            if isinstance(x, (list, tuple)) and not kwargs and all(V.is_conc(v) and not isinstance(v, Cx) for v in x):
                return sorted(x)
            raise Unsupported("sorted")
        if name == "dir":
            return DirResult(args[0])
        if name == "hasattr":
            o, n = args
            if isinstance(o, LibRef):
                return o.path == "sys" and False
            if isinstance(o, Obj):
                try:
                    self.getattr(o, n)
                    return True
                except RaiseSig:
                    return False
            return False
        if name == "print":
            return None
        if name == "dict":
            return dict(kwargs)
        raise Unsupported("builtin %s" % name)

    def as_index(self, x):
        if isinstance(x, Fraction):
            raise RaiseSig("TypeError", "'float' object cannot be interpreted as an integer")
        if isinstance(x, bool):
            return int(x)
        if V.is_num(x) and not isinstance(x, Cx):
            if not V.s_is_int(x):
                raise RaiseSig("TypeError", "'float' object cannot be interpreted as an integer")
            return x
        if x is None or isinstance(x, (Cx, str, list, tuple, dict)):
            raise RaiseSig("TypeError", "object cannot be interpreted as an integer")
        raise Unsupported("%s used as an integer" % type(x).__name__)

    def isinstance1(self, x, t):
        if isinstance(t, TypeMarker):
            n = t.name
            if n == "int":
                return isinstance(x, int) and not isinstance(x, bool) or (
                    self.dom.is_scalar(x) and V.s_is_int(x) and not getattr(x, "np_int", False))
            if n == "float":
                return isinstance(x, Fraction) or (self.dom.is_scalar(x) and not V.s_is_int(x))
            if n == "str":
                return isinstance(x, str)
            if n == "list":
                return isinstance(x, list) or (isinstance(x, Arr) and x.is_list)
            if n == "tuple":
                return isinstance(x, tuple)
            if n == "dict":
                return isinstance(x, dict)
            if n == "complex":
                return isinstance(x, Cx)
            if n == "bool":
                return isinstance(x, bool)
            if n == "object":
                return True
        if isinstance(t, ClassRef):
            return isinstance(x, Obj) and t.info in self.mro(x.cls)
        raise Unsupported("isinstance with %r" % (t,))

    def type_of(self, x):
        if isinstance(x, bool):
            return TypeMarker("bool")
        if isinstance(x, int):
            return TypeMarker("int")
        if isinstance(x, Fraction):
            return TypeMarker("float")
        if isinstance(x, str):
            return TypeMarker("str")
        if isinstance(x, list) or (isinstance(x, Arr) and x.is_list):
            return TypeMarker("list")
        if isinstance(x, tuple):
            return TypeMarker("tuple")
        if isinstance(x, dict):
            return TypeMarker("dict")
        if isinstance(x, Cx):
            return TypeMarker("complex")
        if isinstance(x, Arr) or isinstance(x, Arr2):
            return TypeMarker("ndarray")
        if isinstance(x, Obj):
            return ClassRef(x.cls)
        if self.dom.is_scalar(x):
            return TypeMarker("int" if V.s_is_int(x) else "float")
        if x is None:
            return TypeMarker("NoneType")
        raise Unsupported("type() of %r" % type(x).__name__)


class DictMethod:
    def __init__(self, d, name):
        self.d = d
        self.name = name

    def __call__(self, *args):
        if self.name == "keys":
            return DictView(list(self.d.keys()))
        if self.name == "values":
            return DictView(list(self.d.values()))
        if self.name == "items":
            return DictView(list(self.d.items()))
        if self.name == "get":
            return self.d.get(args[0], args[1] if len(args) > 1 else None)
        if self.name == "pop":
            if len(args) > 1:
                return self.d.pop(args[0], args[1])
            if args[0] not in self.d:
                raise RaiseSig("KeyError", str(args[0]))
            return self.d.pop(args[0])


class DictView:
    def __init__(self, items):
        self.items = items


class GlobalsView:
    """globals(): read-only view of the names a module defines (functions, classes, module-level assignments, imports)"""

    def __init__(self, module):
        self.module = module


class StrMethod:
    def __init__(self, s, name):
        self.s = s
        self.name = name

    def __call__(self, *args, **kw):
        if self.name == "lower":
            return self.s.lower()
        if self.name == "upper":
            return self.s.upper()
        if self.name == "capitalize":
            return self.s.capitalize()
        if self.name == "format":
            return ""
        if self.name == "startswith":
            return self.s.startswith(*args)
        raise Unsupported("str.%s" % self.name)


class ReversedVal:
    def __init__(self, x):
        self.x = x

    def materialise(self):
        x = self.x
        if isinstance(x, Arr):
            r = x.slice((None, None, -1))
            r = r.copy()
            r.is_list = True
            return r
        if isinstance(x, (list, tuple)):
            return list(reversed(x))
        raise Unsupported("reversed of %r" % type(x).__name__)


class EnumVal:
    def __init__(self, inner):
        self.inner = inner


class ZipVal:
    """zip(..) over iterables of symbolic length"""

    def __init__(self, parts):
        self.parts = parts


class SeqFn:
    """element function of a desugared `for T in S` loop: called as __s(i) by the rewritten loop body"""

    def __init__(self, f):
        self.f = f


class DirResult:
    def __init__(self, obj):
        self.obj = obj


# make iteration over helper values work
_old_iterate = Interp.iterate


def _iterate(self, it):
    if isinstance(it, ReversedVal):
        return _old_iterate(self, it.materialise())
    if isinstance(it, DictView):
        return list(it.items)
    return _old_iterate(self, it)


Interp.iterate = _iterate

_old_contains = Interp.contains


def _contains(self, cont, x):
    if isinstance(cont, DictView):
        cont = list(cont.items)
    if isinstance(cont, DirResult):
        return self.lib.dir_contains(self, cont.obj, x)
    return _old_contains(self, cont, x)


Interp.contains = _contains


class DequeVal:
    """collections.deque(data): only rotate() and conversion back to an array are used"""

    def __init__(self, arr):
        self.arr = arr

    def rotate_fn(self, interp):
        def rotate(k=1):
            a = self.arr
            n = a.n
            k = interp.as_index(k)
            nonempty = V.s_cmp(">", n, 0)
            if nonempty is not True:
                if not interp.branch(nonempty):
                    return None
            s = a.snap()
            if V.is_conc(n) and V.is_conc(k):
                items = a.to_list()
                kk = k % n
                self.arr = Arr.from_items(items[-kk:] + items[:-kk] if kk else items, dtype=a.dtype)
                return None
            self.arr = Arr.build(n, lambda i: s(V.s_mod(i - k, n)), a.dtype)
            return None
        return rotate
