"""Summarisation of `for` loops whose trip count is symbolic (DESIGN 3.3).

The body is executed ONCE at a generic iteration ``k`` (lo <= k < hi).  Two shapes are
recognised, in any mixture and nested:

* map writes   ``T[affine(k)] = e(k)`` where the body never reads T: the loop is the
  bulk update  ``T[i] = e(kinv(i))`` for the indices hit; side conditions (index affine with
  unit coefficient => injective; distinct write statements hit disjoint cells) are proved,
  not assumed.
* accumulators ``s = s + e(k)`` where ``e`` does not read ``s``: ``s = s0 + Sum(lo, hi, e)``.

Scalars assigned before use are iteration-local temporaries.  Anything else (carried
non-additive state, reads of a written array, break/continue/return, a data-dependent
branch that is not merged) makes the obligation *unsupported* -- never a verdict.
"""
import ast
import z3

from . import values as V
from .values import Cx, Arr, Arr2, Unsupported


class WriteRec:
    """for every index idx with eqs/conds true: arr[idx] := val(idx)"""

    def __init__(self, arr, eqs, conds, val, order):
        self.arr = arr
        self.eqs = eqs        # {axis: term}
        self.conds = conds    # list of fn(idx tuple) -> cond
        self.val = val        # fn(idx tuple) -> value
        self.order = order

    def pred(self, idx):
        c = True
        for ax, t in self.eqs.items():
            c = V.b_and(c, V.s_eq(idx[ax], t))
        for f in self.conds:
            c = V.b_and(c, f(idx))
        return c


class LoopCtx:
    def __init__(self, var, lo, hi, step):
        self.var = var
        self.lo, self.hi, self.step = lo, hi, step
        self.records = []
        self.guards = []
        self.targets = {}     # id(arr) -> arr (arrays written in the body)
        self.read_marks = {}
        V._Hooks.epoch += 1
        self.epoch = V._Hooks.epoch


def _mentions(term, var):
    from .z3dom import _collect_consts, zconst
    if V.is_conc(term):
        return False
    used = set()
    if isinstance(term, Cx):
        return _mentions(term.re, var) or _mentions(term.im, var)
    _collect_consts(zconst(term), used)
    return var.e.get_id() in used


class LoopTemp:
    """an array temporary of a summarised loop that may not have run: not a value; every use is `unsupported`"""

    def __init__(self, name, line):
        self.name, self.line = name, line

    def __getattr__(self, a):
        raise Unsupported("use of %s after the loop at line %d, which may not have executed" % (self.__dict__.get("name"), self.__dict__.get("line", 0)))


def _subst(v, var, repl):
    from .z3dom import subst
    if isinstance(v, (Arr, Arr2)):
        raise Unsupported("array-valued loop state")
    return subst(v, [(var, repl)])


def _simpl(t):
    from .z3dom import lower, zconst
    if V.is_conc(t):
        return t
    return lower(z3.simplify(zconst(t)))


def assigned_names(stmts):
    out = []
    for st in stmts:
        for n in ast.walk(st):
            if isinstance(n, (ast.Assign, ast.AugAssign, ast.AnnAssign)):
                tgts = n.targets if isinstance(n, ast.Assign) else [n.target]
                for t in tgts:
                    for x in ast.walk(t):
                        if isinstance(x, ast.Name) and isinstance(x.ctx, ast.Store):
                            if x.id not in out:
                                out.append(x.id)
            elif isinstance(n, ast.For):
                for x in ast.walk(n.target):
                    if isinstance(x, ast.Name) and x.id not in out:
                        out.append(x.id)
    return out


def summarise_for(interp, st, it, frame):
    from .interp import RangeVal, BreakSig, ContinueSig, ReturnSig, RaiseSig
    d = interp.dom
    if not hasattr(d, "loop_params"):
        raise Unsupported("symbolic loop in a domain without summarisation")
    if not isinstance(it, RangeVal) or it.step not in (1, -1) or not isinstance(st.target, ast.Name) or st.orelse:
        raise Unsupported("for loop over a symbolic iterable (line %d)" % st.lineno)
    if it.step == 1:
        lo, hi = it.lo, it.hi
    else:
        lo, hi = it.hi + 1, it.lo + 1
    k = d.fresh_int("k")
    ctx = LoopCtx(k, lo, hi, it.step)
    stack = getattr(interp, "loop_stack", None)
    if stack is None:
        stack = interp.loop_stack = []
    mark = len(interp.pc)
    ndec = len(interp.decisions)
    interp.assume(V.b_and(V.s_cmp(">=", k, lo), V.s_cmp("<", k, hi)))
    names = assigned_names(st.body)
    before = {}
    carried_in = {}
    for nm in names:
        if nm == st.target.id:
            continue
        if nm in frame.locals:
            v0 = frame.locals[nm]
            before[nm] = v0
            if isinstance(v0, (Arr, Arr2)):
                continue        # rebinding an array name inside the body is checked below
            if not V.is_num(v0):
                continue
            if isinstance(v0, Cx):
                sym = Cx(d.fresh_real("cin"), d.fresh_real("cin"))
            elif V.s_is_int(v0):
                sym = d.fresh_int("cin")
            else:
                sym = d.fresh_real("cin")
            carried_in[nm] = sym
            frame.locals[nm] = sym
    frame.locals[st.target.id] = k
    stack.append(ctx)
    d.loop_params.append(k)
    interp.merge_mode += 1
    try:
        try:
            interp.exec_block(st.body, frame)
        except (BreakSig, ContinueSig, ReturnSig):
            raise Unsupported("break/continue/return inside a summarised loop (line %d)" % st.lineno)
        except RaiseSig as r:
            raise Unsupported("exception %s on the generic iteration of a summarised loop (line %d)" % (r.exc, st.lineno))
    finally:
        interp.merge_mode -= 1
        d.loop_params.pop()
        stack.pop()
    if len(interp.decisions) != ndec:
        interp.check_uniform(ndec, mark)
    del interp.pc[mark:]

    # the body must not have read an array it writes
    for arr, cnt in ctx.read_marks.values():
        if getattr(arr, "_nreads", 0) != cnt:
            raise Unsupported("summarised loop reads an array it writes (line %d)" % st.lineno)

    ran = V.s_cmp(">", hi, lo)
    last = (hi - 1) if it.step == 1 else lo
    # ---- scalars
    for nm in names:
        if nm == st.target.id:
            continue
        out = frame.locals.get(nm)
        if isinstance(out, Guarded):
            # assigned only on the iterations where `cond` holds: solvable when cond is  k == t
            t = _solve_eq(out.cond, k)
            if t is None or nm in carried_in:
                raise Unsupported("variable %s is assigned under a condition that is not `loop variable == term` (line %d)"
                                  % (nm, st.lineno))
            inr = V.b_and(V.s_cmp(">=", t, lo), V.s_cmp("<", t, hi))
            if V.known(inr) is not True:
                raise Unsupported("cannot show that the iteration assigning %s is executed (line %d)" % (nm, st.lineno))
            frame.locals[nm] = _subst(out.value, k, t)
            continue
        if isinstance(out, (Arr, Arr2)):
            if nm in before and before[nm] is out:
                continue
            if any(_arr_mentions(out, s) for s in _flat(carried_in.values())):
                raise Unsupported("array re-bound inside a summarised loop (line %d)" % st.lineno)
            if _arr_mentions(out, k):
                if nm in carried_in:
                    raise Unsupported("array re-bound inside a summarised loop (line %d)" % st.lineno)
                # an iteration-local ARRAY temporary (assigned before it is read in every iteration, e.g. `past = X[k-P:k][::-1]`):
                # after the loop it holds the last iteration's value -- if the loop is known to run; otherwise any later use is
                # outside what is modelled
                if isinstance(out, Arr) and V.known(ran) is True:
                    from .z3dom import subst
                    n2 = out.n if V.is_conc(out.n) else subst(out.n, [(k, last)])
                    snap = out.snap()
                    r = Arr.build(n2, lambda i, snap=snap: subst(snap(i), [(k, last)]), out.dtype)
                    r.is_list = out.is_list
                    frame.locals[nm] = r
                else:
                    frame.locals[nm] = LoopTemp(nm, st.lineno)
            continue
        if out is None or not V.is_num(out):
            continue
        if nm in carried_in:
            sym = carried_in[nm]
            v0 = before[nm]
            syms = _flat([sym])
            if not any(_mentions(out, s) for s in syms):
                # iteration-local temporary
                val_last = _subst(out, k, last)
                frame.locals[nm] = V.s_ite(ran, val_last, v0) if ran is not True else val_last
                continue
            delta = _simpl_val(out - sym)
            if any(_mentions(delta, s) for s in syms):
                raise Unsupported("loop-carried variable %s is not an additive accumulator (line %d)" % (nm, st.lineno))
            others = [s for n2, s2 in carried_in.items() if n2 != nm for s in _flat([s2])]
            if any(_mentions(delta, s) for s in others):
                raise Unsupported("accumulator %s depends on another carried variable (line %d)" % (nm, st.lineno))
            tot = d.sum(lo, hi, lambda j, delta=delta: _subst(delta, k, j))
            frame.locals[nm] = v0 + tot
        else:
            others = [s for s2 in carried_in.values() for s in _flat([s2])]
            if any(_mentions(out, s) for s in others):
                raise Unsupported("temporary %s depends on a carried variable (line %d)" % (nm, st.lineno))
            frame.locals[nm] = _subst(out, k, last)
    # values written to arrays must not depend on carried-in symbols unless already resolved
    csyms = [s for s2 in carried_in.values() for s in _flat([s2])]
    frame.locals[st.target.id] = last

    # ---- array writes
    recs = ctx.records
    new_recs = []
    for w in recs:
        new_recs.append(_solve(w, k, lo, hi, csyms, st))
    _check_disjoint(interp, new_recs, st)
    if stack:
        outer = stack[-1]
        for w in new_recs:
            w.order = len(outer.records)
            outer.records.append(w)
            outer.targets[id(w.arr)] = w.arr
            if id(w.arr) not in outer.read_marks:
                outer.read_marks[id(w.arr)] = (w.arr, getattr(w.arr, "_nreads", 0))
    else:
        for w in new_recs:
            _apply(w)


def _solve_eq(cond, k):
    """cond is `k == t` (t free of k): return t"""
    import z3 as _z3
    from .z3dom import lower
    if isinstance(cond, bool) or not hasattr(cond, "e"):
        return None
    e = cond.e
    if _z3.is_eq(e):
        a, b = e.children()
        if a.eq(k.e) and not _mentions(lower(b), k):
            return lower(b)
        if b.eq(k.e) and not _mentions(lower(a), k):
            return lower(a)
    return None


def _flat(vals):
    out = []
    for v in vals:
        if isinstance(v, Cx):
            out += [v.re, v.im]
        else:
            out.append(v)
    return [x for x in out if not V.is_conc(x)]


def _simpl_val(v):
    if isinstance(v, Cx):
        return Cx(_simpl(v.re), _simpl(v.im))
    return _simpl(v)


def _arr_mentions(a, var):
    try:
        if isinstance(a, Arr):
            probe = a.at(V.dom().fresh_int("pm"))
        else:
            probe = a.at(V.dom().fresh_int("pm"), V.dom().fresh_int("pm"))
    except Exception:
        return True
    return _mentions(probe, var) if V.is_num(probe) else True


def _solve(w, k, lo, hi, csyms, st):
    """eliminate the loop variable from a write record"""
    solved_axis = None
    kinv = None
    for ax, t in w.eqs.items():
        if not _mentions(t, k):
            continue
        c1 = _simpl(t - k)
        if not _mentions(c1, k):
            solved_axis, kinv = ax, (lambda idx, ax=ax, c1=c1: idx[ax] - c1)
            break
        c2 = _simpl(t + k)
        if not _mentions(c2, k):
            solved_axis, kinv = ax, (lambda idx, ax=ax, c2=c2: c2 - idx[ax])
            break
    if solved_axis is None:
        # location independent of k
        probe_idx = tuple(V.dom().fresh_int("pi") for _ in range(2))
        dep = any(_mentions(t, k) for t in w.eqs.values())
        if dep:
            raise Unsupported("write index is not affine with unit coefficient in the loop variable (line %d)" % st.lineno)
        raise Unsupported("loop writes the same cell on every iteration (line %d)" % st.lineno)
    eqs = {ax: t for ax, t in w.eqs.items() if ax != solved_axis}
    new_eqs = {}
    extra_conds = []
    for ax, t in eqs.items():
        if _mentions(t, k):
            extra_conds.append(lambda idx, ax=ax, t=t: V.s_eq(idx[ax], _subst(t, k, kinv(idx))))
        else:
            new_eqs[ax] = t
    conds = [(lambda idx, f=f: _subst_cond(f(idx), k, kinv(idx))) for f in w.conds] + extra_conds
    conds.append(lambda idx: V.b_and(V.s_cmp(">=", kinv(idx), lo), V.s_cmp("<", kinv(idx), hi)))
    old_val = w.val

    def val(idx):
        v = old_val(idx)
        if any(_mentions(v, s) for s in csyms):
            raise Unsupported("value stored by a summarised loop depends on loop-carried state (line %d)" % st.lineno)
        return _subst(v, k, kinv(idx))
    # check eagerly at a probe index so that unsupported shapes are detected now
    nd = 1 if isinstance(w.arr, Arr) else 2
    probe = tuple(V.dom().fresh_int("pw") for _ in range(nd))
    val(probe)
    return WriteRec(w.arr, new_eqs, conds, val, w.order)


def _subst_cond(c, k, repl):
    from .z3dom import subst
    if isinstance(c, bool):
        return c
    return subst(c, [(k, repl)])


def _check_disjoint(interp, recs, st):
    d = interp.dom
    for a in range(len(recs)):
        for b in range(a + 1, len(recs)):
            if recs[a].arr is not recs[b].arr:
                continue
            nd = 1 if isinstance(recs[a].arr, Arr) else 2
            idx = tuple(d.fresh_int("dj") for _ in range(nd))
            both = V.b_and(recs[a].pred(idx), recs[b].pred(idx))
            if both is False:
                continue
            if both is True or not d.quick_unsat(list(interp.pc) + d.facts + [both.e], timeout_ms=5000):
                raise Unsupported("two write statements of a summarised loop may hit the same cell (line %d); "
                                  "a precondition separating them is missing" % st.lineno)


def _apply(w):
    arr = w.arr
    arr._write_guard() if isinstance(arr, Arr) else None
    dt = arr.dtype
    old = arr.snap()
    if isinstance(arr, Arr):
        f = lambda i: V.s_ite(w.pred((i,)), V.cast_to(w.val((i,)), dt), old(i))
        if isinstance(arr.n, int) and arr.n <= getattr(V.dom(), "materialise_limit", 0):
            arr.items = [f(i) for i in range(arr.n)]
            arr.fn = None
        else:
            arr.items = None
            arr.fn = f
    else:
        arr.rows = None
        arr.fn = lambda i, j: V.s_ite(w.pred((i, j)), V.cast_to(w.val((i, j)), dt), old(i, j))


# ---------------------------------------------------------------------------------
# hooks used by the interpreter while a summarised body runs


def record_setitem(interp, cont, idx, val):
    """called instead of mutating ``cont`` when a summarised loop body stores into it"""
    ctx = interp.loop_stack[-1]
    if id(cont) not in ctx.read_marks:
        ctx.read_marks[id(cont)] = (cont, getattr(cont, "_nreads", 0))
    ctx.targets[id(cont)] = cont
    guards = list(ctx.guards)
    gconds = [(lambda idx_, g=g: g) for g in guards]
    order = len(ctx.records)
    if isinstance(cont, Arr):
        if isinstance(idx, tuple) and idx and idx[0] == "slice":
            raise Unsupported("slice assignment inside a summarised loop")
        if isinstance(val, (Arr, Arr2)):
            raise Unsupported("array stored into a 1-D cell inside a summarised loop")
        i = V.norm_index(idx, cont.n)
        V.check_index(i, cont.n)
        ctx.records.append(WriteRec(cont, {0: i}, gconds, lambda idx_, v=val: v, order))
        return
    if isinstance(cont, Arr2):
        if isinstance(idx, tuple) and not (idx and idx[0] == "slice"):
            r, c = idx
            if isinstance(r, tuple) or isinstance(c, tuple):
                raise Unsupported("region assignment inside a summarised loop")
            r = V.norm_index(r, cont.r)
            c = V.norm_index(c, cont.c)
            V.check_index(r, cont.r)
            V.check_index(c, cont.c)
            if isinstance(val, (Arr, Arr2)):
                raise Unsupported("array stored into a cell")
            ctx.records.append(WriteRec(cont, {0: r, 1: c}, gconds, lambda idx_, v=val: v, order))
            return
        if isinstance(idx, tuple):
            raise Unsupported("row-slice assignment inside a summarised loop")
        # C[i] = row
        r = V.norm_index(idx, cont.r)
        V.check_index(r, cont.r)
        if isinstance(val, Arr):
            interp.dom.require_eq(val.n, cont.c, "row assignment length")
            s = val.snap()
            ncols = cont.c
            conds = gconds + [lambda idx_: V.b_and(V.s_cmp(">=", idx_[1], 0), V.s_cmp("<", idx_[1], ncols))]
            ctx.records.append(WriteRec(cont, {0: r}, conds, lambda idx_, s=s: s(idx_[1]), order))
            return
        raise Unsupported("row assignment of a non-array")
    raise Unsupported("store into %r inside a summarised loop" % type(cont).__name__)


def merge_if(interp, st, c, frame):
    """if/else on a symbolic condition inside a summarised body: run both arms, merge"""
    from .interp import BreakSig, ContinueSig, ReturnSig, RaiseSig
    ctx = interp.loop_stack[-1] if getattr(interp, "loop_stack", None) else None
    saved = dict(frame.locals)
    results = []
    for arm, cond in ((st.body, c), (st.orelse, V.b_not(c))):
        frame.locals.clear()
        frame.locals.update(saved)
        mark = len(interp.pc)
        interp.pc.append(cond.e)
        if ctx is not None:
            ctx.guards.append(cond)
        try:
            # an arm that is infeasible under the path condition is skipped
            feasible = not interp.dom.quick_unsat(list(interp.pc) + interp.dom.facts, timeout_ms=3000)
            if feasible:
                try:
                    interp.exec_block(arm, frame)
                except (BreakSig, ContinueSig, ReturnSig, RaiseSig) as e:
                    raise Unsupported("control transfer (%s) in a branch of a summarised loop body" % type(e).__name__)
            results.append((feasible, dict(frame.locals)))
        finally:
            if ctx is not None:
                ctx.guards.pop()
            del interp.pc[mark:]
    (f1, l1), (f2, l2) = results
    frame.locals.clear()
    if not f1:
        frame.locals.update(l2)
        return
    if not f2:
        frame.locals.update(l1)
        return
    for nm in set(l1) | set(l2):
        a, b = l1.get(nm, _MISSING), l2.get(nm, _MISSING)
        if a is b:
            frame.locals[nm] = a
        elif a is _MISSING:
            frame.locals[nm] = Guarded(b, V.b_not(c)) if V.is_num(b) else b
        elif b is _MISSING:
            frame.locals[nm] = Guarded(a, c) if V.is_num(a) else a
        elif V.is_num(a) and V.is_num(b):
            frame.locals[nm] = V.s_ite(c, a, b)
        else:
            raise Unsupported("cannot merge variable %s of the two arms" % nm)


_MISSING = object()


class Guarded:
    """value of a variable that was assigned only in one arm of a merged branch"""

    def __init__(self, value, cond):
        self.value = value
        self.cond = cond
