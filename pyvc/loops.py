"""Loop summarisation for `for` loops whose trip count is symbolic (see DESIGN 3.3)."""
from .values import Unsupported


def summarise_for(interp, st, it, frame):
    raise Unsupported("for loop over a symbolic range (line %d): no summarisation rule applies" % st.lineno)
