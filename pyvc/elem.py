"""Axiom instances for the elementary functions (assumption A-ELEM).

cos, sin, exp, sinc, tanh, arctanh, arcsin, log ... are uninterpreted symbols for the solver.  The
generator instantiates a fixed list of textbook facts for the applications that occur in an
obligation; which instance applies is decided by exact field arithmetic on the arguments
(ringnf: arguments are rational functions of pi and the symbolic indices), never guessed:

  values      f(t) for t identically k*pi/2 (cos, sin), 0 (exp, sinc, tanh, arctanh, arcsin, sin)
  ranges      -1 <= cos, sin, sinc <= 1;  exp > 0;  t <= 0 => exp(t) <= 1;  |tanh| < 1
  symmetry    for two applications f(t1), f(t2): t1 = t2, t1 = -t2 (parity), t1 + t2 = k*pi or t1 - t2 = k*pi
              (periodicity / reflection) give f(t1) = +- f(t2)
  multiples   t2 = 2 t1, 3 t1, 4 t1: Chebyshev polynomials of cos(t1)
  inverses    tanh(arctanh(t)) = t, arctanh(tanh(t)) = t, sin(arcsin(t)) = t (|t| <= 1), arcsin(sin t) = t (|t| <= pi/2)
"""
from fractions import Fraction
import z3

from . import ringnf

NAMES = {"cos", "sin", "exp", "sinc", "tanh", "arctanh", "arcsin", "log", "log2", "log10", "sqrt"}
PI = z3.Real("pi")


def find_elem_apps(exprs):
    out = []
    seen = set()
    stack = list(exprs)
    while stack:
        x = stack.pop()
        i = x.get_id()
        if i in seen:
            continue
        seen.add(i)
        if z3.is_app(x) and x.num_args() == 1 and x.decl().kind() == z3.Z3_OP_UNINTERPRETED and x.decl().name() in NAMES:
            out.append(x)
        stack.extend(x.children())
    return out


def _eq(a, b):
    if a.eq(b):
        return True
    return ringnf.equal_terms(a, b) is True


def rv(q):
    q = Fraction(q)
    return z3.RealVal(str(q))


COS_VALS = {0: 1, 1: 0, 2: -1, 3: 0}     # cos(k*pi/2), k mod 4
SIN_VALS = {0: 0, 1: 1, 2: 0, 3: -1}


def lemmas(exprs, max_pairs=400):
    apps = find_elem_apps(exprs)
    facts = []
    by = {}
    for a in apps:
        by.setdefault(a.decl().name(), []).append(a)
    half_pi = PI / 2
    for a in apps:
        f = a.decl().name()
        t = a.arg(0)
        if f in ("cos", "sin"):
            facts.append(z3.And(a >= -1, a <= 1))
            for k in range(-8, 17):
                if _eq(t, half_pi * k):
                    facts.append(a == (COS_VALS if f == "cos" else SIN_VALS)[k % 4])
                    break
        elif f == "exp":
            facts.append(a > 0)
            facts.append(z3.Implies(t <= 0, a <= 1))
            facts.append(z3.Implies(t >= 0, a >= 1))
            if _eq(t, z3.RealVal(0)):
                facts.append(a == 1)
        elif f == "sinc":
            facts.append(z3.And(a >= -1, a <= 1))
            if _eq(t, z3.RealVal(0)):
                facts.append(a == 1)
        elif f == "tanh":
            facts.append(z3.And(a > -1, a < 1))
            if _eq(t, z3.RealVal(0)):
                facts.append(a == 0)
            if z3.is_app(t) and t.decl().name() == "arctanh":
                u = t.arg(0)
                facts.append(z3.Implies(z3.And(u > -1, u < 1), a == u))
        elif f == "arctanh":
            if _eq(t, z3.RealVal(0)):
                facts.append(a == 0)
            if z3.is_app(t) and t.decl().name() == "tanh":
                facts.append(a == t.arg(0))
        elif f == "arcsin":
            facts.append(z3.Implies(z3.And(t >= -1, t <= 1), z3.And(a >= -half_pi, a <= half_pi)))
            if _eq(t, z3.RealVal(0)):
                facts.append(a == 0)
            if z3.is_app(t) and t.decl().name() == "sin":
                u = t.arg(0)
                facts.append(z3.Implies(z3.And(u >= -half_pi, u <= half_pi), a == u))
        if f == "sin" and z3.is_app(t) and t.decl().name() == "arcsin":
            u = t.arg(0)
            facts.append(z3.Implies(z3.And(u >= -1, u <= 1), a == u))
        if f in ("log", "log2", "log10") and _eq(t, z3.RealVal(1)):
            facts.append(a == 0)
    # inverse pairs through arithmetic: f(t) with t = +-g-application (e.g. tanh(-(-2*arctanh(u))/2))
    INV = {"tanh": "arctanh", "arctanh": "tanh", "sin": "arcsin", "arcsin": "sin"}
    for a in apps:
        f = a.decl().name()
        g = INV.get(f)
        if g is None:
            continue
        t = a.arg(0)
        for b in by.get(g, []):
            u = b.arg(0)
            for sign in (1, -1):
                if _eq(t, b if sign == 1 else -b):
                    concl = a == (u if sign == 1 else -u)       # all four functions are odd
                    if f == "tanh":
                        facts.append(z3.Implies(z3.And(u > -1, u < 1), concl))
                    elif f == "arctanh":
                        facts.append(concl)
                    elif f == "sin":
                        facts.append(z3.Implies(z3.And(u >= -1, u <= 1), concl))
                    else:
                        facts.append(z3.Implies(z3.And(u >= -half_pi, u <= half_pi), concl))
                    break
    # odd / even functions applied to a negated argument are handled through pairs
    npairs = 0
    for f, lst in by.items():
        if f not in ("cos", "sin", "exp", "sinc", "tanh", "arctanh", "arcsin"):
            continue
        for i in range(len(lst)):
            for j in range(i + 1, len(lst)):
                npairs += 1
                if npairs > max_pairs:
                    return facts
                a, b = lst[i], lst[j]
                t1, t2 = a.arg(0), b.arg(0)
                if _eq(t1, t2):
                    facts.append(a == b)
                    continue
                if f in ("cos", "sinc"):
                    if _eq(t1 + t2, z3.RealVal(0)):
                        facts.append(a == b)
                        continue
                if f in ("sin", "tanh", "arctanh", "arcsin"):
                    if _eq(t1 + t2, z3.RealVal(0)):
                        facts.append(a == -b)
                        continue
                if f in ("cos", "sin"):
                    done = False
                    for k in range(-4, 9):
                        if k == 0:
                            continue
                        if _eq(t1 - t2, PI * k):            # shift by k*pi
                            facts.append(a == b if k % 2 == 0 else a == -b)
                            done = True
                            break
                        if _eq(t1 + t2, PI * k):            # reflection about k*pi/2
                            if f == "cos":
                                facts.append(a == b if k % 2 == 0 else a == -b)
                            else:
                                facts.append(a == -b if k % 2 == 0 else a == b)
                            done = True
                            break
                    if done:
                        continue
                if f == "cos":
                    for (x, y, s) in ((a, b, t1), (b, a, t2)):
                        # y = cos(m * arg(x))
                        ty = y.arg(0)
                        if _eq(ty, s * 2):
                            facts.append(y == 2 * x * x - 1)
                        elif _eq(ty, s * 3):
                            facts.append(y == 4 * x * x * x - 3 * x)
                        elif _eq(ty, s * 4):
                            facts.append(y == 8 * x * x * x * x - 8 * x * x + 1)
    return facts
