"""Contracts of the dependencies (numpy / scipy / stdlib) -- ASSUMED, never proved.

Every entry that a run uses is listed in the evidence under ``assumptions`` and is
validated against the installed library by concrete differential probes
(``bin/libprobe.py``); it is not proved.
"""
from fractions import Fraction

from . import values as V
from .values import Cx, Arr, Arr2, Obj, Opaque, Unsupported, EngineError


class LibTable:
    def __init__(self):
        self.used = set()
        self.table = {}
        self.doc = {}
        _install(self)

    def get(self, path):
        path = ALIASES.get(path, path)
        return self.table.get(path)

    def reg(self, *paths, doc=""):
        def deco(f):
            for p in paths:
                self.table[p] = f
                self.doc[p] = doc or (f.__doc__ or "").strip()
            return f
        return deco

    # -- constants
    def constant(self, interp, path):
        path = ALIASES.get(path, path)
        if path in ("numpy.pi", "math.pi"):
            return interp.dom.pi()
        if path == "numpy.newaxis":
            return None
        if path in ("numpy.complex128", "numpy.complex64", "numpy.complexfloating"):
            return "complex"
        if path in ("numpy.float64", "numpy.float32"):
            return "float"
        if path in ("numpy.int64", "numpy.int32"):
            return "int"
        if path == "sys.executable":
            return ""
        return None

    # -- helpers used by the interpreter
    def as_array(self, interp, x):
        return as_array(interp, x)

    def array_compare(self, interp, sym, a, b):
        if isinstance(a, (list, tuple)):
            a = as_array(interp, a)
        if isinstance(b, (list, tuple)):
            b = as_array(interp, b)
        if isinstance(a, Arr) and (isinstance(b, Arr) or V.is_num(b)):
            return a.cmp(sym, b)
        if isinstance(b, Arr) and V.is_num(a):
            flip = {"<": ">", "<=": ">=", ">": "<", ">=": "<=", "==": "==", "!=": "!="}[sym]
            return b.cmp(flip, a)
        if isinstance(a, Arr2):
            return a._bin(b, lambda x, y: V.s_cmp(sym, x, y), dtype="bool")
        raise Unsupported("array comparison")

    def nd_index(self, interp, cont, idx):
        raise Unsupported("n-d index on 1-d array")

    def index_other(self, interp, cont, idx):
        if isinstance(cont, WhereResult):
            if idx == 0:
                return cont
        return NotImplemented

    def scalar_of(self, interp, x):
        if isinstance(x, Arr) and V.is_conc(x.n) and x.n == 1:
            return x.get(0)
        raise RaiseSig("TypeError", "only length-1 arrays can be converted to Python scalars")

    def sum_axis0(self, interp, x):
        s = x.snap()
        r = x.r
        return Arr.build(x.c, lambda j: interp.dom.sum(0, r, lambda i: s(i, j)), x.dtype)

    def sum1(self, interp, x, start=0):
        s = x.snap()
        tot = interp.dom.sum(0, x.n, s)
        if isinstance(start, int) and start == 0:
            return tot
        return start + tot

    def reduce_minmax(self, interp, name, x):
        raise Unsupported("%s over a symbolic-length array" % name)

    def round_half_even(self, interp, x):
        d = interp.dom
        if hasattr(d, "round_half_even"):
            return d.round_half_even(x)
        raise Unsupported("round() of symbolic value")

    def dir_contains(self, interp, obj, name):
        # `'chebwin' in dir(scipy.signal)`: scipy >= 1.13 removed the alias
        from .interp import LibRef
        if isinstance(obj, LibRef) and obj.path == "scipy.signal" and name == "chebwin":
            return False
        raise Unsupported("dir()")

    # -- attributes / methods of values
    def value_attr(self, interp, obj, name):
        return value_attr(self, interp, obj, name)


ALIASES = {
    "numpy.fft.fft": "numpy.fft.fft",
    "scipy.fftpack.fft": "numpy.fft.fft",
    "scipy.fftpack.ifft": "numpy.fft.ifft",
    "numpy.conjugate": "numpy.conj",
    "numpy.absolute": "numpy.abs",
    "numpy.product": "numpy.prod",
    "numpy.linalg.linalg.svd": "numpy.linalg.svd",
    "scipy.linalg.svd": "numpy.linalg.svd",
    "numpy.core.multiply": "numpy.multiply",
}

from .interp import RaiseSig  # noqa: E402


def as_array(interp, x, dtype=None):
    """numpy.array(x)"""
    if isinstance(x, Arr):
        if x.dtype == "object":
            # list of arrays -> 2-D
            rows = x.to_list()
            return stack_rows(interp, rows)
        r = x.copy()
        r.is_list = False
        if dtype is not None and dtype != r.dtype:
            r = r.astype(dtype)
        return r
    if isinstance(x, Arr2):
        return x.copy()
    if isinstance(x, (list, tuple)):
        if x and all(isinstance(v, (Arr, list, tuple)) for v in x):
            return stack_rows(interp, [as_array(interp, v) for v in x])
        items = [V.to_frac(v) for v in x]
        if not all(V.is_num(v) for v in items):
            raise Unsupported("array of non-numeric values")
        r = Arr.from_items(items)
        if dtype is not None and dtype != r.dtype:
            r = r.astype(dtype)
        return r
    if V.is_num(x):
        return x   # 0-d array behaves as a scalar here
    from .interp import ReversedVal, DequeVal
    if isinstance(x, ReversedVal):
        return as_array(interp, x.materialise())
    if isinstance(x, DequeVal):
        return x.arr.copy()
    raise Unsupported("numpy.array of %r" % type(x).__name__)


def stack_rows(interp, rows):
    rows = [as_array(interp, r) if not isinstance(r, Arr) else r for r in rows]
    if not rows:
        return Arr2(0, 0, rows=[], dtype="float")
    c = rows[0].n
    dt = rows[0].dtype
    for r in rows[1:]:
        interp.dom.require_eq(r.n, c, "inhomogeneous rows")
        dt = V.promote(dt, r.dtype)
    snaps = [r.snap() for r in rows]
    if isinstance(c, int):
        return Arr2(len(rows), c, rows=[[V.cast_to(s(j), dt) for j in range(c)] for s in snaps], dtype=dt)

    def f(i, j):
        r = snaps[-1](j)
        for k in range(len(snaps) - 2, -1, -1):
            r = V.s_ite(V.s_eq(i, k), snaps[k](j), r)
        return r
    return Arr2(len(rows), c, fn=f, dtype=dt)


def dtype_name(d):
    from .interp import TypeMarker
    if d is None:
        return None
    if isinstance(d, TypeMarker):
        return {"int": "int", "float": "float", "complex": "complex", "bool": "bool"}.get(d.name, "object")
    if isinstance(d, str):
        if d in ("d", "float", "float64", "f8"):
            return "float"
        if d in ("int", "int64", "i8"):
            return "int"
        if d in ("complex", "complex128", "c16", "D"):
            return "complex"
        return d
    raise Unsupported("dtype %r" % (d,))


def zero_of(dtype):
    return V.cast_to(0, dtype)


class WhereResult:
    """numpy.where(mask)[0]: the increasing sequence of indices at which mask holds"""

    def __init__(self, mask):
        self.mask = mask


def _install(T):
    reg = T.reg

    # ------------------------------------------------------------------ construction
    @reg("numpy.array", "numpy.asarray", doc="array(x[, dtype]): fresh copy of the data with numpy's common dtype")
    def np_array(I, x, dtype=None, **kw):
        return as_array(I, x, dtype_name(dtype))

    @reg("numpy.zeros", doc="zeros(n|shape, dtype=float): all entries 0")
    def np_zeros(I, shape, dtype=None, **kw):
        dt = dtype_name(dtype) or "float"
        return full(I, shape, zero_of(dt), dt)

    @reg("numpy.ones", doc="ones(n|shape, dtype=float): all entries 1")
    def np_ones(I, shape, dtype=None, **kw):
        dt = dtype_name(dtype) or "float"
        return full(I, shape, V.cast_to(1, dt), dt)

    def full(I, shape, val, dt):
        if isinstance(shape, Arr) and shape.is_list:
            shape = tuple(shape.to_list())
        if isinstance(shape, tuple):
            if len(shape) == 1:
                shape = shape[0]
            elif len(shape) == 2:
                r, c = shape
                return Arr2.build(I.as_index(r), I.as_index(c), lambda i, j: val, dt)
            else:
                raise Unsupported("array rank > 2")
        n = I.as_index(shape)
        neg = V.s_cmp("<", n, 0)
        if neg is not False:
            if I.branch(neg):
                raise RaiseSig("ValueError", "negative dimensions are not allowed")
        return Arr.build(n, lambda i: val, dt)

    @reg("numpy.arange", doc="arange(a[, b]): integers a..b-1 (integer arguments only)")
    def np_arange(I, a, b=None, step=None, **kw):
        if b is None:
            a, b = 0, a
        if step is not None and step != 1:
            # arange(a, b, s) for a concrete non-zero integer step s: a, a+s, ... while on the b-side; length ceil((b-a)/s) clipped at 0
            if isinstance(step, bool) or not isinstance(step, int) or step == 0:
                raise Unsupported("arange with a non-integer or symbolic step")
            if not (V.s_is_int(a) and V.s_is_int(b)):
                raise Unsupported("arange with step over non-integer bounds")
            if V.is_conc(a) and V.is_conc(b):
                return Arr.from_items([Fraction(v) if False else v for v in range(int(a), int(b), step)], dtype="int")
            span = (b - a) if step > 0 else (a - b)
            st_ = abs(step)
            cnt = I.dom.floordiv(span + (st_ - 1), st_) if st_ != 1 else span
            n = V.s_max(cnt, 0)
            return Arr.build(n, lambda i, a=a, step=step: a + i * step, "int")
        isint = V.s_is_int(a) and V.s_is_int(b)
        if not isint:
            # arange over floats with integral step: length ceil(b-a)
            if V.is_conc(a) and V.is_conc(b):
                import math
                n = max(int(math.ceil(b - a)), 0)
                return Arr.from_items([Fraction(a) + i for i in range(n)], dtype="float")
            raise Unsupported("arange with symbolic float bounds")
        n = V.s_max(b - a, 0)
        return Arr.build(n, lambda i: a + i, "int")

    @reg("numpy.linspace", doc="linspace(a, b, N)[i] = a + i*(b-a)/(N-1); N == 1 gives [a]")
    def np_linspace(I, a, b, num=50, **kw):
        n = I.as_index(num)
        a, b = V.to_float(a), V.to_float(b)
        one = V.s_eq(n, 1)
        if one is True:
            return Arr.from_items([a], dtype="float")
        if one is not False:
            if I.branch(one):
                return Arr.from_items([a], dtype="float")
        step = V.s_div(b - a, n - 1)
        return Arr.build(n, lambda i: a + i * step, "float")

    @reg("numpy.concatenate", doc="concatenate((a, b, ...)): entries in order")
    def np_concatenate(I, parts, axis=0, **kw):
        parts = [as_array(I, p) if not isinstance(p, (Arr, Arr2)) else p for p in list(parts)]
        if any(isinstance(p, Arr2) for p in parts):
            raise Unsupported("2-D concatenate")
        return V.concat(parts)

    def _conc_list(I, a, what):
        a = as_array(I, a) if not isinstance(a, Arr) else a
        if not V.is_conc(a.n):
            raise Unsupported("%s of a sequence of symbolic length" % what)
        return a.to_list(), a.dtype

    def _poly_mul(x, y):
        out = [0] * (len(x) + len(y) - 1)
        for i, u in enumerate(x):
            for j, w in enumerate(y):
                out[i + j] = out[i + j] + u * w
        return out

    @reg("numpy.convolve", doc="convolve(a, b) (mode 'full'): coefficients of the product polynomial; concrete lengths")
    def np_convolve(I, a, b, mode="full", **kw):
        if mode != "full":
            raise Unsupported("convolve mode %r" % (mode,))
        x, dx = _conc_list(I, a, "convolve")
        y, dy = _conc_list(I, b, "convolve")
        dt = "complex" if "complex" in (dx, dy) else ("int" if dx == dy == "int" else "float")
        return Arr.from_items(_poly_mul(x, y), dtype=dt)

    @reg("numpy.poly", doc="poly(roots): coefficients [1, ...] of prod (z - r_i); real when every imaginary part vanishes identically "
                           "(numpy returns the real part when the roots are closed under conjugation); concrete length")
    def np_poly(I, roots, **kw):
        r, dt = _conc_list(I, roots, "poly")
        c = [Fraction(1)]
        for ri in r:
            c = _poly_mul(c, [Fraction(1), -ri])
        if any(isinstance(v, Cx) for v in c):
            iz = getattr(I.dom, "is_zero", None)
            if iz is not None and all((not isinstance(v, Cx)) or iz(v.im) for v in c):
                return Arr.from_items([v.re if isinstance(v, Cx) else v for v in c], dtype="float")
            return Arr.from_items([V.Cx.of(v) for v in c], dtype="complex")
        return Arr.from_items(c, dtype="float")

    @reg("scipy.signal.deconvolve", doc="deconvolve(num, den) = (quotient, remainder) of polynomial long division, num = conv(den, q) + r; concrete lengths")
    def sp_deconvolve(I, num, den, **kw):
        n, dn = _conc_list(I, num, "deconvolve")
        d, dd = _conc_list(I, den, "deconvolve")
        if len(d) == 0 or (V.is_conc(d[0]) and d[0] == 0):
            from .interp import RaiseSig
            raise RaiseSig("ValueError", "BUG: filter coefficient a[0] == 0 not supported yet")
        dt = "complex" if "complex" in (dn, dd) else "float"
        if len(n) < len(d):
            return (Arr.from_items([], dtype=dt), Arr.from_items(list(n), dtype=dt))
        rem = list(n)
        q = []
        for i in range(len(n) - len(d) + 1):
            c = V.s_div(rem[i], d[0])
            q.append(c)
            for j, dj in enumerate(d):
                rem[i + j] = rem[i + j] - c * dj
        return (Arr.from_items(q, dtype=dt), Arr.from_items(rem, dtype=dt))

    @reg("numpy.pad", doc="pad(a, (before, after), mode='constant', constant_values=c): 1-D, c (default 0) before and after a")
    def np_pad(I, a, pad_width, mode="constant", constant_values=0, **kw):
        a = as_array(I, a) if not isinstance(a, Arr) else a
        if mode != "constant":
            raise Unsupported("pad mode %r" % (mode,))
        if isinstance(pad_width, (list, tuple)) and len(pad_width) == 1 and isinstance(pad_width[0], (list, tuple)):
            pad_width = pad_width[0]
        if V.is_num(pad_width):
            before = after = pad_width
        elif isinstance(pad_width, (list, tuple)) and len(pad_width) == 2:
            before, after = pad_width
        else:
            raise Unsupported("pad width of this form")
        before, after = I.as_index(before), I.as_index(after)
        for w in (before, after):
            neg = V.s_cmp("<", w, 0)
            if neg is not False and I.branch(neg):
                raise RaiseSig("ValueError", "index can't contain negative values")
        c = constant_values[0] if isinstance(constant_values, (list, tuple)) else constant_values
        c = V.cast_to(c, a.dtype)
        return V.concat([Arr.build(before, lambda i: c, a.dtype), a, Arr.build(after, lambda i: c, a.dtype)])

    @reg("numpy.append", doc="append(a, v): a followed by v (flattened)")
    def np_append(I, a, v, **kw):
        a = as_array(I, a)
        if V.is_num(v):
            v = Arr.from_items([v])
        else:
            v = as_array(I, v)
        return V.concat([a, v])

    @reg("numpy.insert", doc="insert(a, k, v): a[:k] + [v] + a[k:], dtype of a (v is cast)")
    def np_insert(I, a, k, v, **kw):
        a = as_array(I, a)
        if not V.is_num(v):
            raise Unsupported("insert of a sequence")
        dt = a.dtype
        if dt != "complex" and isinstance(v, Cx):
            # numpy casts the inserted value to the array's dtype
            pass
        vv = Arr.from_items([V.cast_to(v, dt)], dtype=dt)
        k = I.as_index(k)
        if V.is_conc(k) and k == 0:
            return V.concat([vv, a])
        return V.concat([a.slice((None, k, None)), vv, a.slice((k, None, None))])

    @reg("numpy.resize", doc="numpy.resize(a, n): a repeated cyclically to length n (NOT zero padded)")
    def np_resize(I, a, n):
        a = as_array(I, a)
        if isinstance(n, tuple):
            (n,) = n
        n = I.as_index(n)
        s = a.snap()
        ln = a.n
        return Arr.build(n, lambda i: s(V.s_mod(i, ln)), a.dtype)

    @reg("numpy.flipud", doc="flipud(a): reversed along the first axis")
    def np_flipud(I, a):
        if isinstance(a, Arr):
            r = a.slice((None, None, -1)).copy()
            return r
        raise Unsupported("flipud of 2-D")

    @reg("numpy.fliplr", doc="fliplr(A)[i, j] = A[i, C-1-j]")
    def np_fliplr(I, a):
        s = a.snap()
        c = a.c
        return Arr2.build(a.r, a.c, lambda i, j: s(i, c - 1 - j), a.dtype)

    @reg("numpy.transpose")
    def np_transpose(I, a):
        return a.transpose()

    # ------------------------------------------------------------------ element-wise
    @reg("numpy.real", doc="real part")
    def np_real(I, a):
        return V.s_real(a)

    @reg("numpy.imag", doc="imaginary part")
    def np_imag(I, a):
        return V.s_imag(a)

    @reg("numpy.conj", doc="complex conjugate")
    def np_conj(I, a):
        if isinstance(a, (list, tuple)):
            a = as_array(I, a)
        return V.s_conj(a)

    @reg("numpy.abs", doc="modulus")
    def np_abs(I, a):
        if isinstance(a, (list, tuple)):
            a = as_array(I, a)
        if isinstance(a, (Arr, Arr2)):
            return abs(a)
        return V.s_abs(a)

    @reg("numpy.multiply", doc="element-wise product with broadcasting")
    def np_multiply(I, a, b):
        return I.binop(_ast_mult, a, b)

    def elementwise(name):
        def f(I, a, *rest, **kw):
            if isinstance(a, (list, tuple)):
                a = as_array(I, a)
            if isinstance(a, (Arr, Arr2)):
                return a.map(lambda x: I.dom.elem(name, x), dtype="float" if a.dtype != "complex" else "complex")
            if V.is_conc(a):
                r = conc_elem(name, a)
                if r is not None:
                    return r
            return I.dom.elem(name, a)
        return f

    for nm in ("cos", "sin", "exp", "log", "log2", "log10", "sinc", "tanh", "arctanh", "arcsin", "ceil", "floor"):
        T.table["numpy." + nm] = elementwise(nm)
        T.doc["numpy." + nm] = "elementary function %s: uninterpreted, axioms A-ELEM" % nm
    T.table["math.log"] = elementwise("log")

    @reg("numpy.sqrt", doc="sqrt: uninterpreted with sqrt(t)^2 = t, sqrt(t) >= 0 for t >= 0")
    def np_sqrt(I, a):
        if isinstance(a, (Arr, Arr2)):
            return a.map(lambda x: I.dom.sqrt(x), dtype="float")
        if V.is_conc(a):
            r = conc_elem("sqrt", a)
            if r is not None:
                return r
        return I.dom.sqrt(a)

    # ------------------------------------------------------------------ reductions
    @reg("numpy.sum", doc="sum of all entries")
    def np_sum(I, a, axis=None, **kw):
        if isinstance(a, (list, tuple)):
            a = as_array(I, a)
        if isinstance(a, Arr):
            return T.sum1(I, a)
        if isinstance(a, Arr2):
            s = a.snap()
            if axis is None:
                r, c = a.r, a.c
                return I.dom.sum(0, r, lambda i: I.dom.sum(0, c, lambda j: s(i, j)))
            if axis == 0:
                return T.sum_axis0(I, a)
            c = a.c
            return Arr.build(a.r, lambda i: I.dom.sum(0, c, lambda j: s(i, j)), a.dtype)
        return a

    @reg("numpy.mean", doc="mean = sum / count (along axis for 2-D)")
    def np_mean(I, a, axis=None, **kw):
        if isinstance(a, (list, tuple)):
            a = as_array(I, a)
        if isinstance(a, Arr):
            return V.s_div(T.sum1(I, a), V.to_float(a.n) if V.is_conc(a.n) else I.dom.to_real(a.n))
        if isinstance(a, Arr2):
            if axis is None:
                raise Unsupported("mean of 2-D without axis")
            s = a.snap()
            if axis in (0,):
                r = a.r
                dt = V.promote(a.dtype, "float")
                return Arr.build(a.c, lambda j: V.s_div(I.dom.sum(0, r, lambda i: s(i, j)), V.to_float(r)), dt)
            c = a.c
            dt = V.promote(a.dtype, "float")
            return Arr.build(a.r, lambda i: V.s_div(I.dom.sum(0, c, lambda j: s(i, j)), V.to_float(c)), dt)
        return a

    @reg("numpy.prod", doc="product of entries")
    def np_prod(I, a, axis=None, **kw):
        if isinstance(a, (list, tuple)):
            a = as_array(I, a)
        if isinstance(a, Arr) and isinstance(a.n, int):
            r = 1
            for v in a.to_list():
                r = r * v
            return r
        raise Unsupported("prod over symbolic length")

    @reg("numpy.array_equal", doc="array_equal(a, b): same shape and a[k] == b[k] for every k, compared BY VALUE (the dtypes may differ: 1.0 == 1+0j)")
    def np_array_equal(I, a, b, **kw):
        if isinstance(a, (list, tuple)):
            a = as_array(I, a)
        if isinstance(b, (list, tuple)):
            b = as_array(I, b)
        if not (isinstance(a, Arr) and isinstance(b, Arr)):
            raise Unsupported("array_equal of non 1-D arguments")
        same_n = V.s_eq(a.n, b.n)
        if same_n is False:
            return False
        if V.is_conc(a.n) and V.is_conc(b.n):
            r = True
            for k in range(int(a.n)):
                r = V.b_and(r, V.s_eq(a.at(k), b.at(k)))
            return r
        fa = getattr(I.dom, "forall_index", None)
        if fa is None:
            raise Unsupported("array_equal of arrays of symbolic length in this domain")
        sa, sb = a.snap(), b.snap()
        return V.b_and(same_n, fa(a.n, lambda k: V.s_eq(sa(k), sb(k))))

    @reg("numpy.vdot", doc="vdot(a, b) = sum_k conj(a[k]) * b[k] for 1-D arguments (the FIRST argument is conjugated)")
    def np_vdot(I, a, b):
        if isinstance(a, (list, tuple)):
            a = as_array(I, a)
        if isinstance(b, (list, tuple)):
            b = as_array(I, b)
        if V.is_num(a) or V.is_num(b):
            return V.s_conj(a) * b if V.is_num(a) else a.map(V.s_conj) * b
        if isinstance(a, Arr) and isinstance(b, Arr):
            I.dom.require_eq(a.n, b.n, "vdot: shapes not aligned")
            sa, sb = a.snap(), b.snap()
            return I.dom.sum(0, a.n, lambda k: V.s_conj(sa(k)) * sb(k))
        raise Unsupported("vdot of 2-D arguments")

    @reg("numpy.dot", doc="dot: sum_k a[..,k] * b[k,..] (no conjugation)")
    def np_dot(I, a, b):
        if isinstance(a, (list, tuple)):
            a = as_array(I, a)
        if isinstance(b, (list, tuple)):
            b = as_array(I, b)
        d = I.dom
        if V.is_num(a) or V.is_num(b):
            return a * b
        if isinstance(a, Arr) and isinstance(b, Arr):
            d.require_eq(a.n, b.n, "dot: shapes not aligned")
            sa, sb = a.snap(), b.snap()
            return d.sum(0, a.n, lambda k: sa(k) * sb(k))
        if isinstance(a, Arr) and isinstance(b, Arr2):
            d.require_eq(a.n, b.r, "dot: shapes not aligned")
            sa, sb = a.snap(), b.snap()
            n = a.n
            return Arr.build(b.c, lambda j: d.sum(0, n, lambda k: sa(k) * sb(k, j)), V.promote(a.dtype, b.dtype))
        if isinstance(a, Arr2) and isinstance(b, Arr):
            d.require_eq(a.c, b.n, "dot: shapes not aligned")
            sa, sb = a.snap(), b.snap()
            n = a.c
            return Arr.build(a.r, lambda i: d.sum(0, n, lambda k: sa(i, k) * sb(k)), V.promote(a.dtype, b.dtype))
        if isinstance(a, Arr2) and isinstance(b, Arr2):
            d.require_eq(a.c, b.r, "dot: shapes not aligned")
            sa, sb = a.snap(), b.snap()
            n = a.c
            return Arr2.build(a.r, b.c, lambda i, j: d.sum(0, n, lambda k: sa(i, k) * sb(k, j)),
                              V.promote(a.dtype, b.dtype))
        raise Unsupported("dot operands")

    @reg("numpy.isrealobj", doc="isrealobj(x): dtype of x is not complex")
    def np_isrealobj(I, a):
        if isinstance(a, (list, tuple)):
            a = as_array(I, a)
        if isinstance(a, (Arr, Arr2)):
            return a.dtype != "complex"
        return not isinstance(a, Cx)

    @reg("numpy.isreal", doc="isreal(x) for a scalar: the imaginary part is zero (a VALUE test, unlike isrealobj)")
    def np_isreal(I, a):
        if isinstance(a, (list, tuple, Arr, Arr2)):
            raise Unsupported("numpy.isreal of an array")
        if isinstance(a, Cx):
            return V.s_cmp("==", a.im, 0)
        return True

    @reg("numpy.issubdtype")
    def np_issubdtype(I, dt, kind):
        return dtype_name(dt) == dtype_name(kind)

    @reg("numpy.max", "numpy.amax")
    def np_max(I, a):
        return I.call_builtin("max", [a], {})

    @reg("numpy.min", "numpy.amin")
    def np_min(I, a):
        return I.call_builtin("min", [a], {})

    @reg("numpy.argmin", doc="argmin: index of the first minimum")
    def np_argmin(I, a):
        if isinstance(a, (list, tuple)):
            a = as_array(I, a) if all(V.is_num(v) for v in a) else None
        if a is None or not isinstance(a.n, int):
            raise Unsupported("argmin over symbolic length")
        items = a.to_list()
        best, bi = items[0], 0
        for i, v in enumerate(items[1:], 1):
            c = V.s_cmp("<", v, best)
            if hasattr(c, "default") and isinstance(bi, int):
                # degree domain: the comparison has been type-checked (mixed offsets are a degree error); the index stays a
                # concrete integer on the main path
                if c.default:
                    bi, best = i, v
                continue
            bi = V.s_ite(c, i, bi)
            best = V.s_ite(c, v, best)
        return bi

    # ------------------------------------------------------------------ FFT  (A-DFT)
    @reg("numpy.fft.fft",
         doc="fft(a, n)[k] = DTFT(a truncated/zero-padded to n, k/n), DTFT(s,f) = sum_j s[j] e^{-2 pi i f j}; length n")
    def np_fft(I, a, n=None, axis=-1, **kw):
        return fft_common(I, a, n, axis, half=False)

    @reg("numpy.fft.rfft", doc="rfft(a, n) = fft(a, n)[0 : n//2+1] for real a")
    def np_rfft(I, a, n=None, axis=-1, **kw):
        return fft_common(I, a, n, axis, half=True)

    @reg("numpy.fft.ifft", doc="ifft(X)[m] = (1/n) sum_k X[k] e^{+2 pi i k m/n} = DTFT(X, -m/n)/n")
    def np_ifft(I, a, n=None, axis=-1, **kw):
        if isinstance(a, (list, tuple)):
            a = as_array(I, a)
        if not isinstance(a, Arr):
            raise Unsupported("ifft of 2-D")
        if n is None:
            n = a.n
        n = I.as_index(n)
        seq = padded(a, n)
        nf = V.to_float(n)
        return Arr.build(n, lambda m: V.Cx.of(I.dom.dtft(seq, n, -m, n)) / nf, "complex")

    def lazy_ite(c, fa, zero):
        if c is False:
            return zero
        if c is True:
            return fa()
        return V.s_ite(c, fa(), zero)

    def padded(a, n):
        s = a.snap()
        ln = a.n
        lim = V.s_min(ln, n)
        zero = V.cast_to(0, "complex") if a.dtype == "complex" else Fraction(0)
        return lambda j: lazy_ite(V.b_and(V.s_cmp(">=", j, 0), V.s_cmp("<", j, lim)), lambda: s(j), zero)

    def fft_common(I, a, n, axis, half):
        if isinstance(a, (list, tuple)):
            a = as_array(I, a)
        d = I.dom
        if isinstance(a, Arr):
            if n is None:
                n = a.n
            n = I.as_index(n)
            pos = V.s_cmp(">=", n, 1)
            if pos is not True:
                if not I.branch(pos):
                    raise RaiseSig("ValueError", "Invalid number of FFT data points")
            seq = padded(a, n)
            nf = V.to_float(n)
            out_n = V.s_floordiv(n, 2) + 1 if half else n
            return Arr.build(out_n, lambda k: V.Cx.of(d.dtft(seq, n, k, n)), "complex")
        if isinstance(a, Arr2):
            s = a.snap()
            zero = V.cast_to(0, "complex") if a.dtype == "complex" else Fraction(0)
            if axis in (0,):
                ln = a.r
                if n is None:
                    n = ln
                n = I.as_index(n)
                lim = V.s_min(ln, n)
                nf = V.to_float(n)
                out_n = V.s_floordiv(n, 2) + 1 if half else n
                def el(k, c):
                    seq = lambda j: lazy_ite(V.b_and(V.s_cmp(">=", j, 0), V.s_cmp("<", j, lim)), lambda: s(j, c), zero)
                    return V.Cx.of(d.dtft(seq, n, k, n))
                return Arr2.build(out_n, a.c, el, "complex")
            ln = a.c
            if n is None:
                n = ln
            n = I.as_index(n)
            lim = V.s_min(ln, n)
            nf = V.to_float(n)
            out_n = V.s_floordiv(n, 2) + 1 if half else n
            def el2(r, k):
                seq = lambda j: lazy_ite(V.b_and(V.s_cmp(">=", j, 0), V.s_cmp("<", j, lim)), lambda: s(r, j), zero)
                return V.Cx.of(d.dtft(seq, n, k, n))
            return Arr2.build(a.r, out_n, el2, "complex")
        raise Unsupported("fft operand")

    @reg("numpy.fft.fftshift")
    def np_fftshift(I, a):
        a = as_array(I, a)
        n = a.n
        h = V.s_floordiv(n, 2)
        s = a.snap()
        return Arr.build(n, lambda i: s(V.s_mod(i + n - h, n)), a.dtype)

    # ------------------------------------------------------------------ misc
    @reg("collections.deque", doc="deque(data).rotate(k): element i moves to (i+k) mod n")
    def deque(I, data):
        from .interp import DequeVal
        return DequeVal(as_array(I, data))

    @reg("numpy.where", doc="where(mask)[0]: increasing indices where mask holds (+ partition-count lemma)")
    def np_where(I, mask):
        if isinstance(mask, Arr) and isinstance(mask.n, int):
            items = mask.to_list()
            if all(isinstance(b, bool) for b in items):
                return (Arr.from_items([i for i, b in enumerate(items) if b], dtype="int"),)
        return (WhereResult(mask),)

    @reg("scipy.signal.correlate",
         doc="correlate(x, y, 'full')[m] = sum_n x[n + m - (len(y)-1)] * conj(y[n]), m = 0 .. len(x)+len(y)-2")
    def sp_correlate(I, x, y, mode="full", **kw):
        x, y = as_array(I, x), as_array(I, y)
        if mode != "full":
            raise Unsupported("correlate mode")
        d = I.dom
        sx, sy = x.snap(), y.snap()
        nx, ny = x.n, y.n
        cx = x.dtype == "complex" or y.dtype == "complex"
        zero = V.Cx(Fraction(0), Fraction(0)) if cx else Fraction(0)
        xz = lambda j: V.s_ite(V.b_and(V.s_cmp(">=", j, 0), V.s_cmp("<", j, nx)), sx(j), zero)
        dt = V.promote(x.dtype, y.dtype)
        return Arr.build(nx + ny - 1, lambda m: d.sum(0, ny, lambda n: xz(n + m - (ny - 1)) * V.s_conj(sy(n))), dt)

    @reg("scipy.linalg.toeplitz", doc="toeplitz(c, r)[i, j] = c[i-j] if i >= j else r[j-i]  (c: first column, r: first row)")
    def sp_toeplitz(I, c, r=None):
        c = as_array(I, c)
        if r is None:
            rr = c.conjugate()
        else:
            rr = as_array(I, r)
        sc, sr = c.snap(), rr.snap()
        dt = V.promote(c.dtype, rr.dtype)
        return Arr2.build(c.n, rr.n, lambda i, j: V.s_ite(V.s_cmp(">=", i, j), V.cast_to(sc(i - j), dt), V.cast_to(sr(j - i), dt)), dt)

    def lib_window(name):
        def f(I, N, *params, **kw):
            d = I.dom
            n = I.as_index(N)
            if hasattr(d, "const_array"):
                return d.const_array(n)
            keys = d.key_terms([n] + list(params) + [kw[k] for k in sorted(kw)])
            a = d.opaque_array("npwin_" + name, keys, n, "float")
            return a
        return f
    for nm in ("hanning", "hamming", "bartlett", "kaiser", "blackman"):
        T.table["numpy." + nm] = lib_window(nm)
        T.doc["numpy." + nm] = "numpy.%s(N[, beta]): real window of length N (closed form assumed, see C20)" % nm
    T.table["scipy.signal.windows.chebwin"] = lib_window("chebwin")
    T.table["scipy.signal.chebwin"] = lib_window("chebwin")
    T.doc["scipy.signal.windows.chebwin"] = "chebwin(N, at): real window of length N (assumed)"

    @reg("scipy.linalg.lstsq", "numpy.linalg.lstsq",
         doc="lstsq(A, b) -> (x, residues, rank, sv): len(x) = cols(A), A^H (A x - b) = 0 (A-LSQ)")
    def sp_lstsq(I, A, b, **kw):
        d = I.dom
        if hasattr(d, "lib_lstsq"):
            return d.lib_lstsq(I, A, b)
        raise Unsupported("lstsq in this domain")

    @reg("numpy.linalg.svd",
         doc="svd(A) -> (U, S, Vh): deterministic function of the matrix; S has min(rows, cols) entries, non-increasing "
             ">= 0; Vh is cols x cols, row i = conjugate of the i-th right singular vector (A-SVD)")
    def np_svd(I, A, full_matrices=True, **kw):
        d = I.dom
        if hasattr(d, "lib_svd"):
            return d.lib_svd(I, A)
        ident = d.ext_identity(A)
        keys = d.key_terms([ident])
        k = V.s_min(A.r, A.c)
        U = d.opaque_array2("svd_U", keys, A.r, A.r, A.dtype)
        S = d.opaque_array("svd_S", keys, k, "float")
        Vh = d.opaque_array2("svd_Vh", keys, A.c, A.c, A.dtype)
        if hasattr(d, "facts"):
            # S non-increasing and >= 0: instantiated on demand by contracts through svd_facts
            pass
        return (U, S, Vh)

    @reg("numpy.ctypeslib.load_library")
    def load_library(I, *a, **k):
        return Opaque("clib")

    @reg("ctypes.c_int", "ctypes.c_float", "ctypes.c_double")
    def c_scalar(I, v):
        return v

    @reg("os.path.abspath", "os.path.dirname", "os.path.join")
    def ospath(I, *a, **k):
        return ""


import ast as _ast  # noqa: E402
_ast_mult = _ast.Mult()


def conc_elem(name, a):
    """exact values of elementary functions at the few concrete points that matter"""
    a = Fraction(a)
    if name in ("cos", "exp") and a == 0:
        return Fraction(1)
    if name in ("sin", "tanh", "arctanh", "arcsin") and a == 0:
        return Fraction(0)
    if name == "sinc" and a == 0:
        return Fraction(1)
    if name == "log" and a == 1:
        return Fraction(0)
    if name == "sqrt":
        if a >= 0:
            import math
            n, d = a.numerator, a.denominator
            rn, rd = math.isqrt(n), math.isqrt(d)
            if rn * rn == n and rd * rd == d:
                return Fraction(rn, rd)
    if name in ("ceil",):
        import math
        return Fraction(math.ceil(a))
    if name in ("floor",):
        import math
        return Fraction(math.floor(a))
    if name == "log2":
        if a > 0 and a.denominator == 1 and (a.numerator & (a.numerator - 1)) == 0:
            return Fraction(a.numerator.bit_length() - 1)
    return None



def _astype(obj, dt, copy, kw):
    """astype(dtype, copy=False) returns the SAME array when the dtype already matches: an alias, which the functional array model
    cannot express (a later in-place write would reach the caller's data) -- unsupported, decided by the native oracle if at all"""
    if kw:
        raise Unsupported("astype keyword %s" % sorted(kw))
    if copy is not True and getattr(obj, "dtype", None) == dt:
        raise Unsupported("astype(copy=False) with matching dtype returns an alias of its input (aliasing guard)")
    return obj.astype(dt)

def value_attr(T, interp, obj, name):
    I = interp
    if isinstance(obj, Arr):
        if name in ("size",):
            return obj.n
        if name == "shape":
            return (obj.n,)
        if name == "ndim":
            return 1
        if name == "dtype":
            from .interp import TypeMarker
            return TypeMarker({"float": "float", "int": "int", "complex": "complex"}.get(obj.dtype, obj.dtype))
        if name in ("real", "imag", "T"):
            return getattr(obj, name)
        if name in ("conjugate", "conj", "copy", "transpose"):
            return getattr(obj, name)
        if name == "resize":
            def resize(n, refcheck=True):
                if isinstance(n, tuple):
                    (n,) = n
                obj.resize(I.as_index(n))
            return resize
        if name == "astype":
            return lambda dt, copy=True, **kw: _astype(obj, dtype_name_pub(dt), copy, kw)
        if name == "reshape":
            def reshape(*shape):
                if len(shape) == 1 and isinstance(shape[0], tuple):
                    shape = shape[0]
                if len(shape) == 1:
                    return obj.copy()
                r, c = shape
                s = obj.snap()
                I.dom.require_eq(obj.n, r * c, "cannot reshape")
                res = Arr2.build(r, c, lambda i, j: s(i * c + j), obj.dtype)
                # numpy returns a VIEW: an in-place operator on the result would change `obj` too.  The values here are
                # functional, so such a write is not modelled -- it is detected and reported (aliasing guard)
                import weakref
                res._view_of = weakref.ref(obj)
                if not getattr(obj, "is_list", False):
                    if obj._views is None:
                        obj._views = []
                    obj._views.append(weakref.ref(res))
                return res
            return reshape
        if name == "sum":
            return lambda axis=None: T.sum1(I, obj)
        if name == "mean":
            return lambda axis=None: T.get("numpy.mean")(I, obj)
        if name == "all":
            def all_():
                items = obj.to_list()
                r = True
                for v in items:
                    r = V.b_and(r, v)
                return r
            return all_
        if name == "ctypes":
            return Opaque("arrayptr", arr=obj)
        if name == "append" and obj.is_list:
            def append(v):
                if obj.items is None:
                    raise Unsupported("append to symbolic list")
                obj.items.append(v)
                obj.n = len(obj.items)
            return append
    if isinstance(obj, Arr2):
        if name == "shape":
            return (obj.r, obj.c)
        if name == "ndim":
            return 2
        if name == "size":
            return obj.r * obj.c
        if name in ("real", "imag", "T"):
            return getattr(obj, name)
        if name in ("conjugate", "conj", "copy", "transpose"):
            return getattr(obj, name)
        if name == "dtype":
            from .interp import TypeMarker
            return TypeMarker(obj.dtype)
        if name == "reshape":
            def reshape2(*shape):
                if len(shape) == 1 and isinstance(shape[0], tuple):
                    shape = shape[0]
                r, c = shape
                return obj.reshape(r, c)
            return reshape2
        if name == "astype":
            return lambda dt, copy=True, **kw: _astype(obj, dtype_name_pub(dt), copy, kw)
        if name == "sum":
            return lambda axis=None: T.get("numpy.sum")(I, obj, axis=axis)
    if isinstance(obj, Cx) or V.is_num(obj):
        if name == "real":
            return V.s_real(obj)
        if name == "imag":
            return V.s_imag(obj)
        if name in ("conjugate", "conj"):
            return lambda: V.s_conj(obj)
        if name == "transpose":
            return lambda: obj
        if name == "copy":
            return lambda: obj
        if name == "astype":
            return lambda dt: V.cast_to(obj, dtype_name_pub(dt))
        if name == "size":
            return 1
        if name == "ndim":
            return 0
    from .interp import DequeVal
    if isinstance(obj, DequeVal):
        if name == "rotate":
            return obj.rotate_fn(I)
    if isinstance(obj, WhereResult):
        pass
    if isinstance(obj, Opaque):
        if name == "data_as" and hasattr(obj, "arr"):
            arr = obj.arr
            return lambda *a, **k: Opaque("ptr", arr=arr)
        return Opaque(obj.tag + "." + name)
    return NotImplemented


def dtype_name_pub(d):
    return dtype_name(d)
