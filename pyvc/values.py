"""Domain independent value model: complex pairs, 1-D / 2-D arrays, objects.

Scalars are either concrete (int, Fraction, bool) or symbolic scalars of the active
domain (z3 terms for E1, polynomial-ring elements for E3, degree types for E2).  All
symbolic scalar classes overload the arithmetic operators, so the code below is written
once.  ``float`` never occurs: decimal literals become exact Fractions (assumption
A-REAL: machine arithmetic is treated as exact real arithmetic).
"""
from fractions import Fraction
import weakref


class Unsupported(Exception):
    """construct outside the supported subset: the obligation is *undecided*"""


class EngineError(Exception):
    pass


class _DomHolder:
    dom = None


def dom():
    return _DomHolder.dom


def set_domain(d):
    _DomHolder.dom = d


def is_conc(v):
    return isinstance(v, (int, Fraction)) and not isinstance(v, bool) or isinstance(v, bool)


def is_num(v):
    """a scalar number (concrete or symbolic, real or complex)"""
    if isinstance(v, (int, Fraction, Cx)):
        return True
    d = dom()
    return d is not None and d.is_scalar(v)


def conc_div(a, b):
    if b == 0:
        raise ZeroDivisionError
    return Fraction(a) / Fraction(b) if not (isinstance(a, Fraction) or isinstance(b, Fraction)) else Fraction(a) / Fraction(b)


def norm_frac(v):
    return v


def to_frac(x):
    """exact value of a Python literal"""
    if isinstance(x, bool):
        return x
    if isinstance(x, int):
        return x
    if isinstance(x, float):
        return Fraction(repr(x)) if x == x and x not in (float("inf"), float("-inf")) else x
    if isinstance(x, complex):
        return Cx(to_frac(x.real), to_frac(x.imag))
    return x


# ---------------------------------------------------------------------------------
# complex numbers as pairs of (concrete or symbolic) reals


def _atomic(v):
    """domains whose complex numbers are atomic scalars (degree types) never build Cx pairs"""
    d = dom()
    return d is not None and getattr(d, "atomic_complex", False) and d.is_scalar(v)


class Cx:
    __slots__ = ("re", "im")

    def __init__(self, re, im=0):
        self.re = re
        self.im = im

    @staticmethod
    def of(v):
        if isinstance(v, Cx) or _atomic(v):
            return v
        return Cx(v, 0)

    def __add__(self, o):
        if isinstance(o, (Arr, Arr2)) or _atomic(o):
            return NotImplemented
        o = Cx.of(o)
        return Cx(self.re + o.re, self.im + o.im)

    __radd__ = __add__

    def __sub__(self, o):
        if isinstance(o, (Arr, Arr2)) or _atomic(o):
            return NotImplemented
        o = Cx.of(o)
        return Cx(self.re - o.re, self.im - o.im)

    def __rsub__(self, o):
        if _atomic(o):
            return NotImplemented
        o = Cx.of(o)
        return Cx(o.re - self.re, o.im - self.im)

    def __neg__(self):
        return Cx(-self.re, -self.im)

    def __pos__(self):
        return self

    def __mul__(self, o):
        if isinstance(o, (Arr, Arr2)) or _atomic(o):
            return NotImplemented
        if not isinstance(o, Cx):
            return Cx(self.re * o, self.im * o)
        return Cx(self.re * o.re - self.im * o.im, self.re * o.im + self.im * o.re)

    def __rmul__(self, o):
        if _atomic(o):
            return NotImplemented
        if not isinstance(o, Cx):
            return Cx(o * self.re, o * self.im)
        return o.__mul__(self)

    def __truediv__(self, o):
        if isinstance(o, (Arr, Arr2)) or _atomic(o):
            return NotImplemented
        if not isinstance(o, Cx):
            return Cx(s_div(self.re, o), s_div(self.im, o))
        d = o.re * o.re + o.im * o.im
        n = self * o.conjugate()
        return Cx(s_div(n.re, d), s_div(n.im, d))

    def __rtruediv__(self, o):
        if _atomic(o):
            return NotImplemented
        return Cx.of(o).__truediv__(self)

    def __pow__(self, n):
        return s_pow(self, n)

    def conjugate(self):
        return Cx(self.re, -self.im)

    conj = conjugate

    @property
    def real(self):
        return self.re

    @property
    def imag(self):
        return self.im

    def transpose(self):
        return self

    def copy(self):
        return self

    def __abs__(self):
        return s_abs(self)

    def __eq__(self, o):
        o = Cx.of(o) if is_num(o) else o
        if not isinstance(o, Cx):
            return False
        return b_and(s_eq(self.re, o.re), s_eq(self.im, o.im))

    def __ne__(self, o):
        return b_not(self.__eq__(o))

    __hash__ = None

    def __repr__(self):
        return "Cx(%r, %r)" % (self.re, self.im)


# ---------------------------------------------------------------------------------
# scalar helpers (dispatch to the domain for symbolic operands)


def s_div(a, b):
    if _atomic(a) or _atomic(b):
        return dom().div(a, b)
    if is_conc(a) and is_conc(b):
        if b == 0:
            d = dom()
            if d is not None and hasattr(d, "div_by_zero"):
                return d.div_by_zero(a)
            raise ZeroDivisionError
        return Fraction(a) / Fraction(b) if True else None
    if isinstance(a, Cx) or isinstance(b, Cx):
        return Cx.of(a).__truediv__(b)
    return dom().div(a, b)


def _int_like(n):
    if isinstance(n, bool):
        return None
    if isinstance(n, int):
        return n
    if isinstance(n, Fraction) and n.denominator == 1:
        return int(n)
    return None


def s_pow(a, n):
    k = _int_like(n)
    if k is None:
        if isinstance(n, Fraction) and n == Fraction(1, 2):
            return dom().sqrt(a)
        if is_conc(a) and is_conc(n):
            raise Unsupported("non-integer concrete power %r ** %r" % (a, n))
        return dom().power(a, n)
    d = dom()
    if d is not None and hasattr(d, "int_power") and not is_conc(a) and not isinstance(a, Cx):
        return d.int_power(a, k, float_exp=isinstance(n, Fraction))
    if k == 2 and d is not None and hasattr(d, "square_hook"):
        r = d.square_hook(a)
        if r is not None:
            return r
    if k >= 0:
        r = 1
        for _ in range(k):
            r = r * a
        if isinstance(n, Fraction) and isinstance(r, int):
            r = Fraction(r)
        return r
    return s_div(1, s_pow(a, -k))


def s_abs(a):
    if isinstance(a, bool):
        return int(a)
    if isinstance(a, (int, Fraction)):
        return abs(a)
    return dom().abs(a)


def s_abs2(a):
    if isinstance(a, Cx):
        return a.re * a.re + a.im * a.im
    if _atomic(a):
        return a * a.conjugate()
    return a * a


def s_conj(a):
    if isinstance(a, Cx):
        return a.conjugate()
    if isinstance(a, (Arr, Arr2)):
        return a.conjugate()
    d = dom()
    if d is not None and hasattr(d, "conj") and not is_conc(a):
        return d.conj(a)
    return a


def s_real(a):
    if isinstance(a, Cx):
        return a.re
    if isinstance(a, (Arr, Arr2)):
        return a.real
    d = dom()
    if d is not None and hasattr(d, "real") and not is_conc(a):
        return d.real(a)
    return a


def s_imag(a):
    if isinstance(a, Cx):
        return a.im
    if isinstance(a, (Arr, Arr2)):
        return a.imag
    d = dom()
    if d is not None and hasattr(d, "imag") and not is_conc(a):
        return d.imag(a)
    return 0


def s_eq(a, b):
    if _atomic(a) or _atomic(b):
        return dom().cmp("==", a, b)
    if isinstance(a, Cx) or isinstance(b, Cx):
        a, b = Cx.of(a), Cx.of(b)
        return b_and(s_eq(a.re, b.re), s_eq(a.im, b.im))
    if is_conc(a) and is_conc(b):
        return a == b
    return dom().cmp("==", a, b)


def s_cmp(op, a, b):
    if op == "==":
        return s_eq(a, b)
    if op == "!=":
        return b_not(s_eq(a, b))
    if _atomic(a) or _atomic(b):
        return dom().cmp(op, a, b)
    if isinstance(a, Cx) or isinstance(b, Cx):
        # numpy orders complex lexicographically but the code base only compares
        # quantities whose imaginary part is zero; keep it honest:
        a, b = Cx.of(a), Cx.of(b)
        za, zb = a.im, b.im
        if is_conc(za) and za == 0 and is_conc(zb) and zb == 0:
            return s_cmp(op, a.re, b.re)
        d = dom()
        if hasattr(d, "complex_order"):
            return d.complex_order(op, a, b)
        raise Unsupported("ordering comparison of complex values")
    if is_conc(a) and is_conc(b):
        return {"<": a < b, "<=": a <= b, ">": a > b, ">=": a >= b}[op]
    return dom().cmp(op, a, b)


def b_and(a, b):
    if a is False or b is False:
        return False
    if a is True:
        return b
    if b is True:
        return a
    return dom().b_and(a, b)


def b_or(a, b):
    if a is True or b is True:
        return True
    if a is False:
        return b
    if b is False:
        return a
    return dom().b_or(a, b)


def b_not(a):
    if isinstance(a, bool):
        return not a
    return dom().b_not(a)


def s_ite(c, a, b):
    if c is True:
        return a
    if c is False:
        return b
    if a is b:
        return a
    if _atomic(a) or _atomic(b):
        return dom().ite(c, a, b)
    if isinstance(a, Cx) or isinstance(b, Cx):
        a, b = Cx.of(a), Cx.of(b)
        return Cx(s_ite(c, a.re, b.re), s_ite(c, a.im, b.im))
    return dom().ite(c, a, b)


def s_min(a, b):
    if is_conc(a) and is_conc(b):
        return min(a, b)
    return s_ite(s_cmp("<=", a, b), a, b)


def s_max(a, b):
    if is_conc(a) and is_conc(b):
        return max(a, b)
    return s_ite(s_cmp(">=", a, b), a, b)


def known(c):
    """decide a condition from the current path condition when that is possible (used only
    to keep index terms small; never to drop a case)"""
    if isinstance(c, bool):
        return c
    d = dom()
    if d is not None and hasattr(d, "known"):
        return d.known(c)
    return None


def k_ite(c, a, b):
    k = known(c)
    if k is True:
        return a
    if k is False:
        return b
    return s_ite(c, a, b)


def k_min(a, b):
    if is_conc(a) and is_conc(b):
        return min(a, b)
    return k_ite(s_cmp("<=", a, b), a, b)


def k_max(a, b):
    if is_conc(a) and is_conc(b):
        return max(a, b)
    return k_ite(s_cmp(">=", a, b), a, b)


def s_is_int(v):
    if isinstance(v, bool):
        return True
    if isinstance(v, int):
        return True
    if isinstance(v, Fraction) or isinstance(v, Cx):
        return False
    return dom().is_int(v)


def dtype_of_scalar(v):
    if isinstance(v, Cx):
        return "complex"
    if _atomic(v):
        return "complex" if getattr(v, "cx", False) else "float"
    if s_is_int(v):
        return "int"
    return "float"


_RANK = {"bool": 0, "int": 1, "float": 2, "complex": 3, "object": 4}


def promote(a, b):
    return a if _RANK[a] >= _RANK[b] else b


def cast_to(v, dtype):
    """numpy's cast on item assignment"""
    if _atomic(v):
        return dom().cast(v, dtype)
    if dtype == "complex":
        return Cx.of(v)
    if dtype == "float":
        if isinstance(v, Cx):
            d = dom()
            if d is not None and hasattr(d, "note_cast"):
                d.note_cast("complex->float")
            return to_float(v.re)
        return to_float(v)
    if dtype == "int":
        if isinstance(v, Cx):
            v = v.re
        if s_is_int(v):
            return v
        return s_trunc(v)
    return v


def to_float(v):
    if _atomic(v):
        return v
    if isinstance(v, bool):
        return Fraction(int(v))
    if isinstance(v, int):
        return Fraction(v)
    if isinstance(v, Fraction):
        return v
    if isinstance(v, Cx):
        raise Unsupported("float() of complex")
    return dom().to_real(v)


def s_trunc(v):
    """Python int(): truncation toward zero"""
    if isinstance(v, bool):
        return int(v)
    if isinstance(v, int):
        return v
    if isinstance(v, Fraction):
        return int(v)  # Fraction.__trunc__
    return dom().trunc(v)


def s_floordiv(a, b):
    if is_conc(a) and is_conc(b):
        return a // b
    return dom().floordiv(a, b)


def s_mod(a, b):
    if is_conc(a) and is_conc(b):
        return a % b
    return dom().mod(a, b)


# ---------------------------------------------------------------------------------
# index hook: out-of-range accesses become IndexError paths (installed by the interpreter)


class _Hooks:
    index_check = None   # callable(i, n) -> None (may raise / fork)
    on_view_write = None
    epoch = 0


def _make_stale(v):
    def stale(*a):
        raise Unsupported("read of a slice / reshape view after its base array was modified (aliasing guard)")
    try:
        v.items = None
    except Exception:
        pass
    if hasattr(v, "rows"):
        v.rows = None
    v.fn = stale
    v._view_of = None


def check_index(i, n):
    if _Hooks.index_check is not None:
        _Hooks.index_check(i, n)


# ---------------------------------------------------------------------------------
# 1-D arrays


def norm_index(i, n):
    """CPython index normalisation (negative wraps once)"""
    if is_conc(i):
        if i < 0:
            return i + n
        return i
    return k_ite(s_cmp("<", i, 0), i + n, i)


def slice_bounds(sl, n):
    """CPython ``slice.indices`` for step in {1,-1,k>0}: returns (start, step, length)"""
    lo, hi, st = sl
    if st is None:
        st = 1
    if not is_conc(st):
        raise Unsupported("symbolic slice step")
    st = int(st)
    if st == 0:
        raise Unsupported("slice step 0")
    if st > 0:
        def clip(v, default):
            if v is None:
                return default
            if is_conc(v) and is_conc(n):
                if v < 0:
                    return max(v + n, 0)
                return min(v, n)
            k = known(s_cmp("<", v, 0))
            if k is True:
                return k_max(v + n, 0)
            if k is False:
                return k_min(v, n)
            return s_ite(s_cmp("<", v, 0), s_max(v + n, 0), s_min(v, n))
        a = clip(lo, 0)
        b = clip(hi, n)
        if st == 1:
            ln = k_max(b - a, 0)
        else:
            ln = k_max(s_floordiv(b - a + st - 1, st), 0)
        return a, st, ln
    # negative step
    def clipn(v, default):
        if v is None:
            return default
        if is_conc(v) and is_conc(n):
            if v < 0:
                return max(v + n, -1)
            return min(v, n - 1)
        k = known(s_cmp("<", v, 0))
        if k is True:
            return k_max(v + n, -1)
        if k is False:
            return k_min(v, n - 1)
        return s_ite(s_cmp("<", v, 0), s_max(v + n, -1), s_min(v, n - 1))
    a = clipn(lo, n - 1)
    b = clipn(hi, -1)
    if st == -1:
        ln = k_max(a - b, 0)
    else:
        ln = k_max(s_floordiv(a - b + (-st) - 1, -st), 0)
    return a, st, ln


def _key(i):
    if isinstance(i, (int, Fraction)):
        return ("c", i)
    e = getattr(i, "e", None)
    if e is not None and hasattr(e, "get_id"):
        return ("z", e.get_id())
    return None


def memo1(fn):
    """element functions are pure: cache by index (keeps the index term alive, z3 re-uses ids)"""
    cache = {}

    def f(i):
        k = _key(i)
        if k is None:
            return fn(i)
        hit = cache.get(k)
        if hit is not None and (k[0] == "c" or hit[0].e.eq(i.e)):
            return hit[1]
        v = fn(i)
        cache[k] = (i, v)
        return v
    f._memo = True
    return f


def memo2(fn):
    cache = {}

    def f(i, j):
        ki, kj = _key(i), _key(j)
        if ki is None or kj is None:
            return fn(i, j)
        k = (ki, kj)
        hit = cache.get(k)
        if hit is not None and (ki[0] == "c" or hit[0].e.eq(i.e)) and (kj[0] == "c" or hit[1].e.eq(j.e)):
            return hit[2]
        v = fn(i, j)
        cache[k] = (i, j, v)
        return v
    f._memo = True
    return f


class Arr:
    """1-D numpy array / Python list of scalars.

    ``n`` is an int or a symbolic int; contents are either a Python list (``items``, only
    when ``n`` is concrete) or a pure function index -> scalar (``fn``).  Mutation replaces
    ``items[k]`` / wraps ``fn``; every derived array captures a *snapshot* (a pure function)
    so later in-place writes to a source are not seen by values computed earlier.
    """

    @property
    def fn(self):
        return self._fn

    @fn.setter
    def fn(self, f):
        self._fn = f if (f is None or getattr(f, "_memo", False)) else memo1(f)

    def __init__(self, n, fn=None, items=None, dtype="float", view_of=None, is_list=False):
        self.n = n
        self.fn = fn
        self.items = items
        self.dtype = dtype
        self.is_list = is_list
        self._view_of = weakref.ref(view_of) if view_of is not None else None
        self._views = None
        self._born = _Hooks.epoch
        self._nreads = 0
        self.ident = None
        if items is not None:
            self.n = len(items)

    # -- construction helpers
    @staticmethod
    def from_items(items, dtype=None, is_list=False):
        items = list(items)
        if dtype is None:
            dtype = "int"
            for v in items:
                if isinstance(v, (Arr, Arr2)) or not is_num(v):
                    dtype = "object"
                    break
                dtype = promote(dtype, dtype_of_scalar(v))
        if dtype != "object":
            items = [cast_to(v, dtype) for v in items]
        return Arr(len(items), items=items, dtype=dtype, is_list=is_list)

    @staticmethod
    def build(n, fn, dtype):
        """materialise when the length is concrete and small"""
        if isinstance(n, int) and not isinstance(n, bool):
            d = dom()
            limit = getattr(d, "materialise_limit", 64)
            if n <= limit:
                return Arr(n, items=[fn(i) for i in range(n)], dtype=dtype)
        return Arr(n, fn=fn, dtype=dtype)

    # -- reading
    def snap(self):
        self._nreads += 1
        if self.items is not None:
            items = tuple(self.items)
            n = len(items)

            def f(i, items=items, n=n):
                if is_conc(i):
                    if 0 <= i < n:
                        return items[int(i)]
                    return dom().out_of_range(self.dtype) if dom() is not None else 0
                # symbolic index into concrete storage: ite chain
                r = dom().out_of_range(self.dtype)
                for k in range(n - 1, -1, -1):
                    r = s_ite(s_eq(i, k), items[k], r)
                return r
            return f
        return self.fn

    def get(self, i):
        i = norm_index(i, self.n)
        check_index(i, self.n)
        return self.snap()(i)

    def at(self, i):
        """unchecked read at a normalised index (spec side)"""
        return self.snap()(i)

    def __len__(self):
        if isinstance(self.n, int):
            return self.n
        raise Unsupported("len() of symbolic-length array used as Python int")

    def to_list(self):
        if self.items is not None:
            return list(self.items)
        if isinstance(self.n, int):
            f = self.fn
            return [f(i) for i in range(self.n)]
        raise Unsupported("iteration over symbolic-length array")

    # -- writing
    def _write_guard(self):
        if self._view_of is not None and self._view_of() is not None:
            raise Unsupported("in-place write through a slice view (aliasing guard)")
        if self._views:
            # the views were modelled as snapshots of this array: after this write they no longer show what numpy's views would.
            # The write itself is fine (numpy evaluates the right-hand side first); what is not modelled is a later READ of such a
            # view, so the outstanding views become stale -- reading one is `unsupported` -- instead of refusing the write
            for r in self._views:
                v = r()
                if v is not None:
                    _make_stale(v)
            self._views = None

    def set(self, i, v):
        self._write_guard()
        i = norm_index(i, self.n)
        check_index(i, self.n)
        if self.dtype != "object":
            v = cast_to(v, self.dtype)
        if self.items is not None:
            if is_conc(i):
                self.items[int(i)] = v
            else:
                self.items = [s_ite(s_eq(i, k), v, old) for k, old in enumerate(self.items)]
            return
        old = self.fn
        self.fn = lambda j, i=i, v=v, old=old: s_ite(s_eq(j, i), v, old(j))

    def set_slice(self, sl, val):
        self._write_guard()
        a, st, ln = slice_bounds(sl, self.n)
        if isinstance(val, Arr):
            vs = val.snap()
            dom().require_eq(val.n, ln, "slice assignment length")
            vf = lambda k: vs(k)
        else:
            vf = lambda k: val
        dt = self.dtype
        if self.items is not None and is_conc(a) and is_conc(ln):
            for k in range(int(ln)):
                self.items[int(a) + st * k] = cast_to(vf(k), dt)
            return
        old = self.snap()
        n = self.n
        if st == 1:
            f = lambda j: s_ite(b_and(s_cmp(">=", j, a), s_cmp("<", j, a + ln)), cast_to(vf(j - a), dt), old(j))
        elif st == -1:
            f = lambda j: s_ite(b_and(s_cmp("<=", j, a), s_cmp(">", j, a - ln)), cast_to(vf(a - j), dt), old(j))
        else:
            raise Unsupported("slice assignment with step %d" % st)
        self.items = None
        self.fn = f
        if isinstance(n, int) and n <= getattr(dom(), "materialise_limit", 64):
            self.items = [f(i) for i in range(n)]
            self.fn = None

    def resize(self, n):
        old = self.snap()
        oldn = self.n
        zero = cast_to(0, self.dtype)
        if isinstance(n, int) and self.items is not None:
            items = list(self.items)[:n]
            items += [zero] * (n - len(items))
            self.items = items
            self.n = n
            return
        self.items = None
        self.fn = lambda j: s_ite(s_cmp("<", j, oldn), old(j), zero)
        self.n = n
        if isinstance(n, int) and n <= getattr(dom(), "materialise_limit", 64):
            f = self.fn
            self.items = [f(i) for i in range(n)]
            self.fn = None

    # -- derived arrays
    def copy(self):
        if self.items is not None:
            r = Arr(self.n, items=list(self.items), dtype=self.dtype)
        else:
            r = Arr(self.n, fn=self.fn, dtype=self.dtype)
        r.ident = self.ident
        return r

    def slice(self, sl):
        a, st, ln = slice_bounds(sl, self.n)
        s = self.snap()
        if self.items is not None and is_conc(a) and is_conc(ln):
            r = Arr(int(ln), items=[self.items[int(a) + st * k] for k in range(int(ln))], dtype=self.dtype,
                    view_of=None if self.is_list else self, is_list=self.is_list)
        else:
            r = Arr.build(ln, lambda k: s(a + st * k), self.dtype)
            r.is_list = self.is_list
            if not self.is_list:
                r._view_of = weakref.ref(self)
        if not self.is_list:
            if self._views is None:
                self._views = []
            self._views.append(weakref.ref(r))
        return r

    def take(self, idx):
        """fancy indexing by an integer array"""
        s = self.snap()
        isnap = idx.snap()
        n = self.n
        return Arr.build(idx.n, lambda k: s(norm_index(isnap(k), n)), self.dtype)

    def map(self, f, dtype=None):
        s = self.snap()
        return Arr.build(self.n, lambda i: f(s(i)), dtype or self.dtype)

    @staticmethod
    def zip2(a, b, f, dtype=None):
        if isinstance(a, Arr) and isinstance(b, Arr):
            n = a.n
            if not (a.n is b.n or (is_conc(a.n) and is_conc(b.n) and a.n == b.n)):
                if is_conc(a.n) and a.n == 1:
                    sa, sb = a.snap(), b.snap()
                    return Arr.build(b.n, lambda i: f(sa(0), sb(i)), dtype or promote(a.dtype, b.dtype))
                if is_conc(b.n) and b.n == 1:
                    sa, sb = a.snap(), b.snap()
                    return Arr.build(a.n, lambda i: f(sa(i), sb(0)), dtype or promote(a.dtype, b.dtype))
                dom().require_eq(a.n, b.n, "operands could not be broadcast together")
                if is_conc(b.n):
                    n = b.n
            sa, sb = a.snap(), b.snap()
            return Arr.build(n, lambda i: f(sa(i), sb(i)), dtype or promote(a.dtype, b.dtype))
        if isinstance(a, Arr):
            sa = a.snap()
            return Arr.build(a.n, lambda i: f(sa(i), b), dtype or promote(a.dtype, dtype_of_scalar(b)))
        sb = b.snap()
        return Arr.build(b.n, lambda i: f(a, sb(i)), dtype or promote(dtype_of_scalar(a), b.dtype))

    def _bin(self, o, f, rev=False, dtype=None):
        if isinstance(o, Arr2):
            return NotImplemented
        if isinstance(o, (list, tuple)):
            o = Arr.from_items([to_frac(x) for x in o])
        if rev:
            return Arr.zip2(o, self, f, dtype)
        return Arr.zip2(self, o, f, dtype)

    def __add__(self, o):
        if self.is_list and isinstance(o, Arr) and o.is_list:
            return concat([self, o], is_list=True)
        return self._bin(o, lambda x, y: x + y)

    def __radd__(self, o):
        return self._bin(o, lambda x, y: x + y, rev=True)

    def __sub__(self, o):
        return self._bin(o, lambda x, y: x - y)

    def __rsub__(self, o):
        return self._bin(o, lambda x, y: x - y, rev=True)

    def __mul__(self, o):
        if self.is_list and isinstance(o, int) and not isinstance(o, bool):
            return Arr.from_items(self.to_list() * o, is_list=True)
        if self.is_list and is_num(o) and not is_conc(o) and s_is_int(o) and is_conc(self.n) and self.n == 1:
            v = self.to_list()[0]           # [c] * n with a symbolic count
            r = Arr.build(s_max(o, 0), lambda i: v, self.dtype)
            r.is_list = True
            return r
        return self._bin(o, lambda x, y: x * y)

    def __rmul__(self, o):
        return self._bin(o, lambda x, y: x * y, rev=True)

    def _divdtype(self, o):
        od = o.dtype if isinstance(o, Arr) else dtype_of_scalar(o)
        return promote(promote(self.dtype, od), "float")

    def __truediv__(self, o):
        if isinstance(o, Arr2):
            return NotImplemented
        return self._bin(o, lambda x, y: s_div(x, y), dtype=self._divdtype(o))

    def __rtruediv__(self, o):
        return self._bin(o, lambda x, y: s_div(x, y), rev=True, dtype=self._divdtype(o))

    def __pow__(self, n):
        dt = self.dtype
        if isinstance(n, Fraction) and dt == "int":
            dt = "float"
        d = dom()
        if hasattr(d, "pow_dtype"):
            dt = d.pow_dtype(self, n, dt)
        return self.map(lambda x: s_pow(x, n), dtype=dt)

    def __rpow__(self, base):
        return self.map(lambda x: dom().power(base, x), dtype=promote(self.dtype, "float"))

    def __neg__(self):
        return self.map(lambda x: -x)

    def __abs__(self):
        return self.map(s_abs, dtype="float" if self.dtype == "complex" else self.dtype)

    def conjugate(self):
        if self.dtype != "complex":
            return self.copy()
        return self.map(s_conj)

    conj = conjugate

    @property
    def real(self):
        return self.map(s_real, dtype="float" if self.dtype == "complex" else self.dtype)

    @property
    def imag(self):
        return self.map(s_imag, dtype="float" if self.dtype == "complex" else self.dtype)

    def transpose(self):
        return self

    @property
    def T(self):
        return self

    @property
    def size(self):
        return self.n

    @property
    def shape(self):
        return (self.n,)

    @property
    def ndim(self):
        return 1

    def astype(self, dtype):
        return self.map(lambda x: cast_to(x, dtype), dtype=dtype)

    def cmp(self, op, o):
        return self._bin(o, lambda x, y: s_cmp(op, x, y), dtype="bool")

    def __repr__(self):
        if self.items is not None:
            return "Arr%s(%r)" % ("L" if self.is_list else "", self.items)
        return "Arr(n=%r, %s)" % (self.n, self.dtype)


def concat(parts, is_list=False):
    parts = [p if isinstance(p, Arr) else Arr.from_items([to_frac(x) for x in p]) for p in parts]
    dt = None
    for p in parts:
        dt = p.dtype if dt is None else promote(dt, p.dtype)
    if all(p.items is not None for p in parts):
        items = []
        for p in parts:
            items += [cast_to(v, dt) if dt != "object" else v for v in p.items]
        return Arr(len(items), items=items, dtype=dt, is_list=is_list)
    snaps = [p.snap() for p in parts]
    lens = [p.n for p in parts]
    offs = [0]
    for ln in lens:
        offs.append(offs[-1] + ln)

    def f(i):
        r = cast_to(snaps[-1](i - offs[-2]), dt)
        for k in range(len(parts) - 2, -1, -1):
            r = s_ite(s_cmp("<", i, offs[k + 1]), cast_to(snaps[k](i - offs[k]), dt), r)
        return r
    return Arr.build(offs[-1], f, dt)


# ---------------------------------------------------------------------------------
# 2-D arrays


class Arr2:
    @property
    def fn(self):
        return self._fn

    @fn.setter
    def fn(self, f):
        self._fn = f if (f is None or getattr(f, "_memo", False)) else memo2(f)

    def __init__(self, r, c, fn=None, rows=None, dtype="float"):
        self.r = r
        self.c = c
        self.fn = fn
        self.rows = rows  # list of lists when both dims concrete
        self.dtype = dtype
        self._born = _Hooks.epoch
        self._nreads = 0
        self.ident = None

    @staticmethod
    def build(r, c, fn, dtype):
        lim = getattr(dom(), "materialise_limit", 64)
        if isinstance(r, int) and isinstance(c, int) and r * c <= lim * 4:
            return Arr2(r, c, rows=[[fn(i, j) for j in range(c)] for i in range(r)], dtype=dtype)
        return Arr2(r, c, fn=fn, dtype=dtype)

    def snap(self):
        self._nreads += 1
        if self.rows is not None:
            rows = tuple(tuple(rw) for rw in self.rows)
            R, C = len(rows), (len(rows[0]) if rows else 0)

            def f(i, j):
                if is_conc(i) and is_conc(j):
                    return rows[int(i)][int(j)]
                r = dom().out_of_range(self.dtype)
                for a in range(R - 1, -1, -1):
                    for b in range(C - 1, -1, -1):
                        r = s_ite(b_and(s_eq(i, a), s_eq(j, b)), rows[a][b], r)
                return r
            return f
        return self.fn

    def get(self, i, j):
        i = norm_index(i, self.r)
        j = norm_index(j, self.c)
        check_index(i, self.r)
        check_index(j, self.c)
        return self.snap()(i, j)

    def at(self, i, j):
        return self.snap()(i, j)

    def set(self, i, j, v):
        i = norm_index(i, self.r)
        j = norm_index(j, self.c)
        check_index(i, self.r)
        check_index(j, self.c)
        v = cast_to(v, self.dtype)
        if self.rows is not None and is_conc(i) and is_conc(j):
            self.rows[int(i)][int(j)] = v
            return
        old = self.snap()
        self.rows = None
        self.fn = lambda a, b: s_ite(b_and(s_eq(a, i), s_eq(b, j)), v, old(a, b))

    def set_region(self, rsl, csl, val):
        """assignment to A[rows, cols] where each of rows/cols is an index or a slice"""
        old = self.snap()
        dt = self.dtype

        def axis(sel, n):
            if isinstance(sel, tuple):
                a, st, ln = slice_bounds(sel, n)
                if st != 1:
                    raise Unsupported("2-D slice assignment with step")
                return ("s", a, ln)
            return ("i", norm_index(sel, n), 1)
        ra, ca = axis(rsl, self.r), axis(csl, self.c)
        if isinstance(val, Arr):
            vs = val.snap()
            if ra[0] == "s" and ca[0] == "i":
                dom().require_eq(val.n, ra[2], "column assignment length")
                vf = lambda a, b: vs(a - ra[1])
            elif ra[0] == "i" and ca[0] == "s":
                dom().require_eq(val.n, ca[2], "row assignment length")
                vf = lambda a, b: vs(b - ca[1])
            else:
                raise Unsupported("2-D region assignment from 1-D value")
        elif isinstance(val, Arr2):
            vs = val.snap()
            # numpy requires the block to fit the region (no broadcasting of 2-D blocks is modelled)
            if ra[0] == "s":
                dom().require_eq(val.r, ra[2], "could not broadcast input array into the selected rows")
            if ca[0] == "s":
                dom().require_eq(val.c, ca[2], "could not broadcast input array into the selected columns")
            vf = lambda a, b: vs(a - ra[1], b - ca[1])
        else:
            vf = lambda a, b: val

        def inr(x, ax):
            if ax[0] == "i":
                return s_eq(x, ax[1])
            return b_and(s_cmp(">=", x, ax[1]), s_cmp("<", x, ax[1] + ax[2]))
        def f(a, b):
            c = b_and(inr(a, ra), inr(b, ca))
            if c is True:
                return cast_to(vf(a, b), dt)
            if c is False:
                return old(a, b)          # outside the region: the source block is not even looked at
            return s_ite(c, cast_to(vf(a, b), dt), old(a, b))
        if self.rows is not None:
            self.rows = [[f(i, j) for j in range(self.c)] for i in range(self.r)]
        else:
            self.fn = f

    def row(self, i):
        i = norm_index(i, self.r)
        check_index(i, self.r)
        s = self.snap()
        return Arr.build(self.c, lambda j: s(i, j), self.dtype)

    def col(self, j):
        j = norm_index(j, self.c)
        check_index(j, self.c)
        s = self.snap()
        return Arr.build(self.r, lambda i: s(i, j), self.dtype)

    def sub(self, rsl, csl):
        """A[rows, cols] with slices / indices"""
        s = self.snap()
        if isinstance(rsl, tuple) and isinstance(csl, tuple):
            a, st, ln = slice_bounds(rsl, self.r)
            b, st2, ln2 = slice_bounds(csl, self.c)
            return Arr2.build(ln, ln2, lambda i, j: s(a + st * i, b + st2 * j), self.dtype)
        if isinstance(rsl, tuple):
            a, st, ln = slice_bounds(rsl, self.r)
            j = norm_index(csl, self.c)
            check_index(j, self.c)
            return Arr.build(ln, lambda i: s(a + st * i, j), self.dtype)
        if isinstance(csl, tuple):
            b, st2, ln2 = slice_bounds(csl, self.c)
            i = norm_index(rsl, self.r)
            check_index(i, self.r)
            return Arr.build(ln2, lambda j: s(i, b + st2 * j), self.dtype)
        return self.get(rsl, csl)

    def copy(self):
        if self.rows is not None:
            return Arr2(self.r, self.c, rows=[list(r) for r in self.rows], dtype=self.dtype)
        return Arr2(self.r, self.c, fn=self.fn, dtype=self.dtype)

    def transpose(self):
        s = self.snap()
        return Arr2.build(self.c, self.r, lambda i, j: s(j, i), self.dtype)

    @property
    def T(self):
        return self.transpose()

    def map(self, f, dtype=None):
        s = self.snap()
        return Arr2.build(self.r, self.c, lambda i, j: f(s(i, j)), dtype or self.dtype)

    def reshape(self, r, c):
        """row-major reshape"""
        s = self.snap()
        oc = self.c
        dom().require_eq(self.r * self.c, r * c, "reshape size")
        def f(i, j):
            flat = i * c + j
            return s(s_floordiv(flat, oc), s_mod(flat, oc))
        return Arr2.build(r, c, f, self.dtype)

    def _bin(self, o, f, rev=False, dtype=None):
        d = dom()
        sa = self.snap()
        if isinstance(o, Arr2):
            sb = o.snap()
            r, c = self.r, self.c
            def dim1(x):
                return is_conc(x) and x == 1
            # numpy broadcasting on each axis
            br_r_a, br_r_b = dim1(self.r) and not dim1(o.r), dim1(o.r) and not dim1(self.r)
            br_c_a, br_c_b = dim1(self.c) and not dim1(o.c), dim1(o.c) and not dim1(self.c)
            if not (br_r_a or br_r_b):
                d.require_eq(self.r, o.r, "broadcast rows")
            if not (br_c_a or br_c_b):
                d.require_eq(self.c, o.c, "broadcast cols")
            R = o.r if br_r_a else self.r
            C = o.c if br_c_a else self.c
            def g(i, j):
                x = sa(0 if br_r_a else i, 0 if br_c_a else j)
                y = sb(0 if br_r_b else i, 0 if br_c_b else j)
                return f(y, x) if rev else f(x, y)
            return Arr2.build(R, C, g, dtype or promote(self.dtype, o.dtype))
        if isinstance(o, Arr):
            sb = o.snap()
            if is_conc(self.c) and self.c == 1 and not (is_conc(o.n) and o.n == 1):
                g = lambda i, j: (f(sb(j), sa(i, 0)) if rev else f(sa(i, 0), sb(j)))
                return Arr2.build(self.r, o.n, g, dtype or promote(self.dtype, o.dtype))
            if is_conc(o.n) and o.n == 1:
                g = lambda i, j: (f(sb(0), sa(i, j)) if rev else f(sa(i, j), sb(0)))
                return Arr2.build(self.r, self.c, g, dtype or promote(self.dtype, o.dtype))
            d.require_eq(self.c, o.n, "broadcast (r,c) with (c,)")
            g = lambda i, j: (f(sb(j), sa(i, j)) if rev else f(sa(i, j), sb(j)))
            return Arr2.build(self.r, self.c, g, dtype or promote(self.dtype, o.dtype))
        g = lambda i, j: (f(o, sa(i, j)) if rev else f(sa(i, j), o))
        return Arr2.build(self.r, self.c, g, dtype or promote(self.dtype, dtype_of_scalar(o)))

    def __add__(self, o):
        return self._bin(o, lambda x, y: x + y)

    def __radd__(self, o):
        return self._bin(o, lambda x, y: x + y, rev=True)

    def __sub__(self, o):
        return self._bin(o, lambda x, y: x - y)

    def __rsub__(self, o):
        return self._bin(o, lambda x, y: x - y, rev=True)

    def __mul__(self, o):
        return self._bin(o, lambda x, y: x * y)

    def __rmul__(self, o):
        return self._bin(o, lambda x, y: x * y, rev=True)

    def __truediv__(self, o):
        od = o.dtype if isinstance(o, (Arr, Arr2)) else dtype_of_scalar(o)
        return self._bin(o, lambda x, y: s_div(x, y), dtype=promote(promote(self.dtype, od), "float"))

    def __rtruediv__(self, o):
        od = o.dtype if isinstance(o, (Arr, Arr2)) else dtype_of_scalar(o)
        return self._bin(o, lambda x, y: s_div(x, y), rev=True, dtype=promote(promote(self.dtype, od), "float"))

    def __pow__(self, n):
        dt = self.dtype
        if isinstance(n, Fraction) and dt == "int":
            dt = "float"
        d = dom()
        if hasattr(d, "pow_dtype"):
            dt = d.pow_dtype(self, n, dt)
        return self.map(lambda x: s_pow(x, n), dtype=dt)

    def __neg__(self):
        return self.map(lambda x: -x)

    def __abs__(self):
        return self.map(s_abs, dtype="float" if self.dtype == "complex" else self.dtype)

    def conjugate(self):
        if self.dtype != "complex":
            return self.copy()
        return self.map(s_conj)

    conj = conjugate

    @property
    def real(self):
        return self.map(s_real, dtype="float" if self.dtype == "complex" else self.dtype)

    @property
    def imag(self):
        return self.map(s_imag, dtype="float" if self.dtype == "complex" else self.dtype)

    @property
    def shape(self):
        return (self.r, self.c)

    @property
    def ndim(self):
        return 2

    @property
    def size(self):
        return self.r * self.c

    def astype(self, dtype):
        return self.map(lambda x: cast_to(x, dtype), dtype=dtype)

    def __len__(self):
        if isinstance(self.r, int):
            return self.r
        raise Unsupported("len() of symbolic 2-D array")

    def __repr__(self):
        if self.rows is not None:
            return "Arr2(%r)" % (self.rows,)
        return "Arr2(%r x %r, %s)" % (self.r, self.c, self.dtype)


# ---------------------------------------------------------------------------------
# objects


class Obj:
    """instance of a repository class"""

    def __init__(self, cls):
        self.cls = cls
        self.attrs = {}

    def __repr__(self):
        return "<%s object>" % self.cls.name


class Enum:
    """an unknown element of a finite set of Python constants (None, True, False, strings),
    represented by an integer code (domain.code_of).  Lets one obligation cover every value
    of attributes such as ``window``, ``detrend`` or ``scale_by_freq``."""

    def __init__(self, code, note=""):
        self.code = code
        self.note = note

    def __repr__(self):
        return "<enum %s %r>" % (self.note, self.code)


def enum_eq(a, b):
    """equality between an Enum and an Enum / None / bool / str; anything else is unequal"""
    d = dom()
    ca = a.code if isinstance(a, Enum) else d.code_of(a)
    if isinstance(b, Enum):
        return s_eq(ca, b.code)
    if b is None or isinstance(b, (bool, str)):
        return s_eq(ca, d.code_of(b))
    return False


class Opaque:
    """a value the engine only passes around (e.g. a ctypes handle)"""

    def __init__(self, tag, **kw):
        self.tag = tag
        self.__dict__.update(kw)

    def __repr__(self):
        return "<opaque %s>" % self.tag
